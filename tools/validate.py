#!/usr/bin/env python3-vt
"""Validate MANIFEST.json and every evidence file against the schemas (needs jsonschema: python3-vt)."""
import json, sys, glob, os
import jsonschema
V = os.path.dirname(os.path.dirname(os.path.abspath(__file__)))
bad = 0
man = json.load(open(os.path.join(V, "MANIFEST.json")))
try:
    jsonschema.validate(man, json.load(open("/root/.vp/MANIFEST.schema.json")))
    print("MANIFEST ok: %d checks, %d not_applicable" % (len(man["checks"]), len(man.get("not_applicable", []))))
except Exception as e:
    print("MANIFEST INVALID:", e); bad += 1
es = json.load(open("/root/.vp/EVIDENCE.schema.json"))
for c in man["checks"]:
    p = os.path.join(V, c["evidence_file"]) if not c["evidence_file"].startswith("/") else c["evidence_file"]
    if not os.path.exists(p):
        print("missing evidence", p); bad += 1; continue
    ev = json.load(open(p))
    try:
        jsonschema.validate(ev, es)
        cov = ev["coverage"]
        print("%s ok level=%s tier=%s states=%s transitions=%s nontrivial=%s exhaustive=%s wall=%s" % (
            ev["property_id"], ev["level"], ev["tier"], cov.get("states"), cov.get("transitions"),
            cov.get("distinct_nontrivial"), cov.get("exhaustive"), ev["wall_s"]))
        if ev["level"] != c["level_claimed"]["category"]:
            print("  LEVEL MISMATCH with manifest"); bad += 1
    except Exception as e:
        print("EVIDENCE INVALID", p, str(e)[:500]); bad += 1
ids = {json.loads(l)["id"] for l in open(os.path.join(V, "properties.jsonl"))}
claimed = {c["property_id"] for c in man["checks"]}
na = {n["property_id"] for n in man.get("not_applicable", [])}
if ids - claimed - na:
    print("properties neither claimed nor not_applicable:", sorted(ids - claimed - na)); bad += 1
sys.exit(1 if bad else 0)
