#!/venv/bin/python
"""usage: tools/mkmut.py <name> <file-relative-to-repo> <<< 'OLD\n=====\nNEW'   -> writes mutants/<name>.patch
Creates the patch by editing a scratch worktree of /repo HEAD (never /repo itself)."""
import subprocess, sys, os, tempfile
name, rel = sys.argv[1], sys.argv[2]
old, new = sys.stdin.read().split("\n=====\n")
new = new.rstrip("\n") if not old.endswith("\n") else new
wt = tempfile.mkdtemp(prefix="mkmut_", dir="/tmp")
os.rmdir(wt)
subprocess.check_call(["git", "-C", "/repo", "worktree", "add", "--detach", wt, "HEAD", "-q"])
try:
    p = os.path.join(wt, rel)
    s = open(p).read()
    old = old.rstrip("\n"); new = new.rstrip("\n")
    assert s.count(old) == 1, "OLD must occur exactly once, occurs %d" % s.count(old)
    open(p, "w").write(s.replace(old, new))
    diff = subprocess.check_output(["git", "-C", wt, "diff"]).decode()
    out = os.path.join(os.path.dirname(os.path.dirname(os.path.abspath(__file__))), "mutants", name + ".patch")
    open(out, "w").write(diff)
    print("wrote", out, len(diff.splitlines()), "lines")
finally:
    subprocess.call(["git", "-C", "/repo", "worktree", "remove", "--force", wt])
