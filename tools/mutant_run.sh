#!/bin/bash
# usage: tools/mutant_run.sh <patch.diff> <ID> [<ID> ...]   (env TIER=quick|thorough)
# Applies the patch to a scratch git worktree of /repo (never to /repo itself), runs the given checks
# against it through OPTIMISM_REPO, prints each check's verdict, removes the worktree.
set -u
PATCH="$(readlink -f "$1")"; shift
WT="/tmp/mut_wt_$$"
git -C /repo worktree add --detach "$WT" HEAD >/dev/null 2>&1 || { echo "worktree failed"; exit 2; }
# carry over uncommitted changes of /repo's working tree (none expected) is deliberately not done
if ! git -C "$WT" apply "$PATCH"; then echo "patch does not apply"; git -C /repo worktree remove --force "$WT"; exit 2; fi
rc_all=0
for ID in "$@"; do
  out=$(OPTIMISM_REPO="$WT" VERIF_OUT="/tmp/verif_out_$$" "$(dirname "$0")/../check" "$ID" --tier "${TIER:-quick}" 2>&1)
  rc=$?
  echo "== $ID rc=$rc"
  echo "$out" | grep -E "VIOLATION|KNOWN-FINDING|key=|HARNESS|tier=" | head -${LINES_MAX:-12}
  [ $rc -ne 0 ] && rc_all=$rc
done
git -C /repo worktree remove --force "$WT"
rm -rf "/tmp/verif_out_$$"
exit $rc_all
