#!/venv/bin/python
"""Write the hand-written history notes of tools/histories.json into seeded/<seed>/meta.json (seed_eval.sh keeps an
existing note when it re-evaluates a seed, but a note written while an evaluation was in flight would be lost)."""
import json, os
V = os.path.dirname(os.path.dirname(os.path.abspath(__file__)))
H = json.load(open(os.path.join(V, "tools", "histories.json")))
for k, h in sorted(H.items()):
    p = os.path.join(V, "seeded", k, "meta.json")
    if not os.path.exists(p):
        print("no meta.json for", k)
        continue
    m = json.load(open(p))
    if m.get("history") != h:
        m["history"] = h
        json.dump(m, open(p, "w"), indent=1)
        print("updated", k)
