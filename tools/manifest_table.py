"""What MANIFEST.json claims, per property (edit here, then run tools/gen_manifest.py)."""
SHIM = "trusted base: the dense sksparse.cholmod stand-in in /verif/shim; "
CHECKS = {
    "C14": {
        "engine": "E-PROD",
        "technique": "exhaustive enumeration of every BC subset (explicit-state, real code vs python-set reference)",
        "text": "Every subset of (node, component) pairs (2^12 quick / 2^14 thorough per configuration) on 9-11 (mesh, order, fields-per-node) configurations, each in three encodings, is run through the real DofManager and sparse assembler and compared exactly with a python-set reference: partition, sizes, bit-exact split/recombine, component slicing, per-element index maps, mask, tagged assembly. This is literal exhaustiveness over the BC-subset quantifier, which a unit test with one BC set cannot give.",
        "note": "meshes are small structured meshes (orders 1-3); for >12 (14) dofs only subsets of a sub-alphabet are enumerated; reference model is harness python",
    },
}
CHECKS["C20"] = {
    "engine": "E-BFS",
    "technique": "explicit-state BFS over writer call sequences on the real VTKWriter, independent VTK parser as oracle",
    "text": "All sequences of VTKWriter calls (20-action alphabet: nodal/cell field adds of every field type and several data types, add_sphere, add_contact_edges, write) up to depth 4 (quick) / 5 (thorough) on 6-8 meshes (orders 1-4 and node-renumbered order 2/3 meshes), de-duplicated on a canonical state; every written file is parsed by an independent strict legacy-VTK parser and compared with a model of what was supplied (counts, index ranges, one record per entity, geometric cell identity, exact value round trip, byte-identical consecutive writes). Reaches combinations and call orders (spheres + rewrite, cell data + contact edges, renumbered high-order meshes) that the 6 existing tests never exercise; found and fixed four defects.",
    "note": "parser and model are harness python; straight-sided small meshes; depth bound; canon merges histories with equal model state, capped write count and equal model state at last write",
}
CHECKS["C01"] = {
    "engine": "E-DEV",
    "technique": "deviation-bounded exhaustive enumeration of solver configurations x problem product, trajectory monitor on the real solver",
    "text": "Every (objective family, spectrum, eigenbasis, start) problem x every solver configuration with at most 2 (quick) / 3 (thorough) non-default axes out of 12 (radii, thresholds, tolerances, iteration caps forcing each exit, inner product, incremental mode, preconditioner quality incl. forced factorisation failures, entry point with/without warm start) is run to completion on the real trust_region_minimize / nonlinear_equation_solve; every reported iterate is checked: exact descent in the solver's own evaluation, return = last iterate, finiteness, honest flag under the requested parameters (independent numpy gradient), unique minimiser on SPD defaults. About 25k runs / 200k trust-region iterations in quick. The 185-test baseline never imports this solver (sksparse missing).",
    "note": SHIM + "finite objective alphabet (6 quadratic+quartic spectra x 2 bases, Rosenbrock, barrier, crafted cosine); deviation bound k; 30 s horizon per run; open finding D12 (convergence test on the unaccepted trial point)",
}
CHECKS["C17"] = {
    "engine": "E-PROD",
    "technique": "exhaustive product of function family x bracket kind x guess x tolerance x budget x execution mode on the real root finder",
    "text": "7 function families x instances x both orientations x 10-13 bracket kinds (sign change either way, end-point roots, no sign change, wide/narrow, wrong-slope) x 6-9 initial guesses x tolerance settings x iteration budgets x 5 execution modes (jit, vmap, grad, jacfwd, vmap-grad): result in bracket, tolerance met (sign change within the tolerance window), end-point roots returned exactly, NaN without sign change, derivative = implicit-function-theorem closed form. 37k executions quick / 500k thorough. Found and fixed the 0/0 Newton step at an exact multiple root.",
    "note": "closed-form reference families in numpy; 'must converge' only asserted when the iteration budget is at least twice the pure-bisection count; both tolerances zero not admissible",
}
CHECKS["C18"] = {
    "engine": "E-PROD",
    "technique": "exhaustive product with ulp-neighbourhoods around every branch switch, exact rational reference",
    "text": "min/max/abs/zmax/smooth_linear/smoothstep/friction over widths x bases x offsets with +-k ulp nudges around each switch, friction slip radius x directions, all lattice midpoint triples for convexity, in eager, jit and vmap modes; bounds, tightness, symmetry, equality outside the band, C1 jumps across every switch checked against exact rational arithmetic. 56k cases quick / 1.2M thorough. Found and fixed catastrophic cancellation in the in-band blend.",
    "note": "reference in python fractions; denormal arguments excluded (XLA flushes them); widths below the library's 1e-14 floor judged against the floor",
}
CHECKS["C04"] = {
    "engine": "E-DEV",
    "technique": "deviation-bounded exhaustive enumeration of AL solver configurations x constraint-activity patterns, outer-iteration monitor, KKT oracle recomputed in numpy",
    "text": "Every constraint set of the alphabet (all activity patterns {inactive, active, weakly active, duplicated, parallel} of 1-2 linear constraints, a nonlinear disk, bound constraints on index subsets with and without variable scaling) x 3 starts (feasible, infeasible, boundary) x every configuration with at most k non-default axes of 10 (multiplier-update order, low-order iterations, penalty growth, target decrease, tolerance, sub-solver cap, warm start, initial multipliers/penalties, radius) is run on the real augmented_lagrange_solve / bound_constrained_solve; at every outer iteration lambda>=0 and kappa non-decreasing; at every normal return feasibility, lambda>=0, complementarity and the true Lagrangian gradient are recomputed from scratch with bounds derived from the solver's own stopping rule; convex cases equal the active-set-enumeration minimiser. ~6k solves / 40k outer iterations quick.",
    "note": SHIM + "k=2 on one objective and k=1 on two others in quick (3/2 thorough); n=2; exceptional exits (NameError after max_al_iters) counted, not violations (the property is conditional on normal return)",
}
CHECKS["C09"] = {
    "engine": "E-BFS",
    "technique": "explicit-state BFS over deformation histories on the real J2 update, canonical-state de-duplication, invariants on every transition vs numpy reference",
    "text": "For 27 model configurations (hardening linear/Voce/power law x rate sensitivity x small/large/seth-hill kinematics x dt x constants incl. perfect plasticity) all histories of 10 target displacement gradients (tension/compression below, exactly at and beyond yield, shear, biaxial, rotation, zero) up to depth 3 (quick) / deeper (thorough) are explored from the virgin state with states de-duplicated on rounded internal variables, frontier evaluated under jit(vmap) in fixed chunks; on every transition: eqps non-decreasing, plastic distortion isochoric, yield consistency, minimality of the incremental potential (numpy reference), idempotence and commit-invariance for rate-independent models. 38k transitions quick. Found and fixed the seth-hill strain bug and the NaN update for perfect plasticity.",
    "note": "reference J2 model in numpy (log strain via eigh, closed-form hardening laws); batched failures re-run as single calls and classified per the D11 protocol; plane-strain style targets",
}
CHECKS["C11"] = {
    "engine": "E-BFS",
    "technique": "explicit-state BFS over (target, time-step) histories on the real viscoelastic updates, invariants on every transition",
    "text": "16 models (single- and three-branch, moduli and relaxation times over several decades) x all histories of 40 actions (8 targets incl. hold x dt/tau in {1e-6..1e6}) to depth 2 (quick) / 3 (thorough), canonical-state de-duplication; on every transition: dissipation >= 0, det Fv = 1 per branch, stored non-equilibrium energy (numpy reference) non-increasing on holds, virgin dt->0 / dt->inf limits against closed-form energies. 20k transitions quick / 618k thorough.",
    "note": "moderate strains (<=0.25); the library's flow rule is not re-implemented, invariants are judged on the states the real code returns; D11 protocol for batched evaluation",
}
CHECKS["C12"] = {
    "engine": "E-PROD",
    "technique": "exhaustive product of spectra x scales x orientations x directions in two execution modes against scipy/fractions references",
    "text": "22-40 eigenvalue patterns (gaps from exactly 0 to 0.1, rank deficient, mixed sign) x 7+ scales (1e-20..1e20, eigen also 1e+-120) x 31-40 orientations x 6 symmetric directions, each as a single jitted call and inside jit(vmap) batches of fixed length: eigen reconstruction/orthonormality/order, sqrt/exp/log/pow identities, equivariance, JVPs against Frechet derivatives stable at repeated eigenvalues, detpIm1 vs exact rationals, inverse, polar decomposition, dense sqrtm/logm_iss. 396k evaluations quick / 1.6M thorough. Found and fixed sqrt_symm NaN on singular PSD input; the batched eigen-decomposition defect (D11) is an open finding.",
    "note": "references: numpy eigh constructions, scipy expm_frechet, Sylvester solves, python fractions; pow derivative only where documented accurate; denormals excluded",
}
CHECKS["C19"] = {
    "engine": "E-PROD + E-BFS",
    "technique": "exhaustive product for warm-start increments and scaled solves; BFS over load-step sequences through the four real drivers",
    "text": "warm_start_increment for every basis direction x 3 magnitudes x 2 signs of the parameter change in the bc and design slots x exact/perturbed point x exact/stale/identity preconditioner against a dense numpy predictor (residual within scipy cg's stated rtol); ScaledObjective solves vs unscaled reference over stiffness-diagonal spreads up to 1e6; all load-step sequences (12 actions: 3 parameter changes x warm start on/off x preconditioner refresh on/off) to depth 4 (nonlinear_equation_solve) / 3 (TrustRegionSPG.solve, augmented_lagrange_solve, bound_constrained_solve): afterwards objective.p is the requested tuple and a True flag / normal return implies a small reference gradient / KKT residual under the requested parameters. 58k sequences / 211k load steps quick.",
    "note": SHIM + "energies quadratic(+quartic) in x, affine in the bc parameter; constraints in the AL drivers are inactive over the reachable set",
}
CHECKS["C06"] = {
    "engine": "E-PROD",
    "technique": "exhaustive product of dimension x spectrum x eigenbasis x gradient class x radius x preconditioner x mode x caps on the real subproblem solvers vs an independent More-Sorensen reference",
    "text": "n in {1,2,3,5,8} (thorough +13,21,40) x 8 spectra (repeated, zero, negative, tiny, ill-conditioned) x 4 eigenbases x 5 gradient classes (incl. orthogonal to the lowest eigenspace) x 7-13 radius decades x 5 preconditioners x 2 inner-product modes x 5 cap/tolerance settings on solve_trust_region_minimization, trust_region_cg, dogleg_step, treigen.solve and ModelProblem.solve: in the ball in the configured norm, beats the Cauchy step, boundary/interior claims, dogleg on its path, global optimality against numpy eigh + secular bisection with analytic hard case. 449k evaluations quick / 1.3M thorough. Found and fixed three treigen defects; the preconditioned-recurrence norm drift is an open finding (thorough tier).",
    "note": SHIM + "synthetic dense operators; executions in which treigen's Newton loop does not terminate (near-hard case) are counted as no-verdict under a deterministic iteration budget, so exhaustive=false; norm claims of the preconditioned recurrence are not judged beyond n CG iterations",
}
CHECKS["C15"] = {
    "engine": "E-BFS",
    "technique": "explicit-state BFS over time-step sequences on the real Newmark predict/minimise/correct, invariants vs numpy reference on every transition",
    "text": "48 compiled configurations (2 meshes x order 1-2 x 2 constant sets x 3 (gamma,beta) x LinearElastic/Neohookean) x 6 roots (free/clamped x rigid/sine/seeded fields, consistent initial acceleration from the reference) x all dt sequences over {1e-3,0.1,0.75,10} of length <=3 (quick) / <=5 (thorough), de-duplicated on rounded (U,V,A): discrete momentum balance, Newmark update formulas, mass sum = rho*area, and for trapezoidal + linear elastic energy conservation and exact rigid translation, plus a one-step dense linear reference. 22k transitions quick / 298k thorough.",
    "note": "the step's minimisation is a dense damped Newton in the harness on jax.grad/hessian of the library's algorithmic energy (so the property is about Mechanics.py, not the solver); no external loads, cartesian mode",
}
CHECKS["C16"] = {
    "engine": "E-PROD",
    "technique": "exhaustive product of segment x orientation x (t,d) lattice / overlap class x gap x normal x rigid motion / obstacle x field x depth against closed-form references, three execution modes",
    "text": "closest point / signed distance over 3 lengths x 8 orientations x 12x6 (t,d) lattice incl. +-1e-9 around the ends; mortar integrals over 12 overlap classes x length ratios x relative angles x gaps x 2 common normals x 18 rigid motions x 6 integrands plus an orientation sweep of the coincident-end classes; nodal area / gap assembly; level-set constraints and penalty energy for plane/corner/circle obstacles x fields x depths. 48k cases / 627k real-code calls quick. Found and fixed the lost overlap at coincident segment ends.",
    "note": "numpy extended-precision reference; sign exactly on the line not judged; non-parallel mortar pairs judged only for invariance/sign/zero as the statement says",
}
CHECKS["C02"] = {
    "engine": "E-PROD",
    "technique": "exhaustive product: compiled configuration list x state x field x ALL 256 BC subsets; assembled stiffness vs jax.hessian of the factory's own energy",
    "text": "22 (quick) / 169 (thorough) compiled configurations covering every factory (mechanics, multi-block with 1-3 blocks, dynamics with two Newmark settings), plane strain / axisymmetric, pressure projection None/0/1, orders 1-4, two quadrature degrees, 6 mesh variants (renumbered, per-element vertex rotation, Delaunay), 7-8 materials incl. J2 and viscoelastic; per configuration the full product of internal state {initial, after one and two real updates} x 4 displacement fields x UPredicted zero/non-zero x all 2^8 subsets of 8 labelled (node-group, component) pairs: assembled sparse stiffness equals the dense Hessian of the total energy restricted to the unknowns, is symmetric, and multi-block equals single-block in energy, state update and stiffness. 36k cases quick. Found and fixed the Newmark tangent bug and the broken pressure-projection option.",
    "note": "compile-level axes are a stated covering list, not their full product (12k points at 10-110 CPU-s each); multi-block x axisymmetric raises NotImplementedError by design and is treated as option not accepted",
}
CHECKS["C03"] = {
    "engine": "E-PROD",
    "technique": "exhaustive product of mesh x ALL vertex-rotation patterns x order x bubble x rule degree x mode x EVERY monomial vs exact moments",
    "text": "meshes (reference triangle under rotations/anisotropy/shear, structured, graded, fans, a domain with a hole, seeded Delaunay) x all 3^ne cyclic vertex rotations for ne<=4 x order 1-5 x bubble x triangle rule degree 1-10 x cartesian/axisymmetric x every monomial up to the bound: partition of unity, zero-sum gradients, exact interpolation in value and gradient, volumes = area, exact integration up to the rule's degree (three routes), 1-D rules 0-25, divergence theorem over boundary edges. 37k cases / 2.9M monomial assertions quick; 214k cases thorough.",
    "note": "exact moments from an independent degree-30 Duffy x Gauss rule cross-checked against the closed barycentric form on every run; axisymmetric exactness claimed for monomial degree + 1 <= rule degree (conservative reading)",
}
CHECKS["C13"] = {
    "engine": "E-BFS",
    "technique": "explicit-state BFS over mesh operations (elevate, merge, read, nodesets-from-sidesets, create_edges) from generated meshes and harness-written Exodus/JSON files, set-based reference model",
    "text": "initial meshes: all structured 2..4 x 2..4, Delaunay 6-9 points, two meshes with holes, all 3^ne vertex rotations for ne<=4, 576 harness-written Exodus files per geometry (tri3/tri6, 1-3 blocks, named/unnamed/mixed sets, reversed numbering, 4 netCDF containers) and JSON files; actions elevate (32 variants: order 2-5 x bubble x copy flags), merge (every ordered pair x disjoint/equal/absent names), read, create_nodesets_from_sidesets, create_edges on every reached mesh; depth 3 with canonical de-duplication: index ranges, every node used, CCW positive area, sets index existing entities, edge table vs brute force, affine image of reference nodes, shared edge nodes, no duplicate/unused nodes, node count formula, no member lost by merge/read. 10k distinct meshes / 30k transitions quick. Found and fixed the equal-name overwrite in combine_mesh.",
    "note": "reference model in python sets; empty side sets outside the alphabet (a zero-length netCDF dimension cannot be written)",
}
CHECKS["C07"] = {
    "engine": "E-PROD + E-BFS",
    "technique": "exhaustive product of parameter points x slots x every basis cotangent through the real custom VJP rules vs dense implicit-function-theorem Jacobians; BFS over load-step chains; helper VJPs vs dense jacfwd",
    "text": "(a) 81 parameter points x {2,3}(,5) dimensions x c4 x inner product x entry point {nonlinear_solve, nonlinear_solve_with_state} x slots {guess, bc, state, design, time} x every basis cotangent: reverse-mode result equals -v'H^-1 G_k from a numpy reference (dense Newton solution, closed-form H and G_k cross-checked against jacfwd of the raw energy); an exception while differentiating is a violation. (b) all load-step chains of length <=3 (4) over 3 actions with path-dependent state: total derivative through the chained rules vs the forward chain rule. (c) MechanicsInverse helper VJPs (residual / state update w.r.t. coordinates, displacements, previous state) for Neohookean and J2 (elastic, yielding, mixed) vs dense jacfwd of an independently composed map, every cotangent; adjoint function space identical to the one built on the moved mesh for every single-node perturbation. 39k evaluations quick / 115k thorough. Found and fixed the stale-signature TypeError in both reverse rules.",
    "note": SHIM + "Hessian SPD on the alphabet (kappa<=130); settings tol=1e-11, cg_inexact_solve_ratio=1e-12 so the adjoint solve is tight; plane strain helpers only (axisymmetric raises NotImplementedError in the library)",
}
CHECKS["C05"] = {
    "engine": "E-DEV + E-PROD",
    "technique": "deviation-bounded enumeration of SPG solver configurations x (objective x all 5^n box types x placements x feasible starts), trajectory monitor; exhaustive lattice for the projections",
    "text": "objective spectra x all 25 per-coordinate bound-type combinations {free, lower, upper, two-sided, lower==upper} x 3 placements of the unconstrained minimiser {outside, inside, exactly on a face} x feasible starts on vertices / faces / centre x every configuration with at most k non-default axes of 8 (monotone/non-monotone line search, radii, iteration caps, incremental mode, tolerance, entry point with/without warm start), each run of the real bound_constrained_trust_region_minimize / solve to completion with every reported iterate checked: within bounds (8 ulp of the trajectory scale), exact descent in the solver's own evaluation, honest flag by a reference projected gradient, box-QP minimiser by enumeration of all 3^n active sets; plus project / project_onto_tr on a lattice of points x boxes x radii 1e-6..1e6 (132k cases). 15.6k solver runs / 280k steps quick. Open finding D13 (convergence test on the unaccepted trial point).",
    "note": SHIM + "quick: 4 of 6 spectra, n=2, k=1 on the full box product and k=2 on the reduced one; thorough: all spectra, n=3, k=2/3; RuntimeError('No acceptable Cauchy point') exits and horizon overruns counted, not violations; warm-start entry skipped where the Hessian at the start is not positive definite (premise of the warm start)",
}
CHECKS["C08"] = {
    "engine": "E-PROD",
    "technique": "exhaustive product of model option x moduli x deformation (all stretch classes) x superposed rotation x side x execution mode",
    "text": "17 model options (LinearElastic x 3 strain measures, both neo-Hookean variants, Gent, J2 x 3 kinematics in the elastic regime, single- and multi-branch viscoelastic, phase-field threshold x 2) x 3 moduli sets x 116 (quick) / 1400 (thorough) deformation gradients covering distinct / two-equal / three-equal principal stretches over strains 1e-8..10 (uniaxial along 6 in-plane axes, equibiaxial, dilation, fully 3-D) x 28 rotations x {QF, FQ} x {single jitted call, jit(vmap) batch of fixed length}: W(QF)=W(FQ)=W(F), symmetric Kirchhoff stress, and for every option zero energy and stress at the virgin undeformed state. 201k evaluations quick / 2.4M thorough.",
    "note": "small-strain 'linear' options exempt from objectivity as the statement says; batched failures re-run as single calls and classified per the D11 protocol (two shared open findings: near-repeated spectrum, branch-decision tie); an eigen-accuracy term 1e-7*(lmax/lmin)^2*|log l|*M is allowed only where the gap of C is <= 1e-6",
}
CHECKS["C10"] = {
    "engine": "E-PROD",
    "technique": "exhaustive product of model x state (all states reached by BFS depth<=2 of the real update) x deformation x all 9 directions / 45 direction pairs vs Richardson-extrapolated finite differences of the energy itself",
    "text": "every model option of C08 plus 6 J2 configurations (kinematics x hardening x rate) and both viscoelastic models at every internal state reached by breadth-first exploration of the real compute_state_new to depth 2 (virgin, hardened, yielding, relaxing), 8-16 deformations per state on both sides of the yield switch, all 9 first-derivative entries and all 45 second-derivative pairs, single-call and batched; jax.grad and jax.jvp(jax.grad) against 6th-order central differences with Richardson extrapolation of compute_energy_density (811-point stencil in one compiled batch); also Mechanics.compute_output_energy_densities_and_stresses on a one-element mesh. 306k evaluations quick / 2.7M thorough. Found and fixed the inaccurate pow_symm divided difference; the wrong tangent at repeated principal stretches is an open finding.",
    "note": "stencils that straddle the yield switch / the phase-field tension-compression split / the Gent limit are excluded and counted; a finite-difference value is used only when its Richardson and plain 6th-order estimates agree to 0.1 tau; tolerances 1e-6 (first) and 1e-4 (second) relative, scaled by the modulus",
}
NOT_APPLICABLE_REASON = {}
