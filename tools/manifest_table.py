"""What MANIFEST.json claims, per property (edit here, then run tools/gen_manifest.py)."""
SHIM = "trusted base: the dense sksparse.cholmod stand-in in /verif/shim; "
CHECKS = {
    "C14": {
        "engine": "E-PROD",
        "technique": "exhaustive enumeration of every BC subset (explicit-state, real code vs python-set reference)",
        "text": "Every subset of (node, component) pairs (2^12 quick / 2^14 thorough per configuration) on 9-11 (mesh, order, fields-per-node) configurations, each in three encodings, is run through the real DofManager and sparse assembler and compared exactly with a python-set reference: partition, sizes, bit-exact split/recombine, component slicing, per-element index maps, mask, tagged assembly. This is literal exhaustiveness over the BC-subset quantifier, which a unit test with one BC set cannot give.",
        "note": "meshes are small structured meshes (orders 1-3); for >12 (14) dofs only subsets of a sub-alphabet are enumerated; reference model is harness python",
    },
}
NOT_APPLICABLE_REASON = {}
