"""What MANIFEST.json claims, per property (edit here, then run tools/gen_manifest.py)."""
SHIM = "trusted base: the dense sksparse.cholmod stand-in in /verif/shim; "
CHECKS = {
    "C14": {
        "engine": "E-PROD",
        "technique": "exhaustive enumeration of every BC subset (explicit-state, real code vs python-set reference)",
        "text": "Every subset of (node, component) pairs (2^12 quick / 2^14 thorough per configuration) on 9-11 (mesh, order, fields-per-node) configurations, each in three encodings, is run through the real DofManager and sparse assembler and compared exactly with a python-set reference: partition, sizes, bit-exact split/recombine, component slicing, per-element index maps, mask, tagged assembly. This is literal exhaustiveness over the BC-subset quantifier, which a unit test with one BC set cannot give.",
        "note": "meshes are small structured meshes (orders 1-3); for >12 (14) dofs only subsets of a sub-alphabet are enumerated; reference model is harness python",
    },
}
CHECKS["C20"] = {
    "engine": "E-BFS",
    "technique": "explicit-state BFS over writer call sequences on the real VTKWriter, independent VTK parser as oracle",
    "text": "All sequences of VTKWriter calls (17-action alphabet: nodal/cell field adds of every field type and several data types, add_sphere, add_contact_edges, write) up to depth 4 (quick) / 5 (thorough) on 6-8 meshes (orders 1-4 and node-renumbered order 2/3 meshes), de-duplicated on a canonical state; every written file is parsed by an independent strict legacy-VTK parser and compared with a model of what was supplied (counts, index ranges, one record per entity, geometric cell identity, exact value round trip, byte-identical consecutive writes). Reaches combinations and call orders (spheres + rewrite, cell data + contact edges, renumbered high-order meshes) that the 6 existing tests never exercise; found and fixed four defects.",
    "note": "parser and model are harness python; straight-sided small meshes; depth bound; canon merges histories with equal model state, capped write count and equal model state at last write",
}
NOT_APPLICABLE_REASON = {}
