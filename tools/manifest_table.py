"""What MANIFEST.json claims, per property (edit here, then run tools/gen_manifest.py)."""
SHIM = "trusted base: the dense sksparse.cholmod stand-in in /verif/shim; "
CHECKS = {
    "C14": {
        "engine": "E-PROD",
        "technique": "exhaustive enumeration of every BC subset (explicit-state, real code vs python-set reference)",
        "text": "Every subset of (node, component) pairs (2^12 quick / 2^14 thorough per configuration) on 9-11 (mesh, order, fields-per-node) configurations, each in three encodings, is run through the real DofManager and sparse assembler and compared exactly with a python-set reference: partition, sizes, bit-exact split/recombine, component slicing, per-element index maps, mask, tagged assembly. This is literal exhaustiveness over the BC-subset quantifier, which a unit test with one BC set cannot give.",
        "note": "meshes are small structured meshes (orders 1-3); for >12 (14) dofs only subsets of a sub-alphabet are enumerated; reference model is harness python",
    },
}
CHECKS["C20"] = {
    "engine": "E-BFS",
    "technique": "explicit-state BFS over writer call sequences on the real VTKWriter, independent VTK parser as oracle",
    "text": "All sequences of VTKWriter calls (17-action alphabet: nodal/cell field adds of every field type and several data types, add_sphere, add_contact_edges, write) up to depth 4 (quick) / 5 (thorough) on 6-8 meshes (orders 1-4 and node-renumbered order 2/3 meshes), de-duplicated on a canonical state; every written file is parsed by an independent strict legacy-VTK parser and compared with a model of what was supplied (counts, index ranges, one record per entity, geometric cell identity, exact value round trip, byte-identical consecutive writes). Reaches combinations and call orders (spheres + rewrite, cell data + contact edges, renumbered high-order meshes) that the 6 existing tests never exercise; found and fixed four defects.",
    "note": "parser and model are harness python; straight-sided small meshes; depth bound; canon merges histories with equal model state, capped write count and equal model state at last write",
}
CHECKS["C01"] = {
    "engine": "E-DEV",
    "technique": "deviation-bounded exhaustive enumeration of solver configurations x problem product, trajectory monitor on the real solver",
    "text": "Every (objective family, spectrum, eigenbasis, start) problem x every solver configuration with at most 2 (quick) / 3 (thorough) non-default axes out of 12 (radii, thresholds, tolerances, iteration caps forcing each exit, inner product, incremental mode, preconditioner quality incl. forced factorisation failures, entry point with/without warm start) is run to completion on the real trust_region_minimize / nonlinear_equation_solve; every reported iterate is checked: exact descent in the solver's own evaluation, return = last iterate, finiteness, honest flag under the requested parameters (independent numpy gradient), unique minimiser on SPD defaults. About 25k runs / 200k trust-region iterations in quick. The 185-test baseline never imports this solver (sksparse missing).",
    "note": SHIM + "finite objective alphabet (6 quadratic+quartic spectra x 2 bases, Rosenbrock, barrier, crafted cosine); deviation bound k; 30 s horizon per run; open finding D12 (convergence test on the unaccepted trial point)",
}
CHECKS["C17"] = {
    "engine": "E-PROD",
    "technique": "exhaustive product of function family x bracket kind x guess x tolerance x budget x execution mode on the real root finder",
    "text": "7 function families x instances x both orientations x 10-13 bracket kinds (sign change either way, end-point roots, no sign change, wide/narrow, wrong-slope) x 6-9 initial guesses x tolerance settings x iteration budgets x 5 execution modes (jit, vmap, grad, jacfwd, vmap-grad): result in bracket, tolerance met (sign change within the tolerance window), end-point roots returned exactly, NaN without sign change, derivative = implicit-function-theorem closed form. 37k executions quick / 500k thorough. Found and fixed the 0/0 Newton step at an exact multiple root.",
    "note": "closed-form reference families in numpy; 'must converge' only asserted when the iteration budget is at least twice the pure-bisection count; both tolerances zero not admissible",
}
CHECKS["C18"] = {
    "engine": "E-PROD",
    "technique": "exhaustive product with ulp-neighbourhoods around every branch switch, exact rational reference",
    "text": "min/max/abs/zmax/smooth_linear/smoothstep/friction over widths x bases x offsets with +-k ulp nudges around each switch, friction slip radius x directions, all lattice midpoint triples for convexity, in eager, jit and vmap modes; bounds, tightness, symmetry, equality outside the band, C1 jumps across every switch checked against exact rational arithmetic. 56k cases quick / 1.2M thorough. Found and fixed catastrophic cancellation in the in-band blend.",
    "note": "reference in python fractions; denormal arguments excluded (XLA flushes them); widths below the library's 1e-14 floor judged against the floor",
}
NOT_APPLICABLE_REASON = {}
