#!/venv/bin/python
"""Regenerate MANIFEST.json from the table below (single source of truth for what is claimed)."""
import json, os
V = os.path.dirname(os.path.dirname(os.path.abspath(__file__)))
sys_path = V
import sys
sys.path.insert(0, V)
from tools.manifest_table import CHECKS, NOT_APPLICABLE_REASON

props = [json.loads(l) for l in open(os.path.join(V, "properties.jsonl"))]
checks = []
na = []
for p in props:
    pid = p["id"]
    if pid in CHECKS:
        c = CHECKS[pid]
        checks.append({
            "property_id": pid,
            "quick_cmd": "./check %s --tier quick" % pid,
            "thorough_cmd": "./check %s --tier thorough" % pid,
            "evidence_file": "evidence/%s.json" % pid,
            "replay_cmd_template": "./check %s --replay {path}" % pid,
            "engine": c["engine"],
            "level_claimed": {"category": "model_checking", "text": c["text"], "design_ref": "DESIGN.md section 3, " + pid},
            "level_note": c["note"],
            "technique": c["technique"],
        })
    else:
        na.append({"property_id": pid, "reason": NOT_APPLICABLE_REASON.get(pid, "check not built yet in this round; see DESIGN.md section 3 for the planned bounded exhaustive exploration")})
man = {
    "version": 1,
    "setup_cmd": "./setup.sh",
    "hooks": {
        "guard": "OPTIMISM_VERIF",
        "enable": "no source hooks are needed: checks import /repo's working tree directly (PYTHONPATH=/verif/shim:/verif:/repo) and observe through public callbacks, return values and files; ./check exports OPTIMISM_VERIF=1 for uniformity",
        "baseline_off_cmd": "cd /repo && env -u OPTIMISM_VERIF /venv/bin/python -m pytest -ra -q -p no:cacheprovider --timeout=900 --continue-on-collection-errors",
        "source_commits": [],
        "add_only": True,
    },
    "engines": [
        {"name": "E-PROD", "path": "mc/core.py", "kind_free_text": "exhaustive Cartesian product of labelled finite axes, one execution of the real code per point, reference model as oracle", "serves_properties": sorted(k for k, c in CHECKS.items() if "E-PROD" in c["engine"])},
        {"name": "E-DEV", "path": "mc/core.py", "kind_free_text": "deviation-bounded enumeration: all configurations with at most k non-default axes, k iterated; every solver run monitored along its whole trajectory", "serves_properties": sorted(k for k, c in CHECKS.items() if "E-DEV" in c["engine"])},
        {"name": "E-BFS", "path": "mc/core.py", "kind_free_text": "explicit-state breadth-first search over operation histories, each transition calls the real update function, canonical-state de-duplication, invariant in every state", "serves_properties": sorted(k for k, c in CHECKS.items() if "E-BFS" in c["engine"])},
    ],
    "checks": checks,
    "not_applicable": na,
    "notes": "All checks are bounded exhaustive explorations of the real implementation (stateless/explicit-state model checking of the code itself; no separate model, hence traces_validated_against_impl = executions compared with the reference oracle). sksparse is absent from the sandbox; /verif/shim provides a dense stand-in (trusted base of the solver checks). See DESIGN.md.",
}
json.dump(man, open(os.path.join(V, "MANIFEST.json"), "w"), indent=1)
print("wrote MANIFEST.json: %d checks, %d not_applicable" % (len(checks), len(na)))
