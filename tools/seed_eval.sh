#!/bin/bash
# usage: tools/seed_eval.sh <ID> <k> "<pytest modules relative to repo>" [check IDs...]
# Confirms a seeded change from /tmp/seedwork_<ID>/ (patch<k>.diff, demo<k>.py, meta<k>.json) in a scratch worktree:
# demo passes without / fails with the patch, the given baseline test modules pass with it (no shim), and runs the
# check(s) against the patched tree. Stores everything under /verif/seeded/<ID>-<k>/ with the outcome in meta.json.
ID=$1; K=$2; TESTS=$3; shift 3; CHECKS=${@:-$ID}
SW=/tmp/seedwork_$ID; V=/verif; WT=/tmp/seval_${ID}_$K
OUT=$V/seeded/$ID-$K; mkdir -p $OUT
PREV=""; if [ -f $OUT/meta.json ]; then PREV=$(mktemp); cp $OUT/meta.json $PREV; fi
# a patch that was re-based by hand onto a later /repo HEAD lives in seeded/<ID>-<k>/patch.diff; SEED_USE_STORED=1 re-evaluates it
if [ -n "$SEED_USE_STORED" ]; then SW=$(mktemp -d); cp $OUT/patch.diff $SW/patch$K.diff; cp $OUT/demo.py $SW/demo$K.py; cp $OUT/seeder_meta.json $SW/meta$K.json 2>/dev/null; fi
cp $SW/patch$K.diff $OUT/patch.diff; cp $SW/demo$K.py $OUT/demo.py; cp $SW/meta$K.json $OUT/seeder_meta.json 2>/dev/null
git -C /repo worktree add --detach $WT HEAD -q || exit 2
run_demo() { (cd $WT && PYTHONPATH=/tmp/seed_shim:$WT timeout 900 /venv/bin/python $OUT/demo.py >/tmp/seval_demo.log 2>&1; echo $?); }
d0=$(run_demo)
if ! git -C $WT apply $OUT/patch.diff; then echo "PATCH DOES NOT APPLY"; git -C /repo worktree remove --force $WT; exit 2; fi
d1=$(run_demo)
tests_rc=skipped
if [ -n "$TESTS" ]; then (cd $WT && PYTHONPATH=$WT timeout 3000 /venv/bin/python -m pytest -q -p no:cacheprovider $TESTS > /tmp/seval_tests.log 2>&1); tests_rc=$?; tail -1 /tmp/seval_tests.log; fi
res=""
for C in $CHECKS; do
  out=$(OPTIMISM_REPO=$WT VERIF_OUT=/tmp/seval_out_$$ VERIF_WORKERS=${VERIF_WORKERS:-8} $V/check $C --tier ${TIER:-quick} 2>&1); rc=$?
  keys=$(echo "$out" | grep "^  key=" | sed 's/ cases=.*//; s/^ *key=//' | head -5 | tr '\n' ';')
  echo "check $C rc=$rc keys: $keys"
  res="$res{\"check\":\"$C\",\"rc\":$rc,\"keys\":\"$(echo $keys | sed 's/"/\\"/g')\"},"
done
git -C /repo worktree remove --force $WT; rm -rf /tmp/seval_out_$$
cat > $OUT/meta.json <<EOM
{"property": "$ID", "seed_index": $K, "demo_rc_without_change": $d0, "demo_rc_with_change": $d1,
 "baseline_tests_run": "$TESTS", "baseline_tests_rc_with_change": "$tests_rc",
 "checks": [${res%,}], "repo_head": "$(git -C /repo rev-parse --short HEAD)", "tier": "${TIER:-quick}"}
EOM
if [ -n "$PREV" ]; then /venv/bin/python - $PREV $OUT/meta.json <<'EOP'
import json, sys
old, new = json.load(open(sys.argv[1])), json.load(open(sys.argv[2]))
for k in ("history", "summary", "needs"):
    if k in old:
        new[k] = old[k]
if new.get("baseline_tests_rc_with_change") == "skipped" and old.get("baseline_tests_rc_with_change") not in (None, "skipped"):
    new["baseline_tests_run"] = old.get("baseline_tests_run")
    new["baseline_tests_rc_with_change"] = old.get("baseline_tests_rc_with_change")
prev = old.pop("previous_evaluations", [])
prev.append({"repo_head": old.get("repo_head"), "checks": old.get("checks"), "demo_rc_with_change": old.get("demo_rc_with_change")})
new["previous_evaluations"] = prev
json.dump(new, open(sys.argv[2], "w"), indent=1)
EOP
rm -f $PREV; fi
echo "demo without=$d0 with=$d1 tests_rc=$tests_rc"
