#!/venv/bin/python
"""Print the markdown table of seeded changes (DESIGN.md section 10) from seeded/*/meta.json."""
import json, glob, os
V = os.path.dirname(os.path.dirname(os.path.abspath(__file__)))
rows = []
for d in sorted(glob.glob(os.path.join(V, "seeded", "*"))):
    p = os.path.join(d, "meta.json")
    if not os.path.exists(p):
        continue
    m = json.load(open(p))
    sm = {}
    try:
        sm = json.load(open(os.path.join(d, "seeder_meta.json")))
    except Exception:
        pass
    checks = "; ".join("%s:%s" % (c["check"], "caught" if c["rc"] == 1 else ("MISSED" if c["rc"] == 0 else "rc=%s" % c["rc"])) for c in m.get("checks", []))
    summ = (m.get("summary") or sm.get("summary") or "").replace("\n", " ").replace("|", "/")
    needs = (m.get("needs") or sm.get("needs") or "").replace("\n", " ").replace("|", "/")
    hist = (m.get("history") or "").replace("\n", " ").replace("|", "/")
    rows.append("| %s | %s | %s | %s | %s |" % (os.path.basename(d), summ[:260], needs[:220], checks, hist[:200]))
print("| seed | change | needs | verdict of the final checks | history |\n|---|---|---|---|---|")
print("\n".join(rows))
