"""CLI: python -m mc.runner <ID> [--tier quick|thorough] [--replay FILE] [--workers N]

Runs one property module (mc/props/<id>.py) over all of its groups in spawn-workers, merges the
recorders, applies known_findings.json, writes evidence/<ID>.json, prints VIOLATION /
KNOWN-FINDING lines, exits 0 / 1 (2 = harness error, never used for verdicts).
"""
import argparse
import importlib
import json
import multiprocessing as mp
import os
import subprocess
import sys
import time
import traceback

VERIF = os.path.dirname(os.path.dirname(os.path.abspath(__file__)))
REPO = os.environ.get("OPTIMISM_REPO", "/repo")
# scratch-tree runs (mutation waves) must not overwrite the committed evidence of /repo itself
OUT = os.environ.get("VERIF_OUT") or (VERIF if os.path.abspath(REPO) == "/repo" else "/tmp/verif_out_scratch")


def _load(pid):
    return importlib.import_module("mc.props.%s" % pid.lower())


def _lib_frame(tb):
    """Innermost traceback frame that lies inside the library under test, or None."""
    hit = None
    for fs in traceback.extract_tb(tb):
        fn = os.path.abspath(fs.filename)
        if fn.startswith(os.path.abspath(REPO) + os.sep) and "/optimism/" in fn:
            hit = fs
    return hit


def exception_key(e):
    fs = _lib_frame(e.__traceback__)
    where = "%s:%s" % (os.path.basename(fs.filename), fs.name) if fs else "harness"
    return "exception:%s@%s" % (type(e).__name__, where)


SLOT_DIR = "/tmp/verif_slots"
N_SLOTS = int(os.environ.get("VERIF_MACHINE_SLOTS", "16"))


def _acquire_slot():
    """Machine-wide cap on concurrently *working* workers (several checks / mutant runs may be started at the same
    time by different people; without a cap they exhaust memory). Blocks until one of N_SLOTS lock files is free.
    Taken before jax/optimism are imported, released when the worker process exits (maxtasksperchild=1)."""
    import fcntl
    os.makedirs(SLOT_DIR, exist_ok=True)
    fds = []
    start = os.getpid() % N_SLOTS
    while True:
        for i in range(N_SLOTS):
            path = os.path.join(SLOT_DIR, "slot_%02d" % ((start + i) % N_SLOTS))
            fd = os.open(path, os.O_CREAT | os.O_RDWR, 0o666)
            try:
                fcntl.flock(fd, fcntl.LOCK_EX | fcntl.LOCK_NB)
                return fd
            except OSError:
                os.close(fd)
        time.sleep(0.5 + (os.getpid() % 7) * 0.1)


_SLOT = [None]


def _worker(args):
    pid, g, tier, seed, only, quiet = args
    if _SLOT[0] is None:
        _SLOT[0] = _acquire_slot()
    from mc.core import Recorder
    if quiet:
        devnull = open(os.devnull, "w")
        sys.stdout = devnull
        import warnings
        warnings.simplefilter("ignore")
    rec = Recorder(g.get("name", ""), only=only)
    out = {"group": g.get("name", ""), "harness_error": None}
    try:
        mod = _load(pid)
        mod.run_group(g, tier, seed, rec)
    except BaseException as e:  # noqa
        tb = traceback.format_exc()
        fs = _lib_frame(e.__traceback__)
        if fs is not None and not isinstance(e, (KeyboardInterrupt, MemoryError)):
            # library code raised on an admissible input outside any guarded call in the module
            rec.violation("%s|group-crash|%s" % (pid, exception_key(e)), "group=" + g.get("name", ""),
                          {"traceback": tb[-3000:]})
        else:
            out["harness_error"] = tb[-4000:]
    out.update(rec.dump())
    return out


def load_findings(pid):
    path = os.path.join(VERIF, "known_findings.json")
    if not os.path.exists(path):
        return {}, []
    data = json.load(open(path))
    # an open finding may be shared by several properties ("also": [...]), e.g. the batched eigen-decomposition defect
    openf = {f["key"]: f for f in data.get("findings", [])
             if (f.get("property") == pid or pid in f.get("also", [])) and f.get("status") == "open"}
    fixed = [f for f in data.get("findings", []) if f.get("property") == pid and f.get("status") == "fixed"]
    return openf, fixed


def main(argv=None):
    ap = argparse.ArgumentParser()
    ap.add_argument("pid")
    ap.add_argument("--tier", default=os.environ.get("VERIF_TIER", "quick"))
    ap.add_argument("--replay", default=None)
    ap.add_argument("--workers", type=int, default=int(os.environ.get("VERIF_WORKERS", "16")))
    ap.add_argument("--verbose", action="store_true")
    ap.add_argument("--group", default=None, help="run only groups whose name contains this")
    a = ap.parse_args(argv)
    pid = a.pid.upper()
    tier = a.tier if a.tier in ("quick", "thorough") else "quick"
    seed = int(os.environ.get("VERIF_SEED", "0") or 0)
    t0 = time.time()
    mod = _load(pid)

    only = None
    groups = mod.groups(tier, seed)
    if a.replay:
        r = json.load(open(a.replay))
        tier = r.get("tier", tier)
        seed = r.get("seed", seed)
        groups = [g for g in mod.groups(tier, seed) if g.get("name", "") == r["group"]]
        only = r["case"]
        if not groups:
            print("replay: group %r not found" % r["group"])
            return 2
    if a.group:
        groups = [g for g in groups if a.group in g.get("name", "")]

    results = _run(pid, groups, tier, seed, only, a.workers, not a.verbose)
    harness_errors = [(r["group"], r["harness_error"]) for r in results if r["harness_error"]]
    for gname, tb in harness_errors:
        sys.stderr.write("HARNESS-ERROR property=%s group=%s\n%s\n" % (pid, gname, tb))

    merged = _merge(results)
    openf, fixed = load_findings(pid)
    by_key = {}
    for v in merged["violations"]:
        by_key.setdefault(v["key"], []).append(v)
    known_hit = {k: vs for k, vs in by_key.items() if k in openf}
    unknown = {k: vs for k, vs in by_key.items() if k not in openf}

    # determinism gate: the first case of each unknown key must reproduce in a fresh worker
    nondeterministic = []
    if unknown and not a.replay and os.environ.get("VERIF_NO_CONFIRM") != "1":
        gmap = {g.get("name", ""): g for g in groups}
        jobs = []
        for k in sorted(unknown)[:4]:
            v = unknown[k][0]
            if v["group"] in gmap:
                jobs.append((k, v))
        conf = _run(pid, [gmap[v["group"]] for _, v in jobs], tier, seed, None, a.workers, True,
                    onlys=[v["case"] for _, v in jobs])
        retry = []
        for (k, v), r in zip(jobs, conf):
            keys = {x["key"] for x in r["violations"] if x["case"] == v["case"]}
            if k not in keys:
                retry.append((k, v))
        if retry:
            # a violation that depends on state carried between the cases of one group (e.g. a value frozen into a
            # compiled function by the first call) does not reproduce in isolation: re-run the whole group once
            conf2 = _run(pid, [gmap[v["group"]] for _, v in retry], tier, seed, None, a.workers, True)
            for (k, v), r in zip(retry, conf2):
                keys = {x["key"] for x in r["violations"]}
                if k not in keys:
                    nondeterministic.append((k, v["case"]))
                else:
                    sys.stderr.write("note: key %s reproduces only in the context of its whole group (history dependent)\n" % k)

    replay_paths = {}
    if unknown:
        rdir = os.path.join(OUT, "replays", pid)
        os.makedirs(rdir, exist_ok=True)
        for k in sorted(unknown):
            v = unknown[k][0]
            from mc.core import stable_hash
            path = os.path.join(rdir, "%016x.json" % stable_hash(k + "|" + v["case"]))
            json.dump({"property": pid, "tier": tier, "seed": seed, "group": v["group"], "case": v["case"],
                       "key": k, "detail": v["detail"], "n_cases_with_this_key": len(unknown[k])},
                      open(path, "w"), indent=1)
            replay_paths[k] = path

    for k in sorted(known_hit):
        print("KNOWN-FINDING: property=%s %s [key=%s; %d case(s) this run]" % (
            pid, openf[k].get("what", ""), k, len(known_hit[k])))
    for k in sorted(unknown):
        print("VIOLATION property=%s replay=%s" % (pid, replay_paths[k]))
        print("  key=%s cases=%d first=%s" % (k, len(unknown[k]), unknown[k][0]["case"]))
        if a.verbose or a.replay:
            print("  detail=%s" % json.dumps(unknown[k][0]["detail"])[:3000])
    for k, c in nondeterministic:
        sys.stderr.write("HARNESS-NONDETERMINISM property=%s key=%s case=%s did not reproduce\n" % (pid, k, c))

    wall = time.time() - t0
    exhaustive = (merged["n_no_verdict"] == 0 and not harness_errors
                  and not merged["notes"].get("capped", False))
    cov = {
        "states": len(merged["state_hashes"]),
        "transitions": merged["transitions"],
        "traces_validated_against_impl": merged["traces"],
        "evaluations": merged["evaluations"],
        "distinct_cases": len(merged["case_hashes"]),
        "distinct_nontrivial": len(merged["nontrivial_hashes"]),
        "rule": getattr(mod, "RULE", ""),
        "samples": merged["samples"][:12] or [{"note": "no sample recorded"}],
        "exhaustive": bool(exhaustive),
        "bounds": mod.bounds(tier) if hasattr(mod, "bounds") else {},
        "groups": len(groups),
        "max_depth": merged["max_depth"],
        "branch_coverage": dict(sorted(merged["branches"].items())),
        "outcomes": dict(sorted(merged["outcomes"].items())),
        "distinct_outcomes": len(merged["outcomes"]),
        "observed_maxima": merged["maxima"],
        "tolerances": getattr(mod, "TOLERANCES", {}),
        "no_verdict": merged["no_verdict"][:50],
        "n_no_verdict": merged["n_no_verdict"],
        "known_findings_reproduced": sorted(known_hit),
        "fixed_findings_guarded": [f.get("key") for f in fixed],
        "unknown_violation_keys": sorted(unknown),
        "explanation": getattr(mod, "TITLE", ""),
        "notes": merged["notes"],
    }
    ev = {
        "property_id": pid, "tier": tier, "seed": seed, "level": getattr(mod, "LEVEL", "model_checking"),
        "coverage": cov, "assumptions": list(getattr(mod, "ASSUMPTIONS", [])),
        "wall_s": round(wall, 2), "violations": sum(len(v) for v in unknown.values()),
    }
    if not a.replay and not a.group:
        os.makedirs(os.path.join(OUT, "evidence"), exist_ok=True)
        p = os.path.join(OUT, "evidence", "%s.json" % pid)
        with open(p + ".tmp", "w") as f:
            json.dump(ev, f, indent=1, sort_keys=False)
        os.replace(p + ".tmp", p)
    print("%s tier=%s seed=%d groups=%d evaluations=%d states=%d transitions=%d nontrivial=%d outcomes=%d "
          "known=%d violations=%d no_verdict=%d wall=%.1fs" % (
              pid, tier, seed, len(groups), cov["evaluations"], cov["states"], cov["transitions"],
              cov["distinct_nontrivial"], cov["distinct_outcomes"], len(known_hit), len(unknown),
              merged["n_no_verdict"], wall))
    if harness_errors or nondeterministic:
        return 2
    return 1 if unknown else 0


def _run(pid, groups, tier, seed, only, workers, quiet, onlys=None):
    if not groups:
        return []
    jobs = [(pid, g, tier, seed, (onlys[i] if onlys else only), quiet) for i, g in enumerate(groups)]
    n = max(1, min(workers, len(jobs)))
    if n == 1 and os.environ.get("VERIF_INPROC") == "1":
        return [_worker(j) for j in jobs]
    ctx = mp.get_context("spawn")
    with ctx.Pool(n, maxtasksperchild=1) as pool:
        # heaviest-first ordering is the module's business (groups() order); chunksize 1
        res = pool.map(_worker, jobs, chunksize=1)
    return res


def _merge(results):
    from collections import Counter
    m = {"evaluations": 0, "case_hashes": set(), "nontrivial_hashes": set(), "state_hashes": set(),
         "transitions": 0, "traces": 0, "branches": Counter(), "outcomes": Counter(), "samples": [],
         "violations": [], "no_verdict": [], "n_no_verdict": 0, "maxima": {}, "notes": {}, "max_depth": 0}
    for r in sorted(results, key=lambda r: r["group"]):
        m["evaluations"] += r["evaluations"]
        m["case_hashes"].update(r["case_hashes"])
        m["nontrivial_hashes"].update(r["nontrivial_hashes"])
        m["state_hashes"].update(r["state_hashes"])
        m["transitions"] += r["transitions"]
        m["traces"] += r["traces"]
        m["branches"].update(r["branches"])
        m["outcomes"].update(r["outcomes"])
        if len(m["samples"]) < 12:
            m["samples"].extend(r["samples"][:2])
        m["violations"].extend(r["violations"])
        m["no_verdict"].extend(r["no_verdict"])
        m["n_no_verdict"] += r["n_no_verdict"]
        for k, v in r["maxima"].items():
            if k not in m["maxima"] or v > m["maxima"][k]:
                m["maxima"][k] = v
        for k, v in r["notes"].items():
            if k == "capped":
                m["notes"]["capped"] = m["notes"].get("capped", False) or bool(v)
            else:
                m["notes"].setdefault(k, v)
        m["max_depth"] = max(m["max_depth"], r["max_depth"])
    return m


if __name__ == "__main__":
    sys.exit(main())
