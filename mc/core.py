"""Exploration engines and the per-run recorder.

E-PROD : product(axes)        -- exhaustive Cartesian product of labelled axes
E-DEV  : deviations(axes, k)  -- every tuple with at most k non-default labels (deviation bounding)
E-BFS  : bfs(...)             -- explicit-state breadth-first search over histories; each transition
                                 calls the real code; states de-duplicated on a canonical key

A *case id* is built from discrete labels only (never raw floats), so it is printable, stable
between runs and replayable.
"""
import hashlib
import itertools
import json
import signal
import time
import traceback
from collections import Counter, OrderedDict, deque
from contextlib import contextmanager


class Axis:
    def __init__(self, name, items, default=None):
        """items: list of (label, value). default: label (first label if None)."""
        self.name = name
        self.items = [(str(l), v) for l, v in items]
        self.labels = [l for l, _ in self.items]
        assert len(set(self.labels)) == len(self.labels), (name, self.labels)
        self.default = self.labels[0] if default is None else str(default)
        assert self.default in self.labels, (name, default)
        self.value = dict(self.items)

    def __len__(self):
        return len(self.items)


def case_id(axes, labels):
    return ";".join("%s=%s" % (a.name, l) for a, l in zip(axes, labels))


def product(axes):
    """Yield (case_id, {axis: label}, {axis: value}) over the full product, first axis slowest."""
    for labels in itertools.product(*[a.labels for a in axes]):
        yield (case_id(axes, labels),
               OrderedDict((a.name, l) for a, l in zip(axes, labels)),
               OrderedDict((a.name, a.value[l]) for a, l in zip(axes, labels)))


def deviations(axes, k):
    """Yield (ndev, case_id, labels, values) for every tuple with <= k non-default labels,
    in order of increasing deviation count (0, then 1, ...)."""
    n = len(axes)
    for d in range(0, k + 1):
        for idxs in itertools.combinations(range(n), d):
            alts = [[l for l in axes[i].labels if l != axes[i].default] for i in idxs]
            for choice in itertools.product(*alts):
                labels = [a.default for a in axes]
                for i, l in zip(idxs, choice):
                    labels[i] = l
                yield (d, case_id(axes, labels),
                       OrderedDict((a.name, l) for a, l in zip(axes, labels)),
                       OrderedDict((a.name, a.value[l]) for a, l in zip(axes, labels)))


def n_deviations(axes, k):
    return sum(1 for _ in deviations(axes, k))


def stable_hash(s):
    return int.from_bytes(hashlib.blake2b(s.encode(), digest_size=8).digest(), "big")


def pick(seq, seed, n):
    """Deterministic selection of n items for coverage.samples (not for verdicts)."""
    seq = list(seq)
    if len(seq) <= n:
        return seq
    keyed = sorted(range(len(seq)), key=lambda i: stable_hash("%d|%d" % (seed, i)))
    return [seq[i] for i in sorted(keyed[:n])]


class HorizonExceeded(Exception):
    pass


@contextmanager
def horizon(seconds):
    """Per-execution wall-clock horizon (main thread of a worker process only)."""
    def _h(signum, frame):
        raise HorizonExceeded()
    old = signal.signal(signal.SIGALRM, _h)
    signal.setitimer(signal.ITIMER_REAL, seconds)
    try:
        yield
    finally:
        signal.setitimer(signal.ITIMER_REAL, 0)
        signal.signal(signal.SIGALRM, old)


class Recorder:
    """Collects what one group of executions covered. Plain-JSON serialisable via dump()."""
    MAX_SAMPLES = 6
    MAX_VIOL = 200

    def __init__(self, group_name="", only=None):
        self.group = group_name
        self.only = only            # replay filter: a case id, or None
        self.evaluations = 0
        self.case_hashes = set()
        self.nontrivial_hashes = set()
        self.state_hashes = set()
        self.transitions = 0
        self.traces = 0
        self.branches = Counter()
        self.outcomes = Counter()
        self.samples = []
        self.violations = []
        self.nviol = 0
        self.no_verdict = []
        self.maxima = {}
        self.notes = {}
        self.max_depth = 0
        self.t0 = time.time()

    # -- enumeration accounting ------------------------------------------------------------
    def want(self, cid):
        return self.only is None or self.only == cid

    def case(self, cid, nontrivial=False, outcome="ok", sample=None, trace=True, steps=1):
        """One complete execution of real code compared with the reference model.
        steps = number of real-code transitions it took (added to `transitions`)."""
        self.evaluations += 1
        self.transitions += steps
        h = stable_hash(cid)
        self.case_hashes.add(h)
        self.state_hashes.add(h)
        if nontrivial:
            self.nontrivial_hashes.add(h)
        self.outcomes[outcome] += 1
        if trace:
            self.traces += 1
        if sample is not None and len(self.samples) < self.MAX_SAMPLES:
            self.samples.append(sample)

    def state(self, canon_key):
        self.state_hashes.add(stable_hash(canon_key if isinstance(canon_key, str) else repr(canon_key)))

    def transition(self, n=1):
        self.transitions += n

    def branch(self, name, n=1):
        self.branches[name] += n

    def track_max(self, name, value):
        try:
            v = float(value)
        except Exception:
            return
        if v != v:
            return
        if name not in self.maxima or v > self.maxima[name]:
            self.maxima[name] = v

    def depth(self, d):
        self.max_depth = max(self.max_depth, d)

    # -- verdicts --------------------------------------------------------------------------
    def violation(self, key, cid, detail):
        """key: finding key from discrete labels; cid: case id; detail: JSON-able dict."""
        self.nviol += 1
        if len(self.violations) < self.MAX_VIOL:
            self.violations.append({"key": key, "case": cid, "group": self.group, "detail": _jsonable(detail)})

    def noverdict(self, cid, reason):
        self.no_verdict.append({"case": cid, "reason": reason})
        self.outcomes["no-verdict:" + reason] += 1

    def dump(self):
        return {
            "group": self.group,
            "evaluations": self.evaluations,
            "case_hashes": list(self.case_hashes),
            "nontrivial_hashes": list(self.nontrivial_hashes),
            "state_hashes": list(self.state_hashes),
            "transitions": self.transitions,
            "traces": self.traces,
            "branches": dict(self.branches),
            "outcomes": dict(self.outcomes),
            "samples": _jsonable(self.samples),
            "violations": self.violations,
            "nviol": self.nviol,
            "no_verdict": self.no_verdict[:200],
            "n_no_verdict": len(self.no_verdict),
            "maxima": self.maxima,
            "notes": _jsonable(self.notes),
            "max_depth": self.max_depth,
            "wall_s": time.time() - self.t0,
        }


def _jsonable(x):
    try:
        import numpy as onp
    except Exception:  # pragma: no cover
        onp = None
    if isinstance(x, dict):
        return {str(k): _jsonable(v) for k, v in x.items()}
    if isinstance(x, (list, tuple)):
        return [_jsonable(v) for v in x]
    if isinstance(x, (str, int, bool)) or x is None:
        return x
    if isinstance(x, float):
        return x if x == x and abs(x) != float("inf") else repr(x)
    if onp is not None:
        if isinstance(x, onp.generic):
            return _jsonable(x.item())
        if hasattr(x, "shape") and hasattr(x, "tolist"):
            try:
                return _jsonable(onp.asarray(x).tolist())
            except Exception:
                return repr(x)
    return repr(x)


def bfs(init_states, actions, step, canon, invariant, max_depth, rec, label=lambda a: str(a)):
    """Generic explicit-state BFS on live python values (for cheap, copyable states).

    init_states: list of (name, state); actions(state) -> iterable of actions;
    step(state, action) -> new state (calls real code; must not mutate `state`);
    canon(state) -> hashable canonical key; invariant(history, state) is called on every reached
    state (it records violations itself). Returns number of distinct states.
    """
    seen = {}
    frontier = deque()
    for name, s in init_states:
        k = canon(s)
        if k not in seen:
            seen[k] = (name,)
            rec.state(repr(k))
            invariant((name,), s)
            frontier.append(((name,), s, 0))
    while frontier:
        hist, s, d = frontier.popleft()
        rec.depth(d)
        if d >= max_depth:
            continue
        for a in actions(s):
            ns = step(s, a)
            rec.transition()
            nh = hist + (label(a),)
            invariant(nh, ns)
            k = canon(ns)
            if k not in seen:
                seen[k] = nh
                rec.state(repr(k))
                frontier.append((nh, ns, d + 1))
    return len(seen)
