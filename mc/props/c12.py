"""C12 -- symmetric-tensor eigen-decomposition, tensor functions and their derivative rules.

E-PROD in two execution modes.  Every routine is driven through the full Cartesian product of
labelled axes (eigenvalue pattern x magnitude x orientation x symmetric perturbation direction
[x exponent]), once as one jitted call per case and once as jit(vmap) over fixed-length padded
batches (chunk 256).  Oracles are the reference models in mc/ref/tensor_ref.py (construction
based f(A), scipy Frechet derivatives, exact rational det(A+I)-1).

Execution-mode protocol (DESIGN C12, consequence of D11): a failure in batched mode of a routine
that is built on eigen_sym33_unit, that passes as a single compiled call on the same input, and
whose input has its two closest eigenvalues within 1e-6 relative, is the one known finding
`eigen_sym33_unit|batched|near-repeated-spectrum`.  The same failure pattern at a well separated spectrum is
the known finding `eigen_sym33_unit|batched|branch-decision-tie` iff a float64 replica of the solver's exact
comparisons shows a tie (margin <= 1e-6) on a matrix the solver receives (as in C08).  Anything else -- in
particular every failure that also occurs as a single call -- is an ordinary violation.

The orientation axis contains 9 exactly representable 45-degree configurations (q45:<axis><k>: two equal
diagonal entries, exactly zero out-of-plane couplings) and the spectrum axis two spectra symmetric about their
mean (deviator determinant exactly 0): inputs of that kind (pure shear, C = F^T F of a symmetric in-plane
stretch) made np.sign return 0 inside the solver and all three eigenvalues collapse to the mean (defect D28,
fixed); a rotation matrix with rounded entries never produces them.
"""
import numpy as onp

from mc.core import pick

ID = "C12"
TITLE = ("eigen_sym33_unit/non_unit, sqrt/exp/log/pow_symm values, identities, equivariance and JVP rules, "
         "detpIm1, inv, right polar decomposition, LinAlg.sqrtm/logm_iss; single-call and batched execution")
LEVEL = "model_checking"
RULE = ("E-PROD: routine x eigenvalue pattern x magnitude x orientation x symmetric direction (x exponent) x "
        "execution mode {single jitted call, jit(vmap) chunk 256}; one case = one call of the real routine "
        "compared with the reference model (case id = the labels). Non-trivial (measured per case) = the input "
        "sits on a data-dependent switch of the routine: closest eigenvalues within 1e-3 relative or exactly "
        "equal, rank deficient / zero tensor, or the pivot / second-row / root-sign branch "
        "labels of the closed-form solver (evaluated on the input in float64) differ from the default path "
        "(pivot k0, a0>a1, largest root positive); for general matrices: non-symmetric or spread > 1.")
ASSUMPTIONS = [
    "reference models (mc/ref/tensor_ref.py) use numpy/scipy/fractions only: f(Q L Q^T) = Q f(L) Q^T from the "
    "construction, scipy.linalg.expm_frechet, Sylvester solve for sqrt, inverse exp-Frechet operator for log, "
    "composition for pow, exact rational det(A+I)-1, scipy.linalg.expm for logm_iss",
    "every tensor function is compiled in two program shapes, f(A) alone and jax.jvp(f,(A,),(E,)), each in both "
    "execution modes (XLA rounds the same routine differently in different programs)",
    "x64, CPU, XLA flags of the launcher; batched mode always uses padded batches of exactly 256 (pad element "
    "diag(1,2,3)); other batch lengths are outside the alphabet (lengths 2..256 were probed once: same defect)",
    "D11 classification is by construction labels: relative gap = min neighbouring eigenvalue distance / spectral "
    "radius of the matrix handed to the eigen-solver (for the polar decomposition: of C = F^T F)",
    "pow_symm derivative is only judged where its docstring claims accuracy: well separated eigenvalues "
    "(relative gap >= 1e-3) or exactly equal eigenvalues of the float input (permutation orientations); all "
    "other pow derivative cases are executed and their error is recorded, without verdict",
    "sqrt_symm on rank-deficient input is only judged where the float input is exactly positive semi-definite "
    "(permutation orientations); elsewhere the computed smallest eigenvalue may be -1e-17 and sqrt gives NaN, "
    "which the property does not forbid (recorded as outcome, without verdict)",
    "exp_symm / log(exp) are driven at magnitudes <= 1 (exp overflows beyond); logarithm, power and polar "
    "decomposition need positive definite input",
    "eigen_sym33_unit additionally sees magnitudes 1e-120 and 1e120 ('any magnitude'); eigen_sym33_non_unit only "
    "the documented range (1e-20..1e20 lies inside 1e-40..1e40)",
    "Math.sum2 / Math.dot2 are executed and compared with exact rational sums for the record only (no clause of "
    "the property speaks about them)",
]
TOLERANCES = {
    "eigen_sym33_unit: reconstruction |V L V^T - A|_F/|A|_F, orthonormality |V^T V - I|_F, eigenvalues vs "
    "construction /|A|": "1e-7 each (single-call worst over both tiers: 4.71e-10 at gap 1e-9 and 45 deg in-plane, "
                         "6.0e-16, 3.3e-10)",
    "eigen_sym33_non_unit (columns normalised by the harness)": "1e-6 (single-call worst 3.54e-9 at gap 1e-8, thorough)",
    "ascending order": "exact",
    "f(A) vs construction, sqrt^2=A, pow2=AA, pow(m)pow(-m)=I, equivariance, symmetry of f(A)":
        "1e-6 relative (Frobenius); worst observed single-call 1.83e-9 (pow, thorough tier), so 100x worst "
        "= 1.8e-7 forces tau above the 1e-7 of the design; a wrong branch / formula gives >= 1e-3",
    "exp(log(A)) = A": "1e-7 relative (worst 4.7e-10)",
    "log(exp(A)) = A": "1e-7 * (1 + |A|) (worst 3.5e-10)",
    "JVP vs Frechet derivative": "1e-6 relative to |L_f(A,E)|_F (worst observed 1e-9 single-call)",
    "detpIm1 vs exact rational": "1e-14 * sum|terms|",
    "inv: |A inv(A) - I|, |inv(A) A - I|": "cond * 1e-10",
    "right polar decomposition: RU=F, R^T R=I, U=U^T, U vs construction": "max(cond*1e-10, 1e-5) (eigen-solver based; worst single-call 1.73e-8 at gap 1e-8, thorough)",
    "LinAlg.sqrtm^2 = A, expm(logm_iss(A)) = A": "cond(construction) * 1e-10 relative",
    "safe_sqrt value / derivative": "exact / 4 ulp",
}

D11_KEY = "eigen_sym33_unit|batched|near-repeated-spectrum"
TIE_KEY = "eigen_sym33_unit|batched|branch-decision-tie"     # same root cause, separated spectrum (see C08)
BATCH = 256
TAU = 1e-7          # eigen_sym33_unit oracles (DESIGN; worst single-call 4.71e-10 over both tiers)
TAU_NON_UNIT = 1e-6  # eigen_sym33_non_unit (worst single-call 3.54e-9, thorough tier, gap 1e-8)
TAU_FUN = 1e-6      # function values / identities / equivariance / JVP (worst single-call 1.83e-9, both tiers)
TAU_POLAR = 1e-5    # right_polar_decomposition (worst single-call 1.73e-8: R^T R = I at gap 1e-8, thorough tier)
EIGEN_BASED = {"eigen_unit", "eigen_non_unit", "sqrt", "exp", "log", "pow", "explog", "logexp", "polar",
               "sqrt_value", "exp_value", "log_value", "pow_value"}
JVP_ROUTINES = ("sqrt", "exp", "log", "pow")                       # program = jax.jvp(f, (A,), (E,))
VALUE_ROUTINES = ("sqrt_value", "exp_value", "log_value", "pow_value")   # program = f(A) alone


def _base(routine):
    return routine[:-6] if routine.endswith("_value") else routine

LIBNAME = {"eigen_unit": "eigen_sym33_unit", "eigen_non_unit": "eigen_sym33_non_unit", "sqrt": "sqrt_symm",
           "exp": "exp_symm", "log": "log_symm", "pow": "pow_symm", "sqrt_value": "sqrt_symm", "exp_value": "exp_symm",
           "log_value": "log_symm", "pow_value": "pow_symm", "explog": "exp_symm(log_symm)",
           "logexp": "log_symm(exp_symm)", "detpIm1": "detpIm1", "inv": "inv",
           "polar": "right_polar_decomposition", "sqrtm": "LinAlg.sqrtm", "logm": "LinAlg.logm_iss",
           "math": "Math"}


# ----------------------------------------------------------------------------------------------
# axes
# ----------------------------------------------------------------------------------------------

def _axes(tier, seed):
    from mc.ref import tensor_ref as R
    thorough = tier == "thorough"
    spectra = R.spectra(R.GAPS + R.EXTRA_GAPS) if thorough else R.spectra()
    return {
        "spectra": spectra,
        "scales": list(R.SCALES),
        "scales_eigen_unit": [("1e-120", 1e-120)] + list(R.SCALES) + [("1e120", 1e120)],
        "scales_exp": [s for s in R.SCALES if s[1] <= 1.0],
        "orientations": R.orientations(seed, extended=thorough),
        "directions": R.sym_directions(),
        "pow_m": [2.0, 0.5] + ([3.0, 1.5] if thorough else []),       # each with its negative
        "gen_sizes": list(range(2, 11)),
        "gen_kinds": ["spd", "nonsym"],
        "gen_spreads": [("1", 1.0), ("1e2", 1e2), ("1e4", 1e4)],
        "gen_reps": [0, 1, 2] if thorough else [0],
    }


def bounds(tier):
    ax = _axes(tier, 0)
    return {
        "spectra": len(ax["spectra"]), "scales": len(ax["scales"]), "scales_eigen_unit": len(ax["scales_eigen_unit"]),
        "scales_exp_logexp": len(ax["scales_exp"]), "orientations": len(ax["orientations"]),
        "directions": len(ax["directions"]), "pow_exponents": [m for a in ax["pow_m"] for m in (a, -a)],
        "execution_modes": ["single", "batched(chunk %d, padded)" % BATCH],
        "general_matrix_sizes": ax["gen_sizes"], "general_kinds": ax["gen_kinds"],
        "general_spreads": [s for s, _ in ax["gen_spreads"]], "general_representatives": len(ax["gen_reps"]),
        "d11_gap_threshold": 1e-6,
    }


def groups(tier, seed):
    ax = _axes(tier, seed)
    nsc = len(ax["scales"])
    gs = []

    def add(routine, **kw):
        g = {"routine": routine}
        g.update(kw)
        g["name"] = routine + "".join("-%s%s" % (k, v) for k, v in sorted(kw.items()))
        gs.append(g)

    # heaviest first: pow (two exponent signs x directions), then sqrt/log/exp, polar, eigen, helpers
    for a in ax["pow_m"]:
        for sh in range(4):
            add("pow", m=a, shard=sh, nshards=4)
    for fn, k in (("log", 3), ("sqrt", 2), ("exp", 2)):
        for sh in range(k):
            add(fn, shard=sh, nshards=k)
    add("polar", shard=0, nshards=1)
    add("eigen_unit", shard=0, nshards=1)
    add("eigen_non_unit", shard=0, nshards=1)
    for n in ax["gen_sizes"][::-1]:
        add("general", n=n)
    add("pow_value", shard=0, nshards=1)
    for fn in ("sqrt_value", "log_value", "exp_value", "explog", "logexp"):
        add(fn, shard=0, nshards=1)
    add("inv")
    add("detpIm1")
    add("math")
    return gs


# ----------------------------------------------------------------------------------------------
# small numerics helpers (host side)
# ----------------------------------------------------------------------------------------------

def _fro(x):
    x = onp.asarray(x, dtype=float)
    m = onp.abs(x).max() if x.size else 0.0
    if not onp.isfinite(m) or m == 0.0:
        return float(m)
    return float(m * onp.sqrt(((x / m) ** 2).sum()))


def _rel(x, ref):
    """|x - ref| / |ref| (absolute if ref == 0); NaN if x is not finite."""
    x = onp.asarray(x, dtype=float)
    if not onp.all(onp.isfinite(x)):
        return float("nan")
    d = _fro(x - ref)
    n = _fro(ref)
    return d / n if n > 0 else d


def _le(v, tol):
    return bool(v <= tol)      # False for NaN


class _Case:
    __slots__ = ("cid", "args", "meta")

    def __init__(self, cid, args, meta):
        self.cid = cid
        self.args = args
        self.meta = meta


# ----------------------------------------------------------------------------------------------
# running the real code in the two execution modes
# ----------------------------------------------------------------------------------------------

def _leaves(out):
    import jax
    return tuple(onp.asarray(x) for x in jax.tree_util.tree_leaves(out))


def _run_single(f, cases):
    outs = []
    for c in cases:
        try:
            outs.append(_leaves(f(*c.args)))
        except Exception as e:  # noqa  (library raised on an admissible input)
            outs.append(e)
    return outs


def _run_batched(fb, cases, pad):
    outs = []
    for s in range(0, len(cases), BATCH):
        blk = cases[s:s + BATCH]
        n = len(blk)
        cols = []
        for k in range(len(pad)):
            col = [c.args[k] for c in blk] + [pad[k]] * (BATCH - n)
            cols.append(onp.stack([onp.asarray(v, dtype=float) for v in col]))
        try:
            res = _leaves(fb(*cols))
            outs.extend(tuple(r[i] for r in res) for i in range(n))
        except Exception as e:  # noqa
            outs.extend([e] * n)
    return outs


def _programs(routine, n=3):
    import jax
    from optimism import TensorMath as TM, LinAlg
    fns = {
        "eigen_unit": lambda A: TM.eigen_sym33_unit(A),
        "eigen_non_unit": lambda A: TM.eigen_sym33_non_unit(A),
        "sqrt": lambda A, E: jax.jvp(TM.sqrt_symm, (A,), (E,)),
        "exp": lambda A, E: jax.jvp(TM.exp_symm, (A,), (E,)),
        "log": lambda A, E: jax.jvp(TM.log_symm, (A,), (E,)),
        "pow": lambda A, E, m: jax.jvp(lambda X: TM.pow_symm(X, m), (A,), (E,)),
        "sqrt_value": lambda A: (TM.sqrt_symm(A),),
        "exp_value": lambda A: (TM.exp_symm(A),),
        "log_value": lambda A: (TM.log_symm(A),),
        "pow_value": lambda A, m: (TM.pow_symm(A, m),),
        "explog": lambda A: TM.exp_symm(TM.log_symm(A)),
        "logexp": lambda A: TM.log_symm(TM.exp_symm(A)),
        "detpIm1": lambda A: TM.detpIm1(A),
        "inv": lambda A: TM.inv(A),
        "polar": lambda F: TM.right_polar_decomposition(F),
        "sqrtm": lambda A: LinAlg.sqrtm(A),
        "logm": lambda A: LinAlg.logm_iss(A),
    }
    f = fns[routine]
    return jax.jit(f), jax.jit(jax.vmap(f))


_PAD3 = onp.diag([1.0, 2.0, 3.0])
_PADE = onp.diag([1.0, 0.0, 0.0])


def _pad(routine, n=3):
    if routine in ("sqrt", "exp", "log"):
        return (_PAD3, _PADE)
    if routine == "pow":
        return (_PAD3, _PADE, onp.float64(2.0))
    if routine == "pow_value":
        return (_PAD3, onp.float64(2.0))
    if routine in ("sqrtm", "logm"):
        return (onp.diag(onp.linspace(1.0, 2.0, n)),)
    return (_PAD3,)


# ----------------------------------------------------------------------------------------------
# case builders
# ----------------------------------------------------------------------------------------------

def _tensor_cases(routine, ax, g):
    """Full product spectrum x scale x orientation (x direction) (x exponent sign) for one routine."""
    from mc.ref import tensor_ref as R
    spectra = ax["spectra"]
    scales = ax["scales"]
    if routine == "eigen_unit":
        scales = ax["scales_eigen_unit"]
    base_fn = _base(routine)
    if base_fn in ("exp", "logexp"):
        scales = ax["scales_exp"]
    if base_fn in ("log", "pow", "explog", "polar"):
        spectra = [s for s in spectra if s[2] == "spd"]
    if base_fn == "sqrt":
        spectra = [s for s in spectra if s[2] in ("spd", "psd")]
    dirs = ax["directions"] if routine in JVP_ROUTINES else [("-", None)]
    ms = [g["m"], -g["m"]] if routine == "pow" else [None]
    if routine == "pow_value":
        ms = [x for a in ax["pow_m"] for x in (a, -a)]
    polar_rots = [("I", onp.eye(3)), ("rz:0.3", R.rot_z(0.3)), ("euler:1", R.rot_z(0.3) @ R.rot_x(1.0) @ R.rot_z(2.0))] \
        if routine == "polar" else [("-", None)]
    sh, nsh = g.get("shard", 0), g.get("nshards", 1)
    cases = []
    blk = -1
    for sl, lam, kind in spectra:
        for cl, c in scales:
            blk += 1
            if blk % nsh != sh:
                continue
            for ol, Q in ax["orientations"]:
                A = R.compose_labelled(ol, Q, lam, c)
                base = {"spec": sl, "kind": kind, "lam": tuple(float(c * x) for x in lam), "scale": c, "scale_l": cl,
                        "orient": ol, "Q": Q, "A": A, "block": "%s|%s" % (sl, cl),
                        "relgap": R.rel_gap(lam),
                        "class": ("rank-deficient" if kind == "psd" else R.spectrum_class(lam))}
                for m in ms:
                    for rl, Rm in polar_rots:
                        for dl, E in dirs:
                            meta = dict(base)
                            cid = "fn=%s;spec=%s;scale=%s;orient=%s" % (routine, sl, cl, ol)
                            args = (A,)
                            if routine == "polar":
                                # F = Rm U with U = Q diag(lam) Q^T * scale ; C = F^T F has spectrum (scale*lam)^2
                                F = Rm @ A
                                meta.update(F=F, R=Rm, rot=rl, relgap=R.rel_gap([x * x for x in lam]),
                                            cond=max(lam) / min(lam))
                                meta["class"] = R.spectrum_class([x * x for x in lam])
                                cid += ";rot=%s" % rl
                                args = (F,)
                            if E is not None:
                                meta.update(dir=dl, E=E)
                                cid += ";dir=%s" % dl
                                args = (A, E)
                            if m is not None:
                                meta.update(m=m)
                                cid += ";m=%g" % m
                                args = (A, E, onp.float64(m)) if E is not None else (A, onp.float64(m))
                            cases.append(_Case(cid, args, meta))
    return cases


# ----------------------------------------------------------------------------------------------
# oracles.  Each returns (fails, metrics, flags): fails = list of (signature, detail dict),
# metrics = {name: value} for calibration, flags = dict of labels (outcome / unchecked notes)
# ----------------------------------------------------------------------------------------------

def _judge_eigen(routine, c, out):
    md = c.meta
    A = md["A"]
    l, V = onp.asarray(out[0], dtype=float), onp.asarray(out[1], dtype=float)
    fails, met = [], {}
    tau = TAU if routine == "eigen_unit" else TAU_NON_UNIT
    if routine == "eigen_non_unit":
        # documented: vectors may not be unit length -> normalise columns on the host
        with onp.errstate(all="ignore"):
            nrm = onp.array([_fro(V[:, j]) for j in range(3)])
            V = V / nrm[None, :]
    if not (onp.all(onp.isfinite(l)) and onp.all(onp.isfinite(V))):
        fails.append(("nan", {}))
        return fails, met, {}
    if not (l[0] <= l[1] <= l[2]):
        fails.append(("order", {}))
    nA = _fro(A)
    den = nA if nA > 0 else 1.0
    rec_ = _fro((V * l[None, :]) @ V.T - A) / den
    orth = _fro(V.T @ V - onp.eye(3))
    lref = onp.sort(onp.asarray(md["lam"]))
    evd = float(onp.abs(onp.sort(l) - lref).max() / den)
    met.update({"reconstruction": rec_, "orthonormality": orth, "eigenvalues": evd})
    if not _le(rec_, tau):
        fails.append(("reconstruction", {"rel_error": rec_}))
    if not _le(orth, tau):
        fails.append(("orthonormality", {"error": orth}))
    if not _le(evd, tau):
        fails.append(("eigenvalues", {"rel_error": evd}))
    return fails, met, {}


def _fref(routine, md):
    from mc.ref import tensor_ref as R
    lam = onp.asarray(md["lam"])
    Q = md["Q"]
    if routine == "sqrt":
        return R.fun_from_construction(Q, lam, onp.sqrt)
    if routine == "exp":
        return R.fun_from_construction(Q, lam, onp.exp)
    if routine == "log":
        return R.fun_from_construction(Q, lam, onp.log)
    if routine == "pow":
        return R.fun_from_construction(Q, lam, lambda x: onp.power(x, md["m"]))
    raise KeyError(routine)


def _is_perm(md):
    return md["orient"].startswith("perm:")


def _judge_function(routine, c, out, fcache):
    """sqrt / exp / log / pow: out = (primal, tangent) for the JVP programs, (primal,) for the value programs."""
    md = c.meta
    routine = _base(routine)
    A, E = md["A"], md.get("E")
    P = onp.asarray(out[0], dtype=float)
    T = onp.asarray(out[1], dtype=float) if E is not None else None
    fails, met, flags = [], {}, {}
    singular = md["kind"] == "psd"
    if routine == "sqrt" and singular and not _is_perm(md):
        # float input is PSD only up to rounding: no verdict on value or derivative
        flags["unchecked"] = "sqrt-rank-deficient-rotated"
        flags["nan"] = bool(not onp.all(onp.isfinite(P)))
        return fails, met, flags
    if not onp.all(onp.isfinite(P)):
        fails.append(("value-nan", {}))
        return fails, met, flags
    Fr = _fref(routine, md)
    v = _rel(P, Fr)
    met["value"] = v
    if not _le(v, TAU_FUN):
        fails.append(("value", {"rel_error": v, "expected": Fr}))
    sy = _rel(P.T, P)
    met["symmetry"] = sy
    if not _le(sy, TAU_FUN):
        fails.append(("value-unsymmetric", {"rel_error": sy}))
    if routine == "sqrt":
        idn = _rel(P @ P, A)
        met["sqrt^2=A"] = idn
        if not _le(idn, TAU_FUN):
            fails.append(("identity-sqrt^2", {"rel_error": idn}))
    if routine == "pow" and md["m"] == 2.0:
        idn = _rel(P, A @ A)
        met["pow2=AA"] = idn
        if not _le(idn, TAU_FUN):
            fails.append(("identity-pow2", {"rel_error": idn}))
    # derivative rule
    if E is None:
        return fails, met, flags
    if singular:
        flags["value_only"] = "sqrt-derivative-singular"
        return fails, met, flags
    D = md.get("Dref")
    if D is None:
        from mc.ref import tensor_ref as R
        mkey = (md["block"], md["orient"])
        if fcache.get("mkey") != mkey:
            fcache.clear()
            fcache["mkey"] = mkey
            fcache["objs"] = {}
        objs = fcache["objs"]
        if md.get("m") not in objs:
            shared = next((o.log_op for o in objs.values() if o.log_op is not None), None)
            objs[md.get("m")] = R.FrechetCache(A, routine, m=md.get("m"), log_op=shared)
        D = objs[md.get("m")].apply(E)
        md["Dref"] = D
    j = _rel(T, D)
    judged = True
    if routine == "pow":
        separated = md["relgap"] >= 1e-3
        exact_equal = (md["relgap"] == 0.0) and _is_perm(md)
        judged = separated or exact_equal
    if judged:
        met["jvp"] = j
        if not _le(j, TAU_FUN):
            fails.append(("jvp", {"rel_error": j, "expected": D, "observed": T}))
    else:
        flags["value_only"] = "pow-jvp-nearly-degenerate"
        met["pow-jvp-nearly-degenerate(unjudged)"] = j if j == j else float("inf")
    return fails, met, flags


def _judge_compose(routine, c, out):
    md = c.meta
    A = md["A"]
    X = onp.asarray(out[0], dtype=float)
    fails, met = [], {}
    if not onp.all(onp.isfinite(X)):
        return [("value-nan", {})], met, {}
    if routine == "explog":
        v = _rel(X, A)
        met["exp(log)=id"] = v
        ok = _le(v, TAU)
    else:
        v = _fro(X - A) / (1.0 + _fro(A))
        met["log(exp)=id"] = v
        ok = _le(v, TAU)
    if not ok:
        fails.append(("identity", {"error": v}))
    return fails, met, {}


def _judge_polar(c, out):
    md = c.meta
    F = md["F"]
    Rl, U = onp.asarray(out[0], dtype=float), onp.asarray(out[1], dtype=float)
    fails, met = [], {}
    if not (onp.all(onp.isfinite(Rl)) and onp.all(onp.isfinite(U))):
        return [("nan", {})], met, {}
    tol = max(md["cond"] * 1e-10, TAU_POLAR)
    e1 = _rel(Rl @ U, F)
    e2 = _fro(Rl.T @ Rl - onp.eye(3))
    e3 = _rel(U.T, U)
    e4 = _rel(U, md["A"])
    e5 = _rel(Rl, md["R"])
    met.update({"polar:RU=F": e1, "polar:R^TR=I": e2, "polar:U=U^T": e3, "polar:U-vs-construction": e4,
                "polar:R-vs-construction": e5})
    for sig, e in (("RU=F", e1), ("R-orthogonal", e2), ("U-symmetric", e3), ("U-value", e4), ("R-value", e5)):
        if not _le(e, tol):
            fails.append((sig, {"error": e, "tol": tol}))
    w = onp.linalg.eigvalsh(0.5 * (U + U.T))
    if not (w.min() >= -tol * _fro(U)):
        fails.append(("U-not-psd", {"min_eig": float(w.min())}))
    return fails, met, {}


# ----------------------------------------------------------------------------------------------
# recording with the execution-mode protocol
# ----------------------------------------------------------------------------------------------

def _detail(c, out, fails):
    md = c.meta
    d = {"failures": [{"signature": s, **{k: v for k, v in dd.items()}} for s, dd in fails],
         "input": [onp.asarray(a).tolist() for a in c.args],
         "observed": None if isinstance(out, Exception) else [onp.asarray(o).tolist() for o in out]}
    for k in ("spec", "scale_l", "orient", "dir", "m", "relgap", "class", "lam", "rot"):
        if k in md:
            d[k] = md[k]
    return d


MAX_RECORDS_PER_KEY = 10     # per group; every occurrence is still counted in the branch table


def _violation(rec, key, cid, det):
    """The recorder keeps at most 200 violation records per group; D11 alone produces more. Keep the first
    MAX_RECORDS_PER_KEY records of every key so that no key can be crowded out, count all of them."""
    seen = rec.__dict__.setdefault("_c12_perkey", {})
    seen[key] = seen.get(key, 0) + 1
    rec.branch("finding-count:" + key)
    if seen[key] <= MAX_RECORDS_PER_KEY or rec.only is not None:
        rec.violation(key, cid, det)


def _decision_tie(routine, c):
    """Classification only (never a verdict), as in C08: a case that fails in the batch, passes as a single call and whose
    spectrum is well separated belongs to the known batched-mode finding iff one of the exact floating-point comparisons
    of eigen_sym33_unit is a tie (relative margin <= 1e-6 in a float64 replica) on a matrix the solver receives: the
    input itself, C = F^T F for the polar decomposition, and the intermediate log(A) / exp(A) of the compositions."""
    from mc.ref import material_ref as MR, tensor_ref as R
    md = c.meta
    base = _base(routine)
    mats = [("A", md["A"] if base != "polar" else md["F"].T @ md["F"])]
    lam = onp.asarray(md["lam"], dtype=float)
    with onp.errstate(all="ignore"):
        if base == "explog":
            mats.append(("log(A)", R.fun_from_construction(md["Q"], lam, onp.log)))
        if base == "logexp":
            mats.append(("exp(A)", R.fun_from_construction(md["Q"], lam, onp.exp)))
    ties = []
    for nm, M in mats:
        if not onp.all(onp.isfinite(M)):
            continue
        t, which, margin = MR.eigen_decision_tie(M)
        if t:
            ties.append("%s:%s(margin %.1e)" % (nm, which, margin))
    return ties


def _record(rec, routine, cases, results, nontrivial_fn, sample_ids, steps=1):
    """results: {mode: list of (fails, metrics, flags, out)} aligned with cases."""
    for i, c in enumerate(cases):
        s_fails = results["single"][i][0]
        for mode in ("single", "batched"):
            cid = c.cid + ";mode=" + mode
            if not rec.want(cid):
                continue
            fails, met, flags, out = results[mode][i]
            for k, v in met.items():
                rec.track_max("%s|%s|%s" % (routine, mode, k), v)
            cls = c.meta.get("class", "general")
            outcome = "ok:" + cls
            if flags.get("value_only"):
                outcome = "ok(value judged, derivative unjudged:%s):%s" % (flags["value_only"], cls)
            if flags.get("unchecked"):
                outcome = "no-oracle:%s%s" % (flags["unchecked"], ":nan" if flags.get("nan") else "")
            if fails:
                sigs = "+".join(sorted({s for s, _ in fails}))
                d11 = (mode == "batched" and routine in EIGEN_BASED and not s_fails
                       and c.meta.get("relgap", 1.0) <= 1e-6)
                tie = None
                if mode == "batched" and routine in EIGEN_BASED and not s_fails and not d11:
                    tie = _decision_tie(routine, c)
                if d11:
                    key = D11_KEY
                    outcome = "d11:" + cls
                    rec.branch("protocol:batched-fail/single-pass/near-repeated -> D11")
                elif tie:
                    key = TIE_KEY
                    outcome = "d11-tie:" + cls
                    rec.branch("protocol:batched-fail/single-pass/eigen-solver decision tie -> D11 family (separated spectrum)")
                else:
                    key = "%s|%s|%s|%s" % (LIBNAME[routine], mode, cls, sigs)
                    outcome = "fail:" + sigs
                    rec.branch("protocol:ordinary-violation")
                det = _detail(c, out, fails)
                det["single_call_passes"] = not s_fails
                if tie:
                    det["eigen_solver_decision_ties"] = tie
                det["routine"] = LIBNAME[routine]
                _violation(rec, key, cid, det)
            rec.branch("mode:" + mode)
            rec.case(cid, nontrivial=nontrivial_fn(c), outcome=outcome, steps=steps,
                     sample=({"case": cid, "input": [onp.asarray(a).tolist() for a in c.args],
                              "metrics": met} if i in sample_ids and mode == "single" else None))


def _exc_result(e):
    from mc.runner import exception_key
    return ([(exception_key(e), {"error": repr(e)[:400]})], {}, {}, e)


def _evaluate(cases, outs, judge):
    res = []
    for c, o in zip(cases, outs):
        if isinstance(o, Exception):
            res.append(_exc_result(o))
        else:
            f, m, fl = judge(c, o)
            res.append((f, m, fl, o))
    return res


def _nontrivial_tensor(c):
    md = c.meta
    if md["relgap"] <= 1e-3 or md["kind"] == "psd":
        return True
    lab = md.get("branches") or ()
    default = {"pivot:k0", "second-row:a0>a1", "largest-root:sign=+1"}
    return any((l.split(":")[0] in ("pivot", "second-row", "largest-root")) and l not in default for l in lab)


# ----------------------------------------------------------------------------------------------
# group drivers
# ----------------------------------------------------------------------------------------------

def run_group(g, tier, seed, rec):
    routine = g["routine"]
    ax = _axes(tier, seed)
    if routine in EIGEN_BASED:
        _run_tensor(routine, g, ax, tier, seed, rec)
    elif routine == "general":
        _run_general(g, ax, tier, seed, rec)
    elif routine == "inv":
        _run_inv(ax, seed, rec)
    elif routine == "detpIm1":
        _run_detpIm1(ax, seed, rec)
    elif routine == "math":
        _run_math(seed, rec)
    else:
        raise KeyError(routine)


def _run_tensor(routine, g, ax, tier, seed, rec):
    from mc.ref import tensor_ref as R
    cases = _tensor_cases(routine, ax, g)
    f1, fb = _programs(routine)
    pad = _pad(routine)
    outs = {"single": _run_single(f1, cases), "batched": _run_batched(fb, cases, pad)}

    # coverage labels of the closed-form solver for each distinct matrix (float64 replica, coverage only)
    seen = {}
    for c in cases:
        k = (c.meta["block"], c.meta["orient"], c.meta.get("rot"))
        if k not in seen:
            M = c.meta["A"] if routine != "polar" else c.meta["F"].T @ c.meta["F"]
            seen[k] = R.eigen_branch_labels(M)
            for l in seen[k]:
                rec.branch("eigen:" + l)
        c.meta["branches"] = seen[k]

    results = {}
    fcache = {}
    for mode in ("single", "batched"):
        if routine in ("eigen_unit", "eigen_non_unit"):
            judge = lambda c, o: _judge_eigen(routine, c, o)            # noqa
        elif routine in JVP_ROUTINES + VALUE_ROUTINES:
            judge = lambda c, o: _judge_function(routine, c, o, fcache)  # noqa
        elif routine in ("explog", "logexp"):
            judge = lambda c, o: _judge_compose(routine, c, o)          # noqa
        else:
            judge = lambda c, o: _judge_polar(c, o)                     # noqa
        res = _evaluate(cases, outs[mode], judge)
        if routine in JVP_ROUTINES + VALUE_ROUTINES:
            _cross_checks(_base(routine), cases, res)
        results[mode] = res

    # branch accounting for the derivative rule: which divided-difference formula is used per eigen-pair,
    # measured from the library's own eigenvalues of the same matrix (single jitted eigen call)
    if routine in JVP_ROUTINES:
        import jax
        from optimism import TensorMath as TM
        eig1 = jax.jit(TM.eigen_sym33_unit)
        done = set()
        for c in cases:
            k = (c.meta["block"], c.meta["orient"])
            if k in done:
                continue
            done.add(k)
            try:
                lam = onp.asarray(eig1(c.meta["A"])[0])
                neq = int(lam[0] == lam[1]) + int(lam[1] == lam[2]) + int(lam[0] == lam[2])
                rec.branch("jvp-divided-difference:%d-equal-pairs(df branch)" % neq)
                c.meta["neq"] = neq
            except Exception:  # noqa  (coverage only)
                pass

    ids = set(pick(range(len(cases)), seed, 2))
    _record(rec, routine, cases, results, _nontrivial_tensor, ids)


def _cross_checks(routine, cases, res):
    """Equivariance f(Q A Q^T) = Q f(A) Q^T against the library's own value at the identity orientation, and
    pow(A,m) pow(A,-m) = I; failures are attributed to the rotated / positive-exponent case."""
    index = {}
    for i, c in enumerate(cases):
        index[(c.meta["block"], c.meta["orient"], c.meta.get("dir"), c.meta.get("m"))] = i
    for i, c in enumerate(cases):
        md = c.meta
        fails, met, flags, out = res[i]
        if isinstance(out, Exception) or flags.get("unchecked") == "sqrt-rank-deficient-rotated":
            continue
        P = onp.asarray(out[0], dtype=float)
        if not onp.all(onp.isfinite(P)):
            continue                      # already reported as value-nan
        j = index.get((md["block"], "perm:012", md.get("dir"), md.get("m")))
        if j is not None and j != i and not isinstance(res[j][3], Exception):
            P0 = onp.asarray(res[j][3][0], dtype=float)
            if onp.all(onp.isfinite(P0)):
                Q = md["Q"]
                e = _rel(P, Q @ P0 @ Q.T)
                met["equivariance"] = e
                if not _le(e, TAU_FUN):
                    fails.append(("equivariance", {"rel_error": e}))
        if routine == "pow" and md["m"] > 0:
            j = index.get((md["block"], md["orient"], md.get("dir"), -md["m"]))
            if j is not None and not isinstance(res[j][3], Exception):
                Pm = onp.asarray(res[j][3][0], dtype=float)
                if not onp.all(onp.isfinite(Pm)):
                    continue              # reported on the negative-exponent case itself
                e = _fro(P @ Pm - onp.eye(3))
                met["pow(m)pow(-m)=I"] = e
                if not _le(e, TAU_FUN):
                    fails.append(("identity-pow-inverse", {"error": e}))


# -- general matrices ---------------------------------------------------------------------------

def _run_general(g, ax, tier, seed, rec):
    from mc.ref import tensor_ref as R
    n = g["n"]
    for routine in ("sqrtm", "logm"):
        cases = []
        for kind in ax["gen_kinds"]:
            for sl, spread in ax["gen_spreads"]:
                for rep in ax["gen_reps"]:
                    A, cond = R.positive_spectrum_matrix(n, kind, spread, seed * 7 + rep)
                    cid = "fn=%s;n=%d;kind=%s;spread=%s;rep=%d" % (routine, n, kind, sl, rep)
                    cases.append(_Case(cid, (A,), {"A": A, "cond": cond, "kind": kind, "spread": spread,
                                                   "class": "%s" % kind}))
        f1, fb = _programs(routine, n)
        outs = {"single": _run_single(f1, cases), "batched": _run_batched(fb, cases, _pad(routine, n))}

        def judge(c, o, routine=routine):
            X = onp.asarray(o[0], dtype=float)
            A = c.meta["A"]
            if not onp.all(onp.isfinite(X)):
                return [("nan", {})], {}, {}
            tol = c.meta["cond"] * 1e-10
            if routine == "sqrtm":
                e = _rel(X @ X, A)
                name = "sqrtm^2=A"
            else:
                e = _rel(R.expm(X), A)
                name = "expm(logm)=A"
            met = {name: e, name + "/cond": e / c.meta["cond"]}
            return ([] if _le(e, tol) else [("identity", {"rel_error": e, "tol": tol})]), met, {}

        results = {mode: _evaluate(cases, outs[mode], judge) for mode in ("single", "batched")}
        for c in cases:
            rec.branch("general:%s:%s" % (routine, c.meta["kind"]))
        _record(rec, routine, cases, results,
                lambda c: c.meta["kind"] == "nonsym" or c.meta["spread"] > 1.0, set(pick(range(len(cases)), seed, 1)))


# -- inverse ------------------------------------------------------------------------------------

def _run_inv(ax, seed, rec):
    from mc.ref import tensor_ref as R
    stretches = [("111", (1.0, 1.0, 1.0)), ("0.5,1,2", (0.5, 1.0, 2.0)), ("1,1,1+1e-9", (1.0, 1.0, 1.0 + 1e-9)),
                 ("1e-3,1,1e3", (1e-3, 1.0, 1e3)), ("1,2,-3", (1.0, 2.0, -3.0)), ("1e-6,1,1", (1e-6, 1.0, 1.0)),
                 ("0.9,1,1.1", (0.9, 1.0, 1.1)), ("1e4,1e4,1", (1e4, 1e4, 1.0))]
    rots = [("I", onp.eye(3)), ("rz:0.3", R.rot_z(0.3)), ("euler:5", R.rot_z(2.0) @ R.rot_x(1.0) @ R.rot_z(0.1)),
            ("generic", R.generic_rotation(seed, 3))]
    cases = []
    for sl, s in stretches:
        for cl, c in ax["scales"]:
            for l1, Q1 in rots:
                for l2, Q2 in rots:
                    A = c * (Q1 * onp.asarray(s)[None, :]) @ Q2.T
                    cond = max(abs(x) for x in s) / min(abs(x) for x in s)
                    cases.append(_Case("fn=inv;stretch=%s;scale=%s;left=%s;right=%s" % (sl, cl, l1, l2), (A,),
                                       {"A": A, "cond": cond, "scale": c, "class": "cond<=1e%d" % round(onp.log10(cond))}))
    f1, fb = _programs("inv")
    outs = {"single": _run_single(f1, cases), "batched": _run_batched(fb, cases, _pad("inv"))}

    def judge(c, o):
        X = onp.asarray(o[0], dtype=float)
        if not onp.all(onp.isfinite(X)):
            return [("nan", {})], {}, {}
        A = c.meta["A"]
        e = max(_fro(A @ X - onp.eye(3)), _fro(X @ A - onp.eye(3)))
        tol = c.meta["cond"] * 1e-10
        return ([] if _le(e, tol) else [("identity", {"error": e, "tol": tol})]), \
            {"inv:|A inv(A)-I|/cond": e / c.meta["cond"]}, {}

    results = {mode: _evaluate(cases, outs[mode], judge) for mode in ("single", "batched")}
    _record(rec, "inv", cases, results, lambda c: c.meta["cond"] > 1.0 or c.meta["scale"] != 1.0,
            set(pick(range(len(cases)), seed, 1)))


# -- det(A+I)-1 ---------------------------------------------------------------------------------

def _run_detpIm1(ax, seed, rec):
    from mc.ref import tensor_ref as R
    Qg = R.generic_rotation(seed, 4)
    bases = []
    for sl, lam in (("distinct", (0.5, 1.3, 3.1)), ("aab", (1.0, 1.0, 2.0)), ("rank1", (0.0, 0.0, 1.0)),
                    ("mixed", (-1.0, 0.5, 2.0)), ("traceless", (-1.0, -1.0, 2.0))):
        for ol, Q in (("I", onp.eye(3)), ("rz:0.3", R.rot_z(0.3)), ("generic", Qg)):
            bases.append(("sym:%s:%s" % (sl, ol), R.compose(Q, lam, 1.0)))
    bases.append(("shear", onp.array([[0.0, 1.0, 0.0], [0.0, 0.0, 0.0], [0.0, 0.0, 0.0]])))
    bases.append(("uniaxial", onp.diag([1.0, 0.0, 0.0])))
    bases.append(("isochoric-ish", onp.diag([1.0, -0.5, -0.5])))
    bases.append(("skew", onp.array([[0.0, 1.0, -2.0], [-1.0, 0.0, 0.5], [2.0, -0.5, 0.0]])))
    bases.append(("full-nonsym", Qg @ onp.diag([0.3, -1.1, 2.0]) @ R.rot_z(1.0) + onp.array(
        [[0.0, 0.7, 0.0], [0.0, 0.0, -0.4], [0.2, 0.0, 0.0]])))
    bases.append(("minus-identity", -onp.eye(3)))
    scales = [("1e-20", 1e-20), ("1e-15", 1e-15), ("1e-10", 1e-10), ("1e-8", 1e-8), ("1e-5", 1e-5), ("1e-3", 1e-3),
              ("0.1", 0.1), ("1", 1.0), ("1e3", 1e3), ("1e5", 1e5)]
    cases = []
    for bl, B in bases:
        for cl, c in scales:
            A = c * B
            cases.append(_Case("fn=detpIm1;base=%s;scale=%s" % (bl, cl), (A,),
                               {"A": A, "scale": c, "class": "small" if c < 1e-3 else "finite"}))
    f1, fb = _programs("detpIm1")
    outs = {"single": _run_single(f1, cases), "batched": _run_batched(fb, cases, _pad("detpIm1"))}

    def judge(c, o):
        v = float(onp.asarray(o[0]))
        exact, bound = R.detpIm1_exact(c.meta["A"])
        if v != v:
            return [("nan", {})], {}, {}
        e = abs(v - exact)
        r = e / bound if bound > 0 else e
        return ([] if _le(r, 1e-14) else [("value", {"observed": v, "exact": exact, "sum_abs_terms": bound})]), \
            {"detpIm1:|err|/sum|terms|": r}, {}

    results = {mode: _evaluate(cases, outs[mode], judge) for mode in ("single", "batched")}
    _record(rec, "detpIm1", cases, results, lambda c: c.meta["scale"] != 1.0, set(pick(range(len(cases)), seed, 1)))


# -- Math.py ------------------------------------------------------------------------------------

def _run_math(seed, rec):
    import jax
    from optimism import Math
    from mc.ref import tensor_ref as R
    # safe_sqrt: value exact, derivative 0 for x <= 0 and 0.5/sqrt(x) otherwise
    xs = [("-1", -1.0), ("-1e-300", -1e-300), ("-0", -0.0), ("0", 0.0), ("1e-300", 1e-300),
          ("1e-20", 1e-20), ("0.25", 0.25), ("1", 1.0), ("2", 2.0), ("1e20", 1e20), ("1e300", 1e300)]
    f1 = jax.jit(lambda x: jax.jvp(Math.safe_sqrt, (x,), (1.0,)))
    fb = jax.jit(jax.vmap(lambda x: jax.jvp(Math.safe_sqrt, (x,), (1.0,))))
    cases = [_Case("fn=safe_sqrt;x=%s" % l, (onp.float64(x),), {"x": x, "class": "x<=0" if x <= 0 else "x>0"})
             for l, x in xs]
    outs = {"single": _run_single(f1, cases), "batched": _run_batched(fb, cases, (onp.float64(1.0),))}

    def judge(c, o):
        x = c.meta["x"]
        v, d = float(o[0]), float(o[1])
        fails = []
        with onp.errstate(all="ignore"):
            ev = float(onp.sqrt(onp.float64(x)))
        if x >= 0 and v != ev:
            fails.append(("value", {"observed": v, "expected": ev}))
        if x <= 0:
            if d != 0.0:
                fails.append(("derivative-at-nonpositive", {"observed": d, "expected": 0.0}))
        else:
            ed = 0.5 / ev
            if not (abs(d - ed) <= 4 * onp.spacing(ed)):
                fails.append(("derivative", {"observed": d, "expected": ed}))
        return fails, {}, {}

    results = {mode: _evaluate(cases, outs[mode], judge) for mode in ("single", "batched")}
    for c in cases:
        rec.branch("safe_sqrt:" + c.meta["class"])
    # the property has no routine label for Math in LIBNAME-based keys other than "Math"
    _record(rec, "math", cases, results, lambda c: c.meta["x"] <= 0, set())

    # sum2 / dot2: executed and compared with exact rational arithmetic, for the record only
    vecs = [("cancel", [1e16, 1.0, -1e16, 1.0]), ("tiny-tail", [1.0] + [1e-17] * 20),
            ("alternating", [(-1.0) ** k * (1.0 + k * 1e-9) * 1e8 for k in range(21)] + [0.5]),
            ("ones", [1.0] * 7), ("mixed-exponents", [1e-30, 1e30, -1e30, 1e-30, 3.0, -3.0])]
    try:
        s2 = jax.jit(Math.sum2)
        d2 = jax.jit(Math.dot2)
        for l, v in vecs:
            a = onp.asarray(v)
            ex, mag = R.exact_sum(a)
            got = float(s2(a))
            rec.track_max("Math.sum2|single|err/sum|a| (unjudged)", abs(got - ex) / mag)
            b = a[::-1] * 1.000000123
            ex, mag = R.exact_dot(a, b)
            got = float(d2(a, b))
            rec.track_max("Math.dot2|single|err/sum|ab| (unjudged)", abs(got - ex) / mag)
            rec.branch("sum2/dot2 executed (no verdict)")
    except Exception as e:  # noqa  (outside the property: record, no verdict)
        rec.notes["sum2_dot2_exception"] = repr(e)[:200]
