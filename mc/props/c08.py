"""C08 -- elastic energies are objective, isotropic and stress-free at rest.

E-PROD in two execution modes on the REAL energy densities (MaterialModel.compute_energy_density of every material
module and of phasefield/PhaseFieldThreshold, and jax.grad of it): model/option x moduli set x deformation gradient
(principal-stretch classes distinct / two equal / three equal over several decades of strain, realised as uniaxial
strain along in-plane axes, equibiaxial stretch, dilation and fully 3-D F = R1 L R2^T) x superposed rotation Q (28) x
side {QF, FQ} x execution mode {one jitted call per evaluation, jit(vmap) over padded batches of exactly 256}.

Oracles (the statement, nothing more): |W(QF) - W(F)| and |W(FQ) - W(F)| within the rounding bound of that case for
the finite-deformation formulations ('linear' small-strain options are exempt), Kirchhoff stress P F^T symmetric, and for
EVERY option (incl. the linear ones and the default option) W(0) = 0 and dW/dH(0) = 0 at the virgin state.

The material constants are runtime arguments of the compiled programs (the model is constructed inside the traced
function from traced constants), so all moduli sets of one option share one compilation.

Execution-mode protocol (DESIGN C12 / D11): a case that fails in the compiled batch, passes as a single compiled call
and has (nearly) repeated principal stretches (relative gap of C = F^T F <= 1e-6) is the known finding
`eigen_sym33_unit|batched|near-repeated-spectrum`; a case that fails only in the batch although its spectrum is well
separated, and for which a float64 replica of the eigen-solver's comparison operands shows an exact tie (margin <= 1e-6) in
one of its data-dependent decisions on C of F, QF or FQ, is the same root cause outside D11's input class and is reported as
`eigen_sym33_unit|batched|branch-decision-tie`; anything else is an ordinary violation.
The rest state of an option is checked first; if it is broken (e.g. D3, J2 'seth hill') that one finding
`<model>|<option>|virgin-state|nonzero-energy-or-nan` is reported and the product is not run for that option.

Evolved internal states (models that carry state: HyperViscoelastic, MultiBranchHyperViscoelastic, J2Plastic 'large
deformations' and 'seth hill'): after the virgin-state product, an E-BFS on the REAL compute_state_new (single compiled
calls, from the library's own virgin state, all histories of pre-load actions up to depth 2 quick / 3 thorough, successors
de-duplicated on the state rounded to 1e-10, as C09-C11) enumerates the reachable internal states; at every such state the
objectivity clause W(QF; state) = W(F; state) for the 28 rotations and the symmetry of the Kirchhoff stress are checked over
a probing alphabet of deformation gradients, in both execution modes, with the same tolerances and the same D11 protocol
(the spectrum class is then measured on the tensor the model really decomposes, C_e = Fe^T Fe with Fe = F Fin^-1 per
branch).  The right-rotation clause W(FQ) = W(F) is NOT demanded there: an internal state defined in the reference frame
legitimately breaks it.  For J2 the energy at (H, state) includes the implicit update (the pre-loads yield; most probes
yield again): probes for which F and some QF lie within 1e-6 Y0 of, or on different sides of, the yield switch (measured
with the J2 reference model) are excluded and counted.  If the virgin-state product of an option already produced an
ordinary violation the evolved exploration of that option is skipped (one defect, one key); a failure that exists only at
evolved states is reported as `<model>|<any-mode / batched-only>|evolved-state|<signature>`.
"""
import numpy as onp

ID = "C08"
TITLE = ("Energy densities of all material models: W(QF) = W(FQ) = W(F) for 28 rotations, symmetric Kirchhoff stress, "
         "zero energy and stress at the undeformed virgin state; W(QF; state) = W(F; state) and symmetric Kirchhoff stress "
         "also at every internal state reached by the real update within the depth bound; single-call and batched execution")
LEVEL = "model_checking"
RULE = ("E-PROD: model option x moduli set (3) x deformation gradient (uniaxial strain along 6 in-plane axes x 10 "
        "stretches, equibiaxial, dilation, 3-D R1 L R2^T over stretch triples x rotation pairs) x superposed rotation "
        "(12 in-plane, 3 axes x 5 angles, 1 generic) x execution mode; one case = W(QF) and W(FQ) of the real energy "
        "compared with W(F) (case id = the labels), plus one case per deformation for the Kirchhoff stress and one per "
        "option / moduli set / mode for the rest state. Non-trivial (measured with numpy on C = F^T F) = two or three "
        "principal stretches coincide within 1e-6 relative (the eigen-solver's degeneracy switches) or the largest "
        "stretch is >= 2. "
        "EVOLVED STATES (models with internal state): E-BFS from the virgin state on the real compute_state_new over all "
        "histories of pre-load actions up to depth 2 (quick) / 3 (thorough) -- viscous: target {uniaxial stretch 1.4 along x, "
        "simple shear 0.4, stretch 1.3 along the in-plane axis at 30 degrees} x dt/tau {0.1, 10} = 6 actions; J2: the same three "
        "patterns x amplitude {2.5, 8} yield strains (all beyond yield) = 6 actions -- per moduli set, successors "
        "de-duplicated on the internal state rounded to 1e-10; then E-PROD reached state x probing deformation (45 quick / 54 "
        "thorough: uniaxial along 6 in-plane axes x 5 stretches, equibiaxial, dilation, 3-D triples, simple shears, and 'hold' = "
        "the deformation of the state's last pre-load step) x superposed "
        "rotation (28, left side only) x execution mode; one case = W(QF; state) of the real energy compared with W(F; state) "
        "(case id = model, moduli set, action history of the state, deformation, rotation, mode), plus one case per (state, "
        "deformation, mode) for the Kirchhoff stress. Non-trivial at an evolved state (measured with numpy) = the state differs "
        "from the virgin one by > 1e-10 AND the probing deformation is not coaxial with it: |C B - B C| > 1e-6 |C||B| for C = "
        "F^T F and B = (Fin^T Fin)^-1 of some branch (Seth-Hill: B = plastic strain); coaxial pairs cannot distinguish F Fin^-1 "
        "from Fin^-1 F.")
ASSUMPTIONS = [
    "oracle is the statement itself evaluated on what the real code returns (invariance, symmetry, zero at rest); the "
    "reference side (mc/ref/material_ref.py, numpy only) supplies the alphabets, the measured classes (principal "
    "stretches of C = F^T F by numpy eigvalsh), modulus scales, Gent admissibility and the J2 yield side",
    "material constants are runtime arguments: the model is created inside the traced function from traced constants "
    "(create_material_model_functions accepts them); one compilation per option and program shape",
    "two program shapes per option and mode: the energy alone (all rotated states) and jax.value_and_grad (base states)",
    "three moduli sets (E, nu) = (1, 0.3), (1e-2, 0), (1e6, 0.49); Gent (K, mu from E, nu; Jm = 50, 3, 200); J2: linear "
    "hardening H = 0.1 E and yield strength 10 E, so that every deformation of the alphabet is in the elastic regime "
    "(measured with the J2 reference model; a yielding case would be excluded and counted); viscoelastic: G_neq = "
    "G (1, 5, 0.1), tau = (1, 1e-2, 1e3), three branches G_neq,k = k G_neq, tau_k = tau (0.1, 1, 10), evaluated from the "
    "virgin state over a step dt = tau (1e-3, 1, 1e2); phase field: Gc = 1e-2 E, l = 0.1, zero phase gradient, phase "
    "(0, 0.25, 0.5) in the product and phase 0 (virgin) at rest",
    "Gent: deformations with (I1bar - 3)/Jm >= 0.9 are outside the model's domain: excluded and counted",
    "'linear' small-strain options (LinearElastic linear / default, J2 small deformations, PhaseFieldThreshold small "
    "deformations) are exempt from objectivity by the statement: rest state only; default options (key absent): rest state only",
    "x64, CPU; batched mode always in padded chunks of exactly 256 (pad = undeformed state)",
    "D11 classification by the measured relative gap of C = F^T F (<= 1e-6), same rule as C12",
    "evolved states: the internal states are those the REAL compute_state_new returns (single compiled calls; the update rule "
    "is not re-implemented and not judged here -- C09 / C11 do that; a non-finite successor is dropped and counted); the "
    "reference side supplies the pre-load and probing alphabets, the view of a state as viscous / plastic distortions per "
    "branch, the spectrum class of C_e = Fe^T Fe (Fe = F Fin^-1 per branch; C itself for Seth-Hill, whose state is additive), "
    "the coaxiality measure and the J2 yield side",
    "evolved states, constants: the three moduli sets of the product with their own time step (dt/tau = 1e-3, 1, 1e2: the "
    "probing step spans instantaneous to relaxed response); pre-load steps dt = (0.1, 10) tau (multi-branch: tau of the middle "
    "branch, so the branches see dt/tau_k from 0.01 to 100); J2: yield strength 0.02 E (instead of 10 E) and hardening 0.1 E, so "
    "that every pre-load target is beyond yield from the virgin state (a later step can be elastic unloading: it returns the "
    "state unchanged and merges; flow / no flow is measured on the returned state and counted) and probes fall on both sides "
    "of the yield switch",
    "evolved states, J2: the energy at (H, state) includes the implicit radial-return update; objectivity must still hold "
    "because the trial elastic strain is objective. Probes with |trial Mises - flow stress - 1e-10 Y0| <= 1e-6 Y0 for F or any "
    "QF, or with F and QF on different sides (J2 reference model on the real state), are excluded and counted; the 'hold' "
    "probe (deformation of the last pre-load step: the committed state sits on the yield surface to the root tolerance 1e-10 Y0) "
    "is such a probe for every J2 state, so the exclusion is exercised; for the viscous models 'hold' is judged like any probe",
    "evolved states: W(FQ; state) = W(F; state) is NOT demanded (the internal state lives in the reference frame); if the "
    "virgin-state product of an option has an ordinary violation its evolved exploration is skipped",
    "evolved states, batched mode: one internal state per row, padding rows = undeformed virgin state, same chunk length 256",
]
TAU_REL = 1e-10
TAU_ABS = 1e-12
TAU_REST = 1e-14
TAU_EIG = 1e-7
TOLERANCES = {
    "|W(QF)-W(F)|, |W(FQ)-W(F)|": "<= 1e-10 |W(F)| + 1e-12 M c, M = sum of the moduli, c = 1 for energies written in "
                                  "invariants of F (I1bar - 3, log det F: absolute rounding eps M) and c = max|log stretch| "
                                  "for energies written in a strain tensor (rounding eps M |strain|). Worst observed "
                                  "single-call over both tiers, seeds 0-4: 7.1e-3 of the tolerance (repeated stretches), "
                                  "2.2e-4 (distinct); relative part 3.6e-14 |W|; absolute part 8.8e-16 M (invariant "
                                  "type), 1.6e-14 M |strain| (strain type). A non-objective energy changes W by O(1) |W|.",
    "Kirchhoff stress |P F^T - F P^T|_F": "<= 1e-10 |P|_F |F|_F + 1e-12 M |F|_F^2 (worst observed 1.1e-4 of the tolerance, "
                                          "1.5e-16 (|P||F| + M|F|^2))",
    "W from value_and_grad vs W from the energy-only program": "same tolerance as the invariance (worst 1.1e-3 of it)",
    "eigen-solver accuracy term (models built on eigen_sym33_unit, relative gap of C <= 1e-6 only)":
        "+ 1e-7 (lam_max/lam_min)^2 max|log stretch| M on both tolerances (C12: the closed-form solver resolves a nearly "
        "repeated pair to 4.7e-10 |C| at worst; observed here 1.7e-9 |W| for F = diag(1-1e-8, 1+1e-8, 10) turned by 45 degrees)",
    "rest state |W(0)|, max|dW/dH(0)|": "<= 1e-14 M (exact zero expected; observed exactly 0 for 92 of 102 rest cases, "
                                        "1.04e-16 M otherwise)",
    "D11 classification": "relative gap of C = F^T F <= 1e-6; decision tie: margin <= 1e-6 in the float64 replica",
    "evolved states |W(QF; state) - W(F; state)|": "same form: <= 1e-10 |W(F)| + 1e-12 M c (+ eigen-solver term when the relative "
        "gap of C_e <= 1e-6, with stretch ratio and log stretch of Fe), c = 1 (viscous models, invariant type) / max|log "
        "stretch of F| + max|log stretch of Fe| (J2 finite) / max|log stretch of F| + max|plastic strain| (Seth-Hill). "
        "Worst observed single-call, quick seeds 0-2 and thorough seed 0: 7.5e-4 of the tolerance (separated spectrum of C_e), "
        "4.6e-6 (repeated); relative part 2.9e-14 |W| (W > 1e-2 M); absolute part 1.8e-13 M (invariant type), 4.6e-14 M c "
        "(strain type); W(value_and_grad) vs W(energy) 3.3e-5 of the tolerance. Batched, separated spectrum: the same numbers",
    "evolved states Kirchhoff stress |P F^T - F P^T|_F": "same as at the virgin state (worst observed 1.5e-5 of the tolerance, "
        "1.9e-16 (|P||F| + M|F|^2))",
    "evolved states, effect of a frame-dependent elastic strain": "Fe = Fin^-1 F instead of F Fin^-1 (seeded change C08-2 and "
        "the three mutants c08_evolved_*) changes W by O(1) |W| and makes the Kirchhoff stress unsymmetric by O(1) |P||F|: "
        ">= 10 orders above the tolerance",
    "evolved states, J2 yield-switch band": "1e-6 Y0 around the library's test trial Mises - flow stress > 1e-10 Y0",
    "evolved states, state de-duplication": "internal state rounded to 1e-10 (all tolerances above are coarser in the state)",
}

D11_KEY = "eigen_sym33_unit|batched|near-repeated-spectrum"
D3_KEY = "J2Plastic|kinematics=seth hill|virgin-state|nonzero-energy-or-nan"
TIE_KEY = "eigen_sym33_unit|batched|branch-decision-tie"
BATCH = 256
MAX_RECORDS_PER_KEY = 10
J2_EVOLVED_YIELD = 0.02          # yield strength / E of the J2 models in the evolved-state exploration
YIELD_SWITCH_BAND = 1e-6         # |trial Mises - flow stress| / Y0 below which a probe is 'on the yield switch'

# (model, option label, kind, cancellation class, relative compile weight)
OPTIONS = [
    ("MultiBranchHyperViscoelastic", "-", "finite", "invariant", 9),
    ("HyperViscoelastic", "-", "finite", "invariant", 6),
    ("J2Plastic", "kinematics=large deformations", "finite", "strain", 8),
    ("J2Plastic", "kinematics=seth hill", "finite", "strain", 7),
    ("PhaseFieldThreshold", "kinematics=large deformations", "finite", "strain", 4),
    ("LinearElastic", "strain measure=logarithmic", "finite", "strain", 4),
    ("Gent", "-", "finite", "invariant", 2),
    ("Neohookean", "version=adagio", "finite", "invariant", 2),
    ("Neohookean", "version=coupled", "finite", "invariant", 2),   # log(det F): absolute rounding eps*mu
    ("LinearElastic", "strain measure=green lagrange", "finite", "strain", 2),
    ("J2Plastic", "kinematics=small deformations", "linear", "strain", 3),
    ("J2Plastic", "kinematics=default", "default", "strain", 5),
    # rate-sensitive J2 (power-law kinetic potential), rest state only: the potential must vanish without plastic flow for
    # every time step (a seeded change that left a constant ~dt in the elastic branch went undetected)
    ("J2Plastic", "kinematics=small deformations;rate", "linear", "strain", 3),
    ("J2Plastic", "kinematics=large deformations;rate", "default", "strain", 6),
    ("PhaseFieldThreshold", "kinematics=small deformations", "linear", "strain", 1),
    ("PhaseFieldThreshold", "kinematics=default", "default", "strain", 2),
    ("LinearElastic", "strain measure=linear", "linear", "strain", 1),
    ("LinearElastic", "strain measure=default", "default", "strain", 1),
    ("Neohookean", "version=default", "default", "invariant", 1),
]


def option_name(model, opt):
    return model if opt == "-" else "%s|%s" % (model, opt)


def bounds(tier):
    from mc.ref import material_ref as R
    defs = R.deformations(tier, 0)
    return {"options_full_product": [option_name(m, o) for m, o, k, _, _ in OPTIONS if k == "finite"],
            "options_rest_state_only": [option_name(m, o) for m, o, k, _, _ in OPTIONS if k != "finite"],
            "moduli_sets": [l for l, _, _ in R.MODULI], "deformation_gradients": len(defs),
            "stretches": [l for l, _ in R.STRETCHES], "in_plane_axes": [l for l, _ in R.THETAS],
            "rotations": len(R.rotations(0)), "sides": ["QF", "FQ"],
            "execution_modes": ["single", "batched(chunk %d, padded)" % BATCH], "d11_gap_threshold": 1e-6,
            "evolved_states": {
                "models": [option_name(m, o) for m, o, k, _, _ in OPTIONS if k == "finite" and Model(m, o).has_state],
                "bfs_depth": _depth(tier), "state_canon_rounding": R.CANON_STATE,
                "preload_actions_viscous": ["%s@dt/tau=%s" % (l, rl) for l, _ in R.preload_targets_visco()
                                            for rl, _ in R.PRELOAD_DT_RATIOS],
                "preload_actions_j2": [l for l, _ in R.preload_targets_j2(1.0)],
                "histories_per_model_and_moduli_set": sum(6 ** d for d in range(1, _depth(tier) + 1)),
                "probing_deformations": len(R.probe_deformations(tier, 0)) + 1, "rotations": len(R.rotations(0)),
                "sides": ["QF"], "j2_yield_strength_over_E": J2_EVOLVED_YIELD, "j2_yield_switch_band": YIELD_SWITCH_BAND}}


def groups(tier, seed):
    gs = []
    for m, o, k, c, w in OPTIONS:
        if k == "finite":
            gs.append({"name": option_name(m, o), "options": [[m, o, k, c]], "weight": w})
    rest = [[m, o, k, c] for m, o, k, c, w in OPTIONS if k != "finite"]
    for r in rest:
        if r[0] == "J2Plastic":          # one compilation each, tens of seconds
            gs.append({"name": "rest-only:" + option_name(r[0], r[1]), "options": [r], "weight": 3})
    gs.append({"name": "rest-only:others", "options": [r for r in rest if r[0] != "J2Plastic"], "weight": 3})
    gs.sort(key=lambda g: -g["weight"])
    return gs


# ----------------------------------------------------------------------------------------------------
# the real models, with the material constants as traced runtime arguments (shared with C10)
# ----------------------------------------------------------------------------------------------------

class Model:
    """energy(H, s, dt, p) / update(H, s, dt, p) call the library; p is a flat vector of material constants."""

    def __init__(self, model, opt, law="linear", rate=False):
        self.name = option_name(model, opt)
        if opt.endswith(";rate"):
            opt, rate = opt[:-len(";rate")], True
        self.model, self.opt, self.law, self.rate = model, opt, law, rate
        self.has_state = model in ("J2Plastic", "HyperViscoelastic", "MultiBranchHyperViscoelastic")
        self.eigen_based = not (model in ("Neohookean", "Gent") or opt in ("strain measure=linear", "strain measure=default",
                                                                          "strain measure=green lagrange",
                                                                          "kinematics=small deformations"))

    def _optval(self):
        return self.opt.split("=", 1)[1] if "=" in self.opt else None

    def _create(self, p):
        m, v = self.model, self._optval()
        if m == "LinearElastic":
            from optimism.material import LinearElastic as L
            props = {"elastic modulus": p[0], "poisson ratio": p[1]}
            if v != "default":
                props["strain measure"] = v
            return L.create_material_model_functions(props)
        if m == "Neohookean":
            from optimism.material import Neohookean as L
            props = {"elastic modulus": p[0], "poisson ratio": p[1]}
            if v != "default":
                props["version"] = v
            return L.create_material_model_functions(props)
        if m == "Gent":
            from optimism.material import Gent as L
            return L.create_material_functions({"bulk modulus": p[0], "shear modulus": p[1], "Jm parameter": p[2]})
        if m == "J2Plastic":
            from optimism.material import J2Plastic as L
            props = {"elastic modulus": p[0], "poisson ratio": p[1], "yield strength": p[2], "hardening model": self.law}
            if self.law == "linear":
                props["hardening modulus"] = p[3]
            elif self.law == "voce":
                props["saturation strength"] = p[3]
                props["reference plastic strain"] = p[4]
            else:
                props["hardening exponent"] = p[3]
                props["reference plastic strain"] = p[4]
            if self.rate:
                props["rate sensitivity"] = "power law"
                props["rate sensitivity stress"] = p[5]
                props["rate sensitivity exponent"] = p[6]
                props["reference plastic strain rate"] = p[7]
            if v != "default":
                props["kinematics"] = v
            return L.create_material_model_functions(props)
        if m == "HyperViscoelastic":
            from optimism.material import HyperViscoelastic as L
            return L.create_material_model_functions({"equilibrium bulk modulus": p[0], "equilibrium shear modulus": p[1],
                                                      "non equilibrium shear modulus": p[2], "relaxation time": p[3]})
        if m == "MultiBranchHyperViscoelastic":
            from optimism.material import MultiBranchHyperViscoelastic as L
            props = {"equilibrium bulk modulus": p[0], "equilibrium shear modulus": p[1]}
            for k in range(3):
                props["non equilibrium shear modulus %d" % (k + 1)] = p[2 + 2 * k]
                props["relaxation time %d" % (k + 1)] = p[3 + 2 * k]
            return L.create_material_model_functions(props)
        if m == "PhaseFieldThreshold":
            from optimism.phasefield import PhaseFieldThreshold as L
            props = {"elastic modulus": p[0], "poisson ratio": p[1], "critical energy release rate": p[2],
                     "regularization length": p[3]}
            if v != "default":
                props["kinematics"] = v
            return L.create_material_model_functions(props)
        raise KeyError(m)

    def energy(self, H, s, dt, p):
        mat = self._create(p)
        if self.model == "PhaseFieldThreshold":
            import jax.numpy as jnp
            return mat.compute_energy_density(H, p[4], jnp.zeros(3), s, dt)
        return mat.compute_energy_density(H, s, dt)

    def update(self, H, s, dt, p):
        return self._create(p).compute_state_new(H, s, dt)

    def initial_state(self):
        """The library's own virgin state (concrete constants; the state does not depend on them)."""
        p = onp.ones(8)
        p[1] = 0.3
        mat = self._create(p)
        return onp.asarray(mat.compute_initial_state(), dtype=float).reshape(-1)

    # -- constants for moduli set i of mc.ref.material_ref.MODULI (C08 sets: elastic regime for J2) --------
    def constants(self, i):
        """-> (p, dt, M) : parameter vector, time step, modulus scale (sum of moduli)."""
        from mc.ref import material_ref as R
        _, E, nu = R.MODULI[i]
        mu, kap = R.lame(E, nu)
        m = self.model
        if m in ("LinearElastic", "Neohookean"):
            return onp.array([E, nu]), 1.0, kap + mu
        if m == "Gent":
            return onp.array([kap, mu, (50.0, 3.0, 200.0)[i]]), 1.0, kap + mu
        if m == "J2Plastic":
            if self.rate:
                return onp.array([E, nu, 10.0 * E, 0.1 * E, 0.0, 0.1 * E, 2.0, 0.1]), (1e-3, 1.0, 50.0)[i], kap + mu
            return onp.array([E, nu, 10.0 * E, 0.1 * E, 0.0, 0.0, 0.0, 0.0]), 1.0, kap + mu
        f = (1.0, 5.0, 0.1)[i]
        tau = (1.0, 1e-2, 1e3)[i]
        dt = tau * (1e-3, 1.0, 1e2)[i]
        if m == "HyperViscoelastic":
            return onp.array([kap, mu, f * mu, tau]), dt, kap + mu + f * mu
        if m == "MultiBranchHyperViscoelastic":
            p = [kap, mu]
            for k in range(3):
                p += [(k + 1) * f * mu, tau * (0.1, 1.0, 10.0)[k]]
            return onp.array(p), dt, kap + mu + 6.0 * f * mu
        if m == "PhaseFieldThreshold":
            return onp.array([E, nu, 1e-2 * E, 0.1, (0.0, 0.25, 0.5)[i]]), 1.0, kap + mu
        raise KeyError(m)


    # -- evolved internal states: constants and the pre-load action alphabet of the E-BFS (C08 only) ------
    def constants_evolved(self, i):
        """-> (p, dt, M, actions): as constants(i) (J2: a yield strength that the pre-loads exceed), and the pre-load
        actions [(label, target displacement gradient, step size of the real compute_state_new)]."""
        from mc.ref import material_ref as R
        p, dt, M = self.constants(i)
        if self.model == "J2Plastic":
            p = p.copy()
            p[2] = J2_EVOLVED_YIELD * p[0]
            mu, _ = R.lame(p[0], p[1])
            ey = p[2] / (2.0 * mu)                      # yield strain in uniaxial strain (Mises stress = 2 mu e)
            return p, dt, M, [(l, H, dt) for l, H in R.preload_targets_j2(ey)]
        tau = p[3] if self.model == "HyperViscoelastic" else p[5]
        acts = [("%s@dt/tau=%s" % (l, rl), H, r * tau) for l, H in R.preload_targets_visco()
                for rl, r in R.PRELOAD_DT_RATIOS]
        return p, dt, M, acts


class Programs:
    """The two program shapes (energy alone, value_and_grad) of one model in both execution modes."""

    def __init__(self, mdl):
        import jax
        self.mdl = mdl
        self.w1 = jax.jit(mdl.energy)
        self.wB = jax.jit(jax.vmap(mdl.energy, (0, 0, None, None)))
        vg = jax.value_and_grad(mdl.energy, 0)
        self.vg1 = jax.jit(vg)
        self.vgB = jax.jit(jax.vmap(vg, (0, 0, None, None)))

    @staticmethod
    def _chunks(fB, H, s0, dt, p, nout, pad=None):
        """fB over H (n,3,3) in padded chunks of BATCH; returns list of arrays (n, ...) or raises.  s0 is one internal
        state for all rows, or (n, nstate) one state per row (then `pad` = the virgin state fills the padding rows)."""
        n = H.shape[0]
        outs = [[] for _ in range(nout)]
        s0 = onp.asarray(s0, dtype=float)
        per_row = s0.ndim == 2
        S = onp.tile(pad if per_row else s0, (BATCH, 1))
        for a in range(0, n, BATCH):
            blk = H[a:a + BATCH]
            Hc = onp.zeros((BATCH, 3, 3))
            Hc[:blk.shape[0]] = blk
            if per_row:
                S = onp.tile(pad, (BATCH, 1))
                S[:blk.shape[0]] = s0[a:a + BATCH]
            r = fB(Hc, S, dt, p)
            r = r if isinstance(r, tuple) else (r,)
            for k in range(nout):
                outs[k].append(onp.asarray(r[k], dtype=float)[:blk.shape[0]])
        return [onp.concatenate(o, axis=0) for o in outs]

    def energies(self, mode, H, s0, dt, p):
        if mode == "batched":
            return self._chunks(self.wB, H, s0, dt, p, 1)[0]
        return onp.array([float(self.w1(h, s0, dt, p)) for h in H])

    def energies_and_stresses(self, mode, H, s0, dt, p):
        if mode == "batched":
            return self._chunks(self.vgB, H, s0, dt, p, 2)
        W, P = [], []
        for h in H:
            w, g = self.vg1(h, s0, dt, p)
            W.append(float(w))
            P.append(onp.asarray(g, dtype=float))
        return onp.array(W), onp.stack(P)

    # -- the same two program shapes with one internal state per row (evolved states) -----------------
    def energies_at(self, mode, H, S, dt, p):
        if mode == "batched":
            return self._chunks(self.wB, H, S, dt, p, 1, pad=self.mdl.s0)[0]
        return onp.array([float(self.w1(h, s, dt, p)) for h, s in zip(H, S)])

    def energies_and_stresses_at(self, mode, H, S, dt, p):
        if mode == "batched":
            return self._chunks(self.vgB, H, S, dt, p, 2, pad=self.mdl.s0)
        W, P = [], []
        for h, s in zip(H, S):
            w, g = self.vg1(h, s, dt, p)
            W.append(float(w))
            P.append(onp.asarray(g, dtype=float))
        return onp.array(W), onp.stack(P)


# ----------------------------------------------------------------------------------------------------
# group driver
# ----------------------------------------------------------------------------------------------------

def _libkey(e):
    """Finding signature of an exception raised by library code; harness bugs are re-raised (HARNESS-ERROR)."""
    from mc.runner import exception_key
    k = exception_key(e)
    if k.endswith("@harness"):
        raise e
    return k


def _violation(rec, key, cid, det):
    seen = rec.__dict__.setdefault("_c08_perkey", {})
    seen[key] = seen.get(key, 0) + 1
    rec.branch("finding-count:" + key)
    if seen[key] <= MAX_RECORDS_PER_KEY or rec.only is not None:
        rec.violation(key, cid, det)


def run_group(g, tier, seed, rec):
    import warnings
    with warnings.catch_warnings():
        warnings.simplefilter("ignore")
        for model, opt, kind, cancel in g["options"]:
            _run_option(model, opt, kind, cancel, tier, seed, rec)


def _rest_state(mdl, prog, kind, rec):
    """W(0) = 0 and dW/dH(0) = 0 at the virgin state, every moduli set, both modes. Returns True if sound."""
    from mc.ref import material_ref as R
    from mc.runner import exception_key
    s0 = mdl.s0
    sound = True
    for i, (ml, _, _) in enumerate(R.MODULI):
        p, dt, M = mdl.constants(i)
        if mdl.model == "PhaseFieldThreshold":
            p = p.copy()
            p[4] = 0.0                                  # virgin: no damage
        for mode in ("single", "batched"):
            cid = "model=%s;mod=%s;F=rest;mode=%s" % (mdl.name, ml, mode)
            if not rec.want(cid):
                continue
            key = "%s|%s|virgin-state|nonzero-energy-or-nan" % (mdl.model, mdl.opt) if mdl.opt != "-" else \
                  "%s|virgin-state|nonzero-energy-or-nan" % mdl.model
            try:
                W, P = prog.energies_and_stresses(mode, onp.zeros((1, 3, 3)), s0, dt, p)
                W0 = prog.energies(mode, onp.zeros((1, 3, 3)), s0, dt, p)
            except Exception as e:  # noqa
                _violation(rec, "%s|%s|virgin-state|%s" % (mdl.model, mdl.opt, _libkey(e)), cid, {"error": repr(e)[:400]})
                rec.case(cid, nontrivial=False, outcome="exception")
                sound = False
                continue
            w, w0, pm = float(W[0]), float(W0[0]), float(onp.abs(P[0]).max()) if onp.all(onp.isfinite(P[0])) else float("nan")
            ok = (abs(w) <= TAU_REST * M) and (abs(w0) <= TAU_REST * M) and (pm <= TAU_REST * M)
            rec.track_max("rest|%s|max(|W|,|P|)/M" % mode, max(abs(w), abs(w0), pm) / M if ok else 0.0)
            rec.branch("rest-state:%s:%s" % (kind, "exactly zero" if (w == 0.0 and w0 == 0.0 and pm == 0.0) else
                                             ("within 1e-14 M" if ok else "BROKEN")))
            if not ok:
                sound = False
                _violation(rec, key, cid, {"dispGrad": onp.zeros((3, 3)), "state": s0, "constants": p, "dt": dt,
                                           "energy_observed": w, "energy_observed_energy_only_program": w0,
                                           "stress_observed": P[0], "modulus_scale": M,
                                           "expected": "energy 0, stress 0 at the undeformed virgin state"})
            rec.case(cid, nontrivial=False, outcome="rest:%s" % ("ok" if ok else "broken"), steps=2,
                     sample=({"case": cid, "energy": w, "max|stress|": pm} if i == 0 and mode == "single" else None))
    return sound


def _run_option(model, opt, kind, cancel, tier, seed, rec):
    from mc.ref import material_ref as R
    from mc.runner import exception_key
    from mc.core import stable_hash

    mdl = Model(model, opt)
    try:
        mdl.s0 = mdl.initial_state()
        prog = Programs(mdl)
    except Exception as e:  # noqa
        rec.violation("%s|%s|construct|%s" % (model, opt, _libkey(e)), "model=%s;construct" % mdl.name,
                      {"error": repr(e)[:400]})
        return
    sound = _rest_state(mdl, prog, kind, rec)
    if kind != "finite":
        return
    if not sound:
        rec.branch("product skipped: rest state of %s is broken" % mdl.name)
        return

    defs = R.deformations(tier, seed)
    rots = R.rotations(seed)
    nF, nQ = len(defs), len(rots)
    F = onp.stack([f for _, _, f in defs])
    Q = onp.stack([q for _, q in rots])
    info = R.stretch_info(F)
    cls = [R.stretch_class(info["gap"][k], info["gap2"][k]) for k in range(nF)]
    normF = R.fro(F)
    QF = onp.einsum("qij,fjk->fqik", Q, F)
    FQ = onp.einsum("fij,qjk->fqik", F, Q)
    Hall = onp.concatenate([(F - R.I3)[:, None], QF - R.I3, FQ - R.I3], axis=1)        # (nF, 1+2nQ, 3, 3)
    j2ref = None
    if model == "J2Plastic":
        from mc.ref.j2_ref import J2Ref
    s0 = mdl.s0

    for i, (ml, _, _) in enumerate(R.MODULI):
        p, dt, M = mdl.constants(i)
        # ---- admissibility (reference side, from the inputs only) -------------------------------------------
        adm = onp.ones(nF, dtype=bool)
        if model == "Gent":
            adm = R.gent_ratio(F, p[2]) < 0.9
        if model == "J2Plastic":
            kin = {"kinematics=large deformations": "large", "kinematics=seth hill": "seth hill"}[opt]
            j2ref = J2Ref(p[0], p[1], p[2], "linear", {"H": p[3]}, kin=kin)
            mis = j2ref.measures(F - R.I3, onp.tile(j2ref.virgin(), (nF, 1)))["mises"]
            adm = mis < p[2] * (1.0 - 1e-6)
            rec.track_max("J2 elastic regime: largest trial Mises stress / yield strength", float(mis.max() / p[2]))
        for k in onp.nonzero(~adm)[0]:
            rec.branch("excluded: outside the model's admissible / elastic domain (%s)" % model)
        idx = onp.nonzero(adm)[0]
        Hs = Hall[idx].reshape(-1, 3, 3)
        per = 1 + 2 * nQ

        res = {}
        for mode in ("single", "batched"):
            try:
                Wm = prog.energies(mode, Hs, s0, dt, p).reshape(len(idx), per)
                Wb, Pb = prog.energies_and_stresses(mode, Hall[idx, 0], s0, dt, p)
                res[mode] = (Wm, Wb, Pb)
            except Exception as e:  # noqa   (library raised on admissible input; no per-case attribution in a batch)
                _violation(rec, "%s|%s|%s|%s" % (model, opt, mode, _libkey(e)),
                           "model=%s;mod=%s;mode=%s" % (mdl.name, ml, mode), {"error": repr(e)[:600]})
                res[mode] = None
        if res["single"] is None and res["batched"] is None:
            continue

        # ---- judge -----------------------------------------------------------------------------------------
        c_abs = onp.ones(nF) if cancel == "invariant" else (info["logmax"] + 1e-16)
        # closed-form eigen-solver: eigenvalues of a tensor with a (nearly) repeated pair are accurate to ~5e-10 |C|
        # (C12: worst 4.7e-10 at relative gap 1e-9, 45 degrees in-plane; tolerance 1e-7 there), i.e. the logarithmic /
        # power strain to 1e-7 (lam_max/lam_min)^2 at most: a-priori term for that input class
        eig_term = onp.where((info["gap"] <= 1e-6) & mdl.eigen_based,
                             TAU_EIG * (info["lam_max"] / info["lam"][:, 0]) ** 2 * (info["logmax"] + 1e-16), 0.0)
        judged = {}
        for mode in ("single", "batched"):
            if res[mode] is None:
                continue
            Wm, Wb, Pb = res[mode]
            W0 = Wm[:, 0]
            tolW = TAU_REL * onp.abs(W0) + TAU_ABS * M * c_abs[idx] + M * eig_term[idx]
            with onp.errstate(all="ignore"):
                dL = onp.abs(Wm[:, 1:1 + nQ] - W0[:, None])
                dR = onp.abs(Wm[:, 1 + nQ:] - W0[:, None])
                Kt = Pb @ onp.swapaxes(F[idx], -1, -2)
                asym = R.fro(Kt - onp.swapaxes(Kt, -1, -2))
                tolK = TAU_REL * R.fro(Pb) * normF[idx] + (TAU_ABS + eig_term[idx]) * M * normF[idx] ** 2
                dvg = onp.abs(Wb - W0)
            okL = dL <= tolW[:, None]           # False for NaN
            okR = dR <= tolW[:, None]
            okK = (asym <= tolK) & (dvg <= tolW)
            judged[mode] = (Wm, Wb, Pb, W0, tolW, dL, dR, okL, okR, asym, tolK, okK, dvg)

        for mode in ("single", "batched"):
            if mode not in judged:
                continue
            Wm, Wb, Pb, W0, tolW, dL, dR, okL, okR, asym, tolK, okK, dvg = judged[mode]
            sj = judged.get("single")
            for a, k in enumerate(idx):
                dl, kind_d, _ = defs[k]
                nontriv = bool(cls[k] != "distinct" or info["lam_max"][k] >= 2.0)
                decade = "|log stretch|<1e-3" if info["logmax"][k] < 1e-3 else ("<0.5" if info["logmax"][k] < 0.5 else ">=0.5")
                # -- Kirchhoff stress / base state --
                cid = "model=%s;mod=%s;F=%s;Q=-;mode=%s" % (mdl.name, ml, dl, mode)
                if rec.want(cid):
                    if okK[a]:
                        rc = "distinct" if cls[k] == "distinct" else "repeated"
                        rec.track_max("kirchhoff|%s|%s|asymmetry/tolerance" % (mode, rc), asym[a] / tolK[a])
                        rec.track_max("kirchhoff|%s|%s|asymmetry/(|P||F| + M|F|^2)" % (mode, rc),
                                      asym[a] / (R.fro(Pb[a]) * normF[k] + M * normF[k] ** 2))
                        rec.track_max("programs|%s|%s||W(value_and_grad) - W(energy)|/tolerance" % (mode, rc), dvg[a] / tolW[a])
                        outcome = "ok:kirchhoff:%s:%s" % (cls[k], decade)
                    else:
                        sig = "nan" if not (onp.isfinite(asym[a]) and onp.isfinite(dvg[a])) else (
                            "kirchhoff-unsymmetric" if not asym[a] <= tolK[a] else "energy-differs-between-programs")
                        outcome = _report(rec, mdl, mode, cid, cls[k], info["gap"][k], sig,
                                          single_ok=(None if sj is None else bool(sj[11][a])),
                                          detail={"F": F[k], "constants": p, "dt": dt, "state": s0, "stress": Pb[a],
                                                  "kirchhoff_asymmetry": asym[a], "tolerance": tolK[a],
                                                  "W_value_and_grad": Wb[a], "W_energy_program": W0[a]})
                    rec.branch("mode:" + mode)
                    rec.case(cid, nontrivial=nontriv, outcome=outcome, steps=1)
                # -- superposed rotations --
                for q in range(nQ):
                    cid = "model=%s;mod=%s;F=%s;Q=%s;mode=%s" % (mdl.name, ml, dl, rots[q][0], mode)
                    if not rec.want(cid):
                        continue
                    if okL[a, q] and okR[a, q]:
                        d = max(dL[a, q], dR[a, q])
                        rc = "distinct" if cls[k] == "distinct" else "repeated"
                        rec.track_max("invariance|%s|%s|dW/tolerance" % (mode, rc), d / tolW[a])
                        if info["logmax"][k] >= 0.25:
                            rec.track_max("invariance|%s|%s|dW/|W| (|log stretch|>=0.25)" % (mode, rc), d / abs(W0[a]))
                        else:
                            rec.track_max("invariance|%s|%s|%s|dW/(M c) (|log stretch|<0.25)" % (mode, rc, cancel),
                                          d / (M * c_abs[k]))
                        outcome = "ok:%s:%s" % (cls[k], decade)
                    else:
                        fin = onp.isfinite(dL[a, q]) and onp.isfinite(dR[a, q])
                        sig = "nan" if not fin else "+".join(
                            s for s, o in (("not-objective(QF)", okL[a, q]), ("not-isotropic(FQ)", okR[a, q])) if not o)
                        outcome = _report(rec, mdl, mode, cid, cls[k], info["gap"][k], sig,
                                          single_ok=(None if sj is None else bool(sj[7][a, q] and sj[8][a, q])),
                                          detail={"F": F[k], "Q": Q[q], "constants": p, "dt": dt, "state": s0,
                                                  "W(F)": W0[a], "W(QF)": Wm[a, 1 + q], "W(FQ)": Wm[a, 1 + nQ + q],
                                                  "tolerance": tolW[a]})
                    samp = None
                    if mode == "single" and stable_hash("%d|%s" % (seed, cid)) % 4999 == 0:
                        samp = {"case": cid, "F": F[k], "Q": Q[q], "W(F)": W0[a], "W(QF)": Wm[a, 1 + q],
                                "W(FQ)": Wm[a, 1 + nQ + q]}
                    rec.case(cid, nontrivial=nontriv, outcome=outcome, steps=2, sample=samp)
                rec.branch("deformation:%s:%s" % (kind_d, cls[k]))

    # ---- the same objectivity / Kirchhoff clauses at EVOLVED internal states -----------------------------------
    if mdl.has_state:
        if rec.__dict__.get("_c08_ordinary", {}).get(mdl.name, 0):
            rec.branch("evolved states skipped: the virgin-state product of %s already has an ordinary violation" % mdl.name)
        else:
            _run_evolved(mdl, prog, cancel, tier, seed, rec)


def _depth(tier):
    return 2 if tier == "quick" else 3


def _explore(mdl, upd1, acts, p, maxd, ml, rec):
    """E-BFS on the REAL compute_state_new from the virgin state (single compiled calls, as C10: nothing of D11 can leak
    into the states), all action histories up to depth maxd, successors de-duplicated on the internal state rounded to 1e-10.
    Returns [(history label, state, last pre-load target)] of the distinct non-virgin states, in discovery order."""
    from mc.ref import material_ref as R

    def canon(x):
        return tuple(onp.rint(x / R.CANON_STATE).astype(onp.int64).tolist())
    s0 = mdl.s0
    seen = {canon(s0)}
    rec.state(repr((mdl.name, ml) + canon(s0)))
    frontier = [("", s0)]
    found = []
    for depth in range(1, maxd + 1):
        nxt = []
        for hl, st in frontier:
            for al, Ht, dtp in acts:
                lab = al if not hl else hl + ">" + al
                try:
                    s1 = onp.asarray(upd1(Ht, st, dtp, p), dtype=float).reshape(-1)
                except Exception as e:  # noqa
                    _violation(rec, "%s|update|%s" % (mdl.name, _libkey(e)), "model=%s;mod=%s;hist=%s" % (mdl.name, ml, lab),
                               {"error": repr(e)[:400], "dispGrad": Ht, "state": st, "dt": dtp, "constants": p})
                    continue
                rec.transition()
                if s1.shape != s0.shape or not onp.all(onp.isfinite(s1)):
                    rec.branch("bfs:non-finite state dropped (judged by C09 / C11)")
                    continue
                rec.branch("bfs:pre-load step %s" % ("changed the internal state (flow)" if onp.abs(s1 - st).max() > 1e-10
                                                     else "left the internal state unchanged"))
                k = canon(s1)
                if k in seen:
                    rec.branch("bfs:dedup-merged")
                    continue
                seen.add(k)
                rec.state(repr((mdl.name, ml) + k))
                rec.depth(depth)
                found.append((lab, s1, Ht))
                nxt.append((lab, s1))
        frontier = nxt
    return found


def _run_evolved(mdl, prog, cancel, tier, seed, rec):
    """W(QF; state) = W(F; state) and symmetric Kirchhoff stress at every internal state reached by the E-BFS, both execution
    modes.  The right-rotation clause W(FQ) = W(F) is NOT demanded here: an internal state that lives in the reference
    frame legitimately breaks it."""
    import jax
    from mc.ref import material_ref as R
    from mc.core import stable_hash
    model, opt = mdl.model, mdl.opt
    upd1 = jax.jit(mdl.update)
    # probing alphabet: the fixed deformations plus, per state, 'hold' = the deformation of the last pre-load step (the point
    # at which a simulation evaluates the energy first after committing the state; for J2 it sits on the yield surface)
    probes = R.probe_deformations(tier, seed) + [("hold:last-pre-load-target", "hold", None)]
    rots = R.rotations(seed)
    nD, nQ = len(probes), len(rots)
    per = 1 + nQ
    Fcommon = onp.stack([f for _, _, f in probes[:-1]])
    Q = onp.stack([q for _, q in rots])
    j2ref = None
    if model == "J2Plastic":
        from mc.ref.j2_ref import J2Ref

    for i, (ml, _, _) in enumerate(R.MODULI):
        p, dt, M, acts = mdl.constants_evolved(i)
        states = _explore(mdl, upd1, acts, p, _depth(tier), ml, rec)
        rec.notes["evolved states:%s:%s" % (mdl.name, ml)] = len(states)
        if not states:
            rec.branch("evolved: no state other than the virgin one was reached (%s)" % mdl.name)
            continue
        nS = len(states)
        S = onp.stack([st for _, st, _ in states])
        F = onp.stack([onp.concatenate([Fcommon, (R.I3 + Ht)[None]]) for _, _, Ht in states])       # (nS, nD, 3, 3)
        Fall = onp.concatenate([F[:, :, None], onp.einsum("qij,sfjk->sfqik", Q, F)], axis=2)        # (nS, nD, per, 3, 3): F, QF
        infoF = R.stretch_info(F)
        normF = R.fro(F)
        how, X = R.state_parts(model, opt, S)                                             # (nS, nb, 3, 3)
        # ---- measured classes (reference side, from the inputs only) ------------------------------------------
        einfo = R.elastic_info(F, how, X[:, None])                                        # (nS, nD)
        gapE, gap2E = einfo["gap"], einfo["gap2"]
        noncoax = R.noncoaxiality(F, how, X[:, None])                                     # (nS, nD)
        moved = onp.abs(S - mdl.s0[None]).max(axis=1)                                     # (nS,)
        if how == "multiplicative":
            strain_scale = infoF["logmax"] + einfo["logmax"]
        else:
            strain_scale = infoF["logmax"] + onp.abs(X).max(axis=(-3, -2, -1))[:, None]
        c_abs = onp.ones((nS, nD)) if cancel == "invariant" else strain_scale + 1e-16
        eig_term = onp.where((gapE <= 1e-6) & mdl.eigen_based, TAU_EIG * einfo["ratio"] ** 2 * (einfo["logmax"] + 1e-16), 0.0)
        Hrows = Fall - R.I3
        Srows = onp.broadcast_to(S[:, None, None, :], (nS, nD, per, S.shape[1]))
        excluded = onp.zeros((nS, nD), dtype=bool)
        regime = onp.full((nS, nD), "relaxing", dtype=object)
        if model == "J2Plastic":
            kin = {"kinematics=large deformations": "large", "kinematics=seth hill": "seth hill"}[opt]
            j2ref = J2Ref(p[0], p[1], p[2], "linear", {"H": p[3]}, kin=kin)
            with onp.errstate(all="ignore"):
                mis = j2ref.measures(Hrows, Srows)["mises"]                               # (nS, nD, per)
            f = (mis - j2ref.Y(S[:, 0])[:, None, None] - 1e-10 * p[2]) / p[2]             # the library's yield test / Y0
            excluded = (~onp.all(onp.isfinite(f), axis=-1) | (onp.abs(f).min(axis=-1) <= YIELD_SWITCH_BAND)
                        | ((f.min(axis=-1) < 0.0) & (f.max(axis=-1) > 0.0)))
            regime = onp.where(f[..., 0] > 0.0, "yielding", "elastic").astype(object)
            rec.track_max("evolved|J2 probes: largest trial Mises stress / current flow stress",
                          float((mis[..., 0] / j2ref.Y(S[:, 0])[:, None]).max()))
            rec.notes["evolved J2 probes excluded at the yield switch:%s:%s" % (mdl.name, ml)] = int(excluded.sum())
            rec.branch("evolved: J2 probes excluded, F and QF within 1e-6 Y0 of / on different sides of the yield switch",
                       int(excluded.sum()))
            rec.branch("evolved: J2 probes judged", int((~excluded).sum()))

        # ---- run the real energy: all rotated states; value_and_grad at the base states ---------------------------
        Hflat, Sflat = Hrows.reshape(-1, 3, 3), Srows.reshape(-1, S.shape[1])
        Hbase, Sbase = Hrows[:, :, 0].reshape(-1, 3, 3), Srows[:, :, 0].reshape(-1, S.shape[1])
        res = {}
        for mode in ("single", "batched"):
            try:
                Wm = prog.energies_at(mode, Hflat, Sflat, dt, p).reshape(nS, nD, per)
                Wb, Pb = prog.energies_and_stresses_at(mode, Hbase, Sbase, dt, p)
                res[mode] = (Wm, Wb.reshape(nS, nD), Pb.reshape(nS, nD, 3, 3))
            except Exception as e:  # noqa   (library raised on admissible input; no per-case attribution in a batch)
                _violation(rec, "%s|%s|%s|%s" % (model, opt, mode, _libkey(e)),
                           "model=%s;mod=%s;state=evolved;mode=%s" % (mdl.name, ml, mode), {"error": repr(e)[:600]})
                res[mode] = None

        # ---- judge ---------------------------------------------------------------------------------------------------
        judged = {}
        for mode in ("single", "batched"):
            if res[mode] is None:
                continue
            Wm, Wb, Pb = res[mode]
            W0 = Wm[..., 0]
            tolW = TAU_REL * onp.abs(W0) + TAU_ABS * M * c_abs + M * eig_term
            with onp.errstate(all="ignore"):
                dL = onp.abs(Wm[..., 1:] - W0[..., None])
                Kt = Pb @ onp.swapaxes(F, -1, -2)
                asym = R.fro(Kt - onp.swapaxes(Kt, -1, -2))
                tolK = TAU_REL * R.fro(Pb) * normF + (TAU_ABS + eig_term) * M * normF ** 2
                dvg = onp.abs(Wb - W0)
            okL = dL <= tolW[..., None]             # False for NaN
            okK = (asym <= tolK) & (dvg <= tolW)
            judged[mode] = {"Wm": Wm, "Wb": Wb, "Pb": Pb, "W0": W0, "tolW": tolW, "dL": dL, "okL": okL, "asym": asym,
                            "tolK": tolK, "okK": okK, "dvg": dvg}
            # calibration numbers of the passing, judged cases (vectorised)
            live = ~excluded
            rep = gapE <= 1e-6
            for rc, sel in (("distinct", live & ~rep), ("repeated", live & rep)):
                mL = sel[..., None] & okL
                if mL.any():
                    rec.track_max("evolved|invariance|%s|%s|dW/tolerance" % (mode, rc),
                                  float((dL / tolW[..., None])[mL].max()))
                    with onp.errstate(all="ignore"):
                        rel = dL / onp.abs(W0)[..., None]
                    big = mL & (W0 > 1e-2 * M)[..., None]
                    if big.any():
                        rec.track_max("evolved|invariance|%s|%s|dW/|W| (W > 1e-2 M)" % (mode, rc), float(rel[big].max()))
                    rec.track_max("evolved|invariance|%s|%s|%s|dW/(M c)" % (mode, rc, cancel),
                                  float((dL / (M * c_abs)[..., None])[mL].max()))
                mK = sel & okK
                if mK.any():
                    rec.track_max("evolved|kirchhoff|%s|%s|asymmetry/tolerance" % (mode, rc), float((asym / tolK)[mK].max()))
                    rec.track_max("evolved|kirchhoff|%s|%s|asymmetry/(|P||F| + M|F|^2)" % (mode, rc),
                                  float((asym / (R.fro(Pb) * normF + M * normF ** 2))[mK].max()))
                    rec.track_max("evolved|programs|%s|%s||W(value_and_grad) - W(energy)|/tolerance" % (mode, rc),
                                  float((dvg / tolW)[mK].max()))

        def eig_tensors(a, k, q):
            out = []
            for nm, G in (("F", F[a, k]),) + ((("QF", Q[q] @ F[a, k]),) if q is not None else ()):
                Ce = R.elastic_info(G, how, X[a])["Ce"]
                out += [("Ce[branch %d](%s)" % (b, nm), Ce[b]) for b in range(Ce.shape[0])]
            return out

        for mode in ("single", "batched"):
            if mode not in judged:
                continue
            J = judged[mode]
            sj = judged.get("single")
            for a, (sl, st, _) in enumerate(states):
                for k, (dl, kind_d, _) in enumerate(probes):
                    if excluded[a, k]:
                        continue
                    clsE = R.stretch_class(gapE[a, k], gap2E[a, k])
                    coax = "non-coaxial" if noncoax[a, k] > 1e-6 else "coaxial"
                    nontriv = bool(moved[a] > 1e-10 and noncoax[a, k] > 1e-6)
                    label = "evolved:%s:%s:%s" % (clsE, coax, regime[a, k])
                    base = "model=%s;mod=%s;state=%s;F=%s" % (mdl.name, ml, sl, dl)
                    # -- Kirchhoff stress / base state --
                    cid = "%s;Q=-;mode=%s" % (base, mode)
                    if rec.want(cid):
                        if J["okK"][a, k]:
                            outcome = "ok:kirchhoff:" + label
                        else:
                            fin = onp.isfinite(J["asym"][a, k]) and onp.isfinite(J["dvg"][a, k])
                            sig = "nan" if not fin else ("kirchhoff-unsymmetric" if not J["asym"][a, k] <= J["tolK"][a, k]
                                                         else "energy-differs-between-programs")
                            outcome = _report(rec, mdl, mode, cid, clsE, gapE[a, k], sig,
                                              single_ok=(None if sj is None else bool(sj["okK"][a, k])),
                                              detail={"F": F[a, k], "constants": p, "dt": dt, "state": st, "state_history": sl,
                                                      "stress": J["Pb"][a, k], "kirchhoff_asymmetry": J["asym"][a, k],
                                                      "tolerance": J["tolK"][a, k], "W_value_and_grad": J["Wb"][a, k],
                                                      "W_energy_program": J["W0"][a, k], "noncoaxiality": noncoax[a, k]},
                                              tensors=lambda a=a, k=k: eig_tensors(a, k, None))
                        rec.branch("mode:" + mode)
                        rec.case(cid, nontrivial=nontriv, outcome=outcome, steps=1)
                    # -- superposed rotations (left only) --
                    okrow = J["okL"][a, k]
                    for q in range(nQ):
                        cid = "%s;Q=%s;mode=%s" % (base, rots[q][0], mode)
                        if not rec.want(cid):
                            continue
                        if okrow[q]:
                            outcome = "ok:" + label
                        else:
                            sig = "nan" if not onp.isfinite(J["dL"][a, k, q]) else "not-objective(QF)"
                            outcome = _report(rec, mdl, mode, cid, clsE, gapE[a, k], sig,
                                              single_ok=(None if sj is None else bool(sj["okL"][a, k, q])),
                                              detail={"F": F[a, k], "Q": Q[q], "constants": p, "dt": dt, "state": st,
                                                      "state_history": sl, "W(F)": J["W0"][a, k], "W(QF)": J["Wm"][a, k, 1 + q],
                                                      "tolerance": J["tolW"][a, k], "noncoaxiality": noncoax[a, k]},
                                              tensors=lambda a=a, k=k, q=q: eig_tensors(a, k, q))
                        samp = None
                        if mode == "single" and stable_hash("%d|%s" % (seed, cid)) % 19997 == 0:
                            samp = {"case": cid, "F": F[a, k], "Q": Q[q], "state": st, "W(F)": J["W0"][a, k],
                                    "W(QF)": J["Wm"][a, k, 1 + q]}
                        rec.case(cid, nontrivial=nontriv, outcome=outcome, steps=2, sample=samp)
                    rec.branch("evolved probe:%s:%s:%s" % (kind_d, clsE, coax))


def _report(rec, mdl, mode, cid, cls, gap, sig, single_ok, detail, tensors=None):
    """Execution-mode protocol; returns the outcome label.  `tensors` (evolved internal states): the labelled symmetric
    tensors the model hands to the eigen-solver for this case (C_e of every branch for F and QF), as a callable that is
    only evaluated when the classification needs them; `gap` is then their smallest relative gap.  None (virgin state): C = G^T G of F, QF and FQ."""
    evolved = tensors is not None
    detail = dict(detail, stretch_class=cls, single_call_passes=single_ok)
    detail["relative_gap_of_Ce" if evolved else "relative_gap_of_C"] = float(gap)
    if mode == "batched" and single_ok and gap <= 1e-6 and mdl.eigen_based:
        rec.branch("protocol:batched-fail/single-pass/near-repeated -> D11")
        _violation(rec, D11_KEY, cid, detail)
        return "d11:" + cls
    if mode == "batched" and single_ok and mdl.eigen_based:
        # same root cause as D11 outside its input class: an exact floating-point comparison of the closed-form eigen-solver
        # (pivot row, second row, shift sign, eigenvector formula) is a tie on C of F, QF or FQ (measured with a float64
        # replica of the solver's operands), so rounding decides it and the compiled batch decides it inconsistently
        from mc.ref import material_ref as R
        ties = []
        if not evolved:
            tensors = [(nm, G.T @ G) for nm, G in (("F", detail["F"]),) + (
                (("QF", detail["Q"] @ detail["F"]), ("FQ", detail["F"] @ detail["Q"])) if "Q" in detail else ())]
        for nm, A in (tensors() if evolved else tensors):
            t, which, margin = R.eigen_decision_tie(A)
            if t:
                ties.append("%s:%s(margin %.1e)" % (nm, which, margin))
        if ties:
            detail["eigen_solver_decision_ties"] = ties
            rec.branch("protocol:batched-fail/single-pass/eigen-solver decision tie -> D11 family (separated spectrum)")
            _violation(rec, TIE_KEY, cid, detail)
            return "d11-tie:" + cls
    rec.branch("protocol:ordinary-violation")
    # one defect -> one key: mode only distinguishes failures that exist in the compiled batch alone; the stretch class
    # and the side (QF / FQ) are in the detail, not in the key
    which = "batched-only" if (mode == "batched" and single_ok) else "any-mode"
    if evolved:
        # a failure that exists at evolved internal states (the virgin-state product of this option was clean, otherwise the
        # evolved exploration is not run): its own key
        key = "%s|%s|evolved-state|%s" % (mdl.name, which, "energy-not-objective" if sig.startswith("not-") else sig)
    else:
        key = "%s|%s|%s" % (mdl.name, which, "energy-not-invariant-under-rotation" if sig.startswith("not-") else sig)
        ordinary = rec.__dict__.setdefault("_c08_ordinary", {})
        ordinary[mdl.name] = ordinary.get(mdl.name, 0) + 1
    _violation(rec, key, cid, detail)
    return "fail:" + sig
