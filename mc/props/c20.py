"""C20 -- VTK output is a well-formed dataset that round-trips.

E-BFS over writer call sequences on the real VTKWriter; after every `write` the file is parsed by
an independent strict legacy-VTK parser (mc/ref/vtk_parse.py) and compared with a python model of
what was supplied. A state is the history reaching it (a fresh writer is rebuilt and the history
replayed: stateless exploration); histories are de-duplicated on a canonical key.
"""
import itertools
import os
import shutil
import tempfile

import numpy as onp

ID = "C20"
TITLE = "VTKWriter: every written file is structurally valid, round-trips the supplied data, rewrites identically"
LEVEL = "model_checking"
RULE = ("E-BFS: all sequences of writer calls (20-action alphabet: 9 nodal-field adds, 7 cell-field adds, add_sphere, "
        "add_contact_edges with 1 or 2 edges, write) up to the depth bound, per mesh, de-duplicated on canon = (ordered "
        "nodal fields, ordered cell fields, #spheres, #edges, #writes capped at 2, model state at the last write, "
        "last-action-is-write). A case = one canonical state whose last action is `write` (a file was produced and "
        "parsed). Non-trivial = the written file contains at least one data array or sphere or contact edge (measured "
        "from the model state).")
ASSUMPTIONS = [
    "oracle: independent token-level parser of the legacy VTK ASCII format written in the harness",
    "canonicalisation merges histories with equal model state, equal capped write count and equal model state at the "
    "last write; in a correct writer `write` has no side effect so merged histories have equal futures; the extra "
    "fields are kept so that a writer whose `write` mutates state is still distinguished",
    "meshes: structured 2x2 at order 1..4, plus node-renumbered order-2/3 meshes whose vertex nodes are not numbered "
    "first; straight-sided elements (mid-edge nodes at edge midpoints)",
    "for element order >= 3 the writer's documented behaviour of emitting only the vertex nodes (linear triangles) is "
    "accepted; supplied values are compared at the points that are written",
]
TOLERANCES = {"coordinates / field values": "exact (float repr round trip)", "file identity": "byte-identical"}

# two names per section, every field type under both names with the same data type (so that e.g. a vector and a
# tensor array of equal data type can coexist), plus other data types
NODAL = [("u", "S", "DOUBLE"), ("u", "V", "DOUBLE"), ("u", "T", "DOUBLE"), ("u", "S", "INT"),
         ("v", "S", "DOUBLE"), ("v", "V", "DOUBLE"), ("v", "T", "DOUBLE"), ("v", "V", "FLOAT"), ("v", "T", "INT")]
CELL = [("c", "S", "DOUBLE"), ("c", "V", "DOUBLE"), ("c", "T", "DOUBLE"), ("c", "S", "INT"),
        ("d", "V", "DOUBLE"), ("d", "T", "DOUBLE"), ("d", "S", "INT")]
ACTIONS = (["N:%s:%s:%s" % a for a in NODAL] + ["C:%s:%s:%s" % a for a in CELL]
           + ["sphere", "edges1", "edges2", "write"])
NCOMP = {"S": 1, "V": 3, "T": 9}


def _depth(tier):
    return 4 if tier == "quick" else 5


def _meshes(tier):
    ms = ["p1", "p2", "p3", "p4", "p2perm", "p3perm"]
    if tier == "thorough":
        ms += ["p1big", "p2big"]
    return ms


def bounds(tier):
    return {"depth": _depth(tier), "actions": len(ACTIONS), "meshes": _meshes(tier)}


def groups(tier, seed):
    # shard the BFS by first action: each group explores all histories starting with that action
    return [{"name": "%s-a%02d" % (m, i), "mesh": m, "first": a}
            for m in _meshes(tier) for i, a in enumerate(ACTIONS)]


def _make_mesh(name):
    from optimism import Mesh
    big = name.endswith("big")
    base = name.replace("big", "").replace("perm", "")
    p = int(base[1])
    n = 3 if big else 2
    mesh = Mesh.construct_structured_mesh(n, n, [0.0, 1.0], [0.0, 1.5], elementOrder=p)
    if name.endswith("perm"):
        nn = int(mesh.coords.shape[0])
        # deterministic renumbering that moves vertex nodes away from the front: reverse order
        new_of_old = onp.arange(nn)[::-1].copy()
        coords = onp.zeros((nn, 2))
        coords[new_of_old] = onp.asarray(mesh.coords)
        conns = new_of_old[onp.asarray(mesh.conns)]
        # NOT sorted: the vertex list of a mesh carries no ordering promise (the Exodus reader builds it from a set)
        simplex = new_of_old[onp.asarray(mesh.simplexNodesOrdinals)]
        import jax.numpy as jnp
        mesh = Mesh.Mesh(jnp.array(coords), jnp.array(conns), jnp.array(simplex), mesh.parentElement,
                         mesh.parentElement1d, mesh.blocks, None, None)
    return mesh


def _vertices_of_elements(coords, conns):
    """Independent of the library's parent-element tables: the geometric vertices of a straight-sided
    element are the node triple of maximal area. Returns list of 3 node ids per element, CCW, starting at
    the smallest node id."""
    out = []
    for el in conns:
        best, bestA = None, -1.0
        for t in itertools.combinations(range(len(el)), 3):
            a, b, c = (coords[el[i]] for i in t)
            A = 0.5 * ((b[0] - a[0]) * (c[1] - a[1]) - (b[1] - a[1]) * (c[0] - a[0]))
            if abs(A) > bestA + 1e-14:
                best, bestA = (t, A), abs(A)
        t, A = best
        ids = [int(el[i]) for i in t]
        if A < 0:
            ids = [ids[0], ids[2], ids[1]]
        k = ids.index(min(ids))
        out.append(ids[k:] + ids[:k])
    return out


def _field_data(kind, which, name, ftype, dtype, n):
    """Supplied data for (name, type, dtype): distinct values; shapes as a user would pass them."""
    off = {"u": 0.0, "v": 100.0, "c": 200.0, "d": 300.0}[name]
    i = onp.arange(n)
    if dtype == "INT":
        if ftype == "S":
            return (10 * (i + 1) + int(off)).astype(onp.int64)
        if ftype == "V":
            return onp.stack([10 * (i + 1) + j + int(off) for j in range(3)], axis=1).astype(onp.int64)
        return onp.stack([onp.stack([100 * (i + 1) + 10 * r + c + int(off) for c in range(3)], axis=1)
                          for r in range(3)], axis=1).astype(onp.int64)
    dimU = 2 if name in ("u", "c") else 3      # u/c supply 2-D data (padded by the writer), v/d 3-D
    if ftype == "S":
        return (i + 1) * 1.1 + off + 1.0 / 3.0
    if ftype == "V":
        return onp.stack([(i + 1) * 1.1 + 0.01 * (j + 1) + off for j in range(dimU)], axis=1)
    return onp.stack([onp.stack([(i + 1) * 1.1 + 0.1 * (r + 1) + 0.01 * (c + 1) + off for c in range(dimU)], axis=1)
                      for r in range(dimU)], axis=1)


def _expected_rows(data, ftype):
    """What a reader must get back per entity: 1, 3 or 9 numbers, zero padded to 3-D."""
    n = data.shape[0]
    if ftype == "S":
        return [[float(x)] for x in data.reshape(n)]
    if ftype == "V":
        out = onp.zeros((n, 3))
        out[:, :data.shape[1]] = data
        return out.tolist()
    out = onp.zeros((n, 3, 3))
    d = data.shape[1]
    out[:, :d, :d] = data
    return out.reshape(n, 9).tolist()


class Model:
    def __init__(self):
        self.nodal = {}     # name -> (ftype, dtype), insertion ordered
        self.cell = {}
        self.spheres = 0
        self.edges = 0

    def key(self):
        return (tuple((k,) + v for k, v in self.nodal.items()), tuple((k,) + v for k, v in self.cell.items()),
                self.spheres, self.edges)


def run_group(g, tier, seed, rec):
    from optimism.VTKWriter import VTKWriter, VTKFieldType, VTKDataType
    from mc.ref import vtk_parse
    from mc.runner import exception_key
    from mc.core import stable_hash
    import warnings

    FT = {"S": VTKFieldType.SCALARS, "V": VTKFieldType.VECTORS, "T": VTKFieldType.TENSORS}
    DT = {"DOUBLE": VTKDataType.DOUBLE, "FLOAT": VTKDataType.FLOAT, "INT": VTKDataType.INT}
    mesh = _make_mesh(g["mesh"])
    order = int(mesh.parentElement.degree)
    coords = onp.asarray(mesh.coords)
    conns = onp.asarray(mesh.conns)
    nN, nE = coords.shape[0], conns.shape[0]
    verts = _vertices_of_elements(coords, conns)
    vertex_nodes = sorted({v for t in verts for v in t})
    coord_to_node = {(float(x), float(y)): i for i, (x, y) in enumerate(coords)}
    assert len(coord_to_node) == nN
    edge_alphabet = [[verts[0][0], verts[0][1]], [verts[0][1], verts[0][2]], [verts[-1][2], verts[-1][0]]]
    tmpd = tempfile.mkdtemp(prefix="c20_", dir="/dev/shm" if os.path.isdir("/dev/shm") else None)
    base = os.path.join(tmpd, "out")
    maxd = _depth(tier)

    def replay(hist):
        """Fresh writer, replay history. Returns (model, list of (model_key_at_write, bytes)), or raises."""
        w = VTKWriter(mesh, baseFileName=base)
        m = Model()
        sup = {"spheres": [], "edges": []}
        writes = []
        for a in hist:
            if a.startswith("N:") or a.startswith("C:"):
                kind, name, ft, dt = a.split(":")
                n = nN if kind == "N" else nE
                data = _field_data(kind, g["mesh"], name, ft, dt, n)
                if kind == "N":
                    w.add_nodal_field(name, data, FT[ft], DT[dt])
                    m.nodal[name] = (ft, dt)
                else:
                    w.add_cell_field(name, data, FT[ft], DT[dt])
                    m.cell[name] = (ft, dt)
            elif a == "sphere":
                k = m.spheres
                x = onp.array([0.05 + 0.1 * k, 0.2 * k - 0.3])
                w.add_sphere(x, 0.5 + k)
                sup["spheres"].append((float(x[0]), float(x[1]), 0.0, 0.5 + k))
                m.spheres += 1
            elif a in ("edges1", "edges2"):
                ne = 1 if a == "edges1" else 2
                e = [edge_alphabet[(m.edges + j) % 3] for j in range(ne)]
                w.add_contact_edges(onp.array(e))
                sup["edges"] += e
                m.edges += ne
            elif a == "write":
                if os.path.exists(base + ".vtk"):
                    os.remove(base + ".vtk")
                w.write()
                with open(base + ".vtk", "rb") as f:
                    writes.append((m.key(), f.read()))
        return m, sup, writes

    def canon(hist, m, writes):
        nw = min(len(writes), 2)
        return (m.key(), nw, writes[-1][0] if writes else None, hist[-1] == "write")

    def fkey(m, nwrites, sig):
        return "VTKWriter|order=%s|spheres=%s|edges=%s|nodal=%s|cell=%s|writes=%s|%s" % (
            ("<=2" if order <= 2 else ">=3") + ("-renumbered" if g["mesh"].endswith("perm") else ""),
            "+" if m.spheres else "0", "+" if m.edges else "0", "+" if m.nodal else "0", "+" if m.cell else "0",
            "1" if nwrites <= 1 else "2+", sig)

    def check_file(hist, m, sup, writes):
        cid = "mesh=%s;hist=%s" % (g["mesh"], ",".join(hist))
        nw = len(writes)
        text = writes[-1][1].decode()
        P = vtk_parse.parse(text)
        sigs = set(P["problems"])
        detail = {"history": list(hist), "file_head": text[:1500]}
        pts = P["points"] or []
        # points: mesh points first (each a distinct supplied node), then sphere centres in order
        nmesh = len(pts) - m.spheres
        node_of_point = {}
        if nmesh < 0:
            sigs.add("fewer-points-than-spheres")
        else:
            for k in range(nmesh):
                nd = coord_to_node.get((pts[k][0], pts[k][1]))
                if nd is None or pts[k][2] != 0.0:
                    sigs.add("point-not-a-supplied-node")
                elif nd in node_of_point.values():
                    sigs.add("duplicate-point")
                else:
                    node_of_point[k] = nd
            for j in range(m.spheres):
                if tuple(pts[nmesh + j]) != sup["spheres"][j][:3]:
                    sigs.add("sphere-centre-mismatch")
            written = set(node_of_point.values())
            need = set(range(nN)) if order <= 2 else set(vertex_nodes)
            if not need <= written:
                sigs.add("supplied-node-missing")
        # cells: elements in order, then contact edges
        cells, ctypes = P["cells"] or [], P["cell_types"] or []
        if len(cells) != nE + m.edges:
            sigs.add("cell-count-vs-supplied")
        for e in range(min(nE, len(cells))):
            c = cells[e]
            if any(i < 0 or i >= len(pts) for i in c):
                continue
            nodes = [node_of_point.get(i) for i in c]
            exp_type = 22 if len(c) == 6 else 5
            if e < len(ctypes) and ctypes[e] != exp_type:
                sigs.add("cell-type-mismatch")
            if len(c) not in (3, 6) or None in nodes[:3]:
                sigs.add("element-connectivity-mismatch")
                continue
            tri = nodes[:3]
            k = tri.index(min(tri))
            if tri[k:] + tri[:k] != verts[e]:
                sigs.add("element-connectivity-mismatch")
            if len(c) == 6:
                if order != 2:
                    sigs.add("quadratic-cell-for-non-quadratic-mesh")
                for j in range(3):
                    a, b = coords[tri[j]], coords[tri[(j + 1) % 3]]
                    mid = node_of_point.get(c[3 + j])
                    if mid is None or mid not in set(conns[e].tolist()) or \
                            not onp.allclose(coords[mid], 0.5 * (a + b), rtol=0, atol=1e-13):
                        sigs.add("midside-node-mismatch")
            elif order == 2:
                sigs.add("quadratic-mesh-written-linear")
        for j in range(m.edges):
            idx = nE + j
            if idx >= len(cells):
                break
            c = cells[idx]
            if idx < len(ctypes) and ctypes[idx] != 3:
                sigs.add("edge-cell-type-mismatch")
            if len(c) != 2 or any(i < 0 or i >= len(pts) for i in c) or \
                    [node_of_point.get(i) for i in c] != list(sup["edges"][j]):
                sigs.add("contact-edge-mismatch")
        # data arrays
        if set(P["point_data"]) - {"sphere_radius"} != set(m.nodal) or \
                [n for n in P["point_data_order"] if n != "sphere_radius"] != list(m.nodal):
            sigs.add("point-array-set-mismatch")
        if (m.spheres > 0) != ("sphere_radius" in P["point_data"]):
            sigs.add("sphere-radius-array-presence")
        for name, (ft, dt) in m.nodal.items():
            arr = P["point_data"].get(name)
            if arr is None:
                continue
            if arr["kind"] != {"S": "SCALARS", "V": "VECTORS", "T": "TENSORS"}[ft] or arr["dtype"] != dt.lower():
                sigs.add("array-declaration-mismatch")
            exp = _expected_rows(_field_data("N", g["mesh"], name, ft, dt, nN), ft)
            if len(arr["values"]) != len(pts):
                sigs.add("point-array-record-count")
            for k, nd in node_of_point.items():
                if k < len(arr["values"]) and arr["values"][k] != exp[nd]:
                    sigs.add("point-values-mismatch")
                    break
        if "sphere_radius" in P["point_data"] and m.spheres:
            vals = P["point_data"]["sphere_radius"]["values"]
            if len(vals) != len(pts):
                sigs.add("point-array-record-count")
            elif [v[0] for v in vals[nmesh:]] != [s[3] for s in sup["spheres"]]:
                sigs.add("sphere-radius-values-mismatch")
        if set(P["cell_data"]) != set(m.cell) or P["cell_data_order"] != list(m.cell):
            sigs.add("cell-array-set-mismatch")
        for name, (ft, dt) in m.cell.items():
            arr = P["cell_data"].get(name)
            if arr is None:
                continue
            if arr["kind"] != {"S": "SCALARS", "V": "VECTORS", "T": "TENSORS"}[ft] or arr["dtype"] != dt.lower():
                sigs.add("array-declaration-mismatch")
            exp = _expected_rows(_field_data("C", g["mesh"], name, ft, dt, nE), ft)
            if len(arr["values"]) != len(cells):
                sigs.add("cell-array-record-count")
            if arr["values"][:nE] != exp[:len(arr["values"][:nE])] or len(arr["values"]) < nE:
                sigs.add("cell-values-mismatch")
        # consecutive writes identical
        if len(hist) >= 2 and hist[-1] == "write" and hist[-2] == "write":
            rec.branch("consecutive-write-compared")
            if writes[-1][1] != writes[-2][1]:
                sigs.add("rewrite-not-identical")
        for s in sorted(sigs):
            rec.violation(fkey(m, nw, s.split(":")[0] if s.startswith(("too-", "duplicate-array", "non-integer")) else s),
                          cid, dict(detail, problem=s))
        nontrivial = bool(m.nodal or m.cell or m.spheres or m.edges)
        for nm, cond in (("file:spheres", m.spheres), ("file:edges", m.edges), ("file:nodal", m.nodal),
                         ("file:cell", m.cell), ("file:rewrite", nw > 1)):
            if cond:
                rec.branch(nm)
        samp = None
        if stable_hash(cid + str(seed)) % 400 == 0:
            samp = {"case": cid, "points": len(pts), "cells": len(cells), "problems": sorted(sigs)}
        rec.case(cid, nontrivial=nontrivial, outcome="ok" if not sigs else "violating", sample=samp, steps=len(hist))

    try:
        seen = set()
        frontier = [(g["first"],)]
        depth = 1
        with warnings.catch_warnings():
            warnings.simplefilter("ignore")
            while frontier and depth <= maxd:
                nxt = []
                for hist in frontier:
                    cid = "mesh=%s;hist=%s" % (g["mesh"], ",".join(hist))
                    if rec.only is not None and not rec.only.startswith(cid):
                        continue
                    try:
                        m, sup, writes = replay(hist)
                    except Exception as e:  # noqa
                        mm = Model()
                        rec.violation("VTKWriter|order=%d|%s" % (order, exception_key(e)), cid,
                                      {"history": list(hist), "error": repr(e)})
                        rec.transition(len(hist))
                        continue
                    rec.transition(1)
                    k = canon(hist, m, writes)
                    if k in seen:
                        rec.branch("dedup-merged")
                        continue
                    seen.add(k)
                    rec.state(repr((g["mesh"], g["first"]) + k))
                    rec.depth(depth)
                    if hist[-1] == "write" and rec.want(cid):
                        check_file(hist, m, sup, writes)
                    if depth < maxd:
                        for a in ACTIONS:
                            nxt.append(hist + (a,))
                frontier = nxt
                depth += 1
    finally:
        shutil.rmtree(tmpd, ignore_errors=True)
