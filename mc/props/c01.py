"""C01 -- trust-region minimiser never goes uphill and reports convergence honestly.

E-DEV (deviation-bounded enumeration of solver settings / environment answers) x E-PROD (objective
family x start), with a monitor on the whole iterate trajectory of every run of the REAL
EquationSolver.trust_region_minimize / nonlinear_equation_solve on real Objective instances.
"""
import contextlib
import io
import math

import numpy as onp

from mc.core import Axis, deviations, horizon, HorizonExceeded, stable_hash

ID = "C01"
TITLE = "trust_region_minimize: descent along reported iterates, return = last iterate, finiteness, honest flag"
LEVEL = "model_checking"
RULE = ("E-DEV x E-PROD: every (objective family, spectrum, eigenbasis, start) problem of the block x every solver "
        "configuration with at most k non-default axes (12 axes: tr_size, min_tr_size, eta, t, tol, max_trust_iters, "
        "max_cg_iters, max_cumulative_cg_iters, inner product, incremental objective, preconditioner quality incl. "
        "forced factorisation failures, entry point); every run goes to completion and every reported iterate is "
        "checked. Case id = problem labels + configuration labels. Non-trivial = the run executed at least one "
        "trial step (measured by counting the solver's dogleg_step calls), i.e. it did not exit at the "
        "initial convergence test.")
ASSUMPTIONS = [
    "sksparse.cholmod stand-in (/verif/shim) is the Cholesky used by the preconditioner; its forced-failure switch is "
    "the environment axis reaching the shifted-diagonal retry and the identity fallback",
    "objective families: 6 quadratic+quartic spectra (SPD k=1, SPD k=100, badly scaled, indefinite, zero, semidefinite) "
    "x 2 eigenbases, Rosenbrock-2D, a log barrier (NaN outside its box), 1-D -cos x with the crafted start; 5 starts each",
    "descent is checked with the objective exactly as the solver evaluates it (the same jitted function, bit-for-bit), "
    "cross-checked against an independent numpy evaluation to 1e-11 relative to the objective's resolution",
    "at the convergence exit the solver reports the *trial* point without an acceptance test; an increase there within "
    "the floating-point resolution of the objective ((8+4n) eps * sum|terms|) is not counted",
    "for entry points that warm start, the first comparison (start -> first iterate) is skipped because the warm-started "
    "start point is not observable; the flag, finiteness, return-value and objective.p clauses are still checked",
]
TOLERANCES = {
    "descent at accepted iterates": "exact (<=) in the solver's own objective evaluation",
    "descent at the converged exit": "(8+4n)*eps*sum|terms of f|",
    "honest flag": "||grad_ref(x_ret; p_requested)|| < tol*(1+1e-6) + 1e-13 + 8(n+2) eps ||sum|terms of the gradient||| "
                   "(the last term is the floating-point resolution of the gradient itself; it matters only for the badly "
                   "scaled family, where |A||x| ~ 1e8)",
    "unique minimiser (SPD, defaults)": "||x - A^-1 b|| <= 10*tol/lambda_min",
    "ref vs library objective value": "1e-11 * sum|terms|",
}

SHARDS = 12
HORIZON_S = 30.0


def _axes():
    return [
        Axis("tr", [("2", 2.0), ("1e-4", 1e-4), ("1e3", 1e3)]),
        Axis("mintr", [("1e-8", 1e-8), ("1e-1", 1e-1)]),
        Axis("eta", [("def", (1e-10, 0.1, 0.5)), ("alt", (0.05, 0.25, 0.75))]),
        Axis("t", [("def", (0.25, 1.75)), ("alt", (0.5, 2.0))]),
        Axis("tol", [("1e-8", 1e-8), ("1e-3", 1e-3)]),
        Axis("maxtr", [("100", 100), ("1", 1), ("3", 3)]),
        Axis("maxcg", [("50", 50), ("1", 1), ("2", 2)]),
        Axis("cumcg", [("1000", 1000), ("2", 2)]),
        Axis("pip", [("F", False), ("T", True)]),
        Axis("incr", [("F", False), ("T", True)]),
        Axis("pc", [("exact", "exact"), ("stale", "stale"), ("shifted", "shifted"), ("identity", "identity")]),
        Axis("entry", [("trm", "trm"), ("nes-warm", "nes-warm"), ("nes-nowarm", "nes-nowarm"),
                       ("nes-warm-noupd", "nes-warm-noupd"), ("nes-nowarm-noupd", "nes-nowarm-noupd")]),
    ]


def _k(tier):
    return 2 if tier == "quick" else 3


def _blocks(tier):
    bl = [("quartic", 2), ("quartic", 3), ("rosenbrock", 2), ("barrier", 2), ("cos1d", 1), ("radialquartic", 3),
          ("multiwell", 2), ("softplus", 2)]
    if tier == "thorough":
        bl += [("quartic", 1), ("quartic", 5), ("quartic", 8)]
    return bl


def bounds(tier):
    from mc.core import n_deviations
    ax = _axes()
    return {"deviation_bound_k": _k(tier), "axes": {a.name: a.labels for a in ax},
            "configurations": n_deviations(ax, _k(tier)), "blocks": ["%s-n%d" % b for b in _blocks(tier)],
            "horizon_s": HORIZON_S}


def groups(tier, seed):
    gs = []
    for fam, n in sorted(_blocks(tier), key=lambda b: -b[1]):
        ns = (SHARDS if n <= 3 else 2 * SHARDS) if fam == "quartic" else 2
        for s in range(ns):
            gs.append({"name": "%s-n%d-s%d" % (fam, n, s), "fam": fam, "n": n, "shard": s, "nshards": ns})
    return gs


# ---------------------------------------------------------------------------------------------------
def _problems(fam, n, seed):
    """list of (label dict, data dict, x0, start label)."""
    from mc.ref import objectives as R
    out = []
    if fam == "quartic":
        for spec in R.SPECTRA:
            for basis in ("I", "G"):
                if n == 1 and basis == "G":
                    continue
                d = R.quartic_data(n, spec, basis, seed)
                xmin = R.q_minimiser(d)
                low = d["Q"][:, int(onp.argmin(d["lam"]))]
                starts = [("zero", onp.zeros(n)), ("far", 10.0 * onp.array([1.0, -1.0, 0.5, 2.0, -0.7, 1.3, -1.1, 0.4][:n])),
                          ("nearsaddle", 1e-3 * low), ("atmin", xmin), ("3e1", 3.0 * onp.eye(n)[0]),
                          # 1e3 away: more than max_trust_iters * tr_size; only a radius that grows after boundary steps gets
                          # there (added after a seeded change that stopped the growth after Cauchy steps went undetected)
                          ("1e3", 1.0e3 * onp.array([0.6, -0.8, 0.3, 0.5, -0.2, 0.4, -0.1, 0.2][:n]))]
                for sl, x0 in starts:
                    out.append(({"fam": "quartic:" + spec, "basis": basis, "start": sl}, d, x0))
    elif fam == "rosenbrock":
        d = {"a": 1.0, "bb": 100.0}
        for sl, x0 in [("classic", [-1.2, 1.0]), ("zero", [0.0, 0.0]), ("atmin", [1.0, 1.0]), ("far", [3.0, -2.0]),
                       ("valley", [-0.5, 0.25])]:
            out.append(({"fam": "rosenbrock", "basis": "-", "start": sl}, d, onp.array(x0)))
    elif fam == "barrier":
        d = {"c": onp.array([2.0, -0.3]), "mu": 0.1}
        for sl, x0 in [("zero", [0.0, 0.0]), ("nearwall", [0.999, -0.999]), ("corner", [-0.9, 0.9]),
                       ("mid", [0.5, -0.2]), ("tinywall", [1.0 - 1e-9, 0.0])]:
            out.append(({"fam": "barrier", "basis": "-", "start": sl}, d, onp.array(x0)))
    elif fam == "radialquartic":
        # indefinite quadratic + radial quartic in 3 variables with a stale SPD preconditioner assembled at xp: the one
        # known instance on which the dogleg step between the Cauchy point and a negative-curvature CG point has a
        # POSITIVE model value after a rejection (reaches the solver's "positive model objective" re-sign branch)
        d = {"A": onp.array([[-6.123, -0.203, 3.673], [-0.203, 1.962, -0.749], [3.673, -0.749, 1.385]]),
             "b": -onp.array([-0.0015, 0.0758, 0.0605]), "c4": 4.316, "xp": onp.array([-0.3968, 0.4295, 0.2319])}
        for sl, x0 in [("zero", [0.0, 0.0, 0.0]), ("atxp", d["xp"]), ("far", [2.0, -1.0, 1.5]),
                       ("small", [1e-3, -2e-3, 5e-4]), ("e1", [1.0, 0.0, 0.0])]:
            out.append(({"fam": "radialquartic", "basis": "-", "start": sl}, d, onp.array(x0, dtype=float)))
    elif fam == "softplus":
        d = {"c": onp.array([0.5, 0.25])}
        for sl, x0 in [("flat-left", [-20.0, -20.0]), ("zero", [0.0, 0.0]), ("atmin", [0.0, math.log(0.25 / 0.75)]),
                       ("right", [30.0, 5.0]), ("mixed", [-20.0, 30.0])]:
            out.append(({"fam": "softplus", "basis": "-", "start": sl}, d, onp.array(x0)))
    elif fam == "multiwell":
        d = {"b": onp.zeros(2), "a": 2.0}
        for sl, x0 in [("barrier-jump", [1.0, 0.5]), ("origin", [0.0, 0.0]), ("off", [2.0, -1.0]), ("near", [0.3, 0.3]),
                       ("far", [5.0, 5.0])]:
            out.append(({"fam": "multiwell", "basis": "-", "start": sl}, d, onp.array(x0)))
    elif fam == "cos1d":
        d = {"t": 0.0}
        u = R.tan_fixed_point()
        for sl, x0 in [("newton-to-maximiser", [math.pi + u]), ("half", [0.5]), ("atmax", [math.pi]),
                       ("nearmax", [math.pi - 1e-3]), ("far", [40.0])]:
            out.append(({"fam": "cos1d", "basis": "-", "start": sl}, d, onp.array(x0)))
    return out


def _make_objective(fam, n):
    """The JAX twin of the reference family, as a real optimism Objective (compiled once per worker)."""
    import jax.numpy as jnp
    from optimism import Objective

    if fam == "quartic":
        def f(x, p):
            return 0.5 * x @ (p[2] @ x) - p[0] @ x + 0.25 * p[3] * jnp.sum(x ** 4)

        def params(d, old=False):
            return Objective.Params(bc_data=jnp.array((0.5 if old else 1.0) * d["b"]), design_data=jnp.array(d["A"]),
                                    app_data=jnp.array(d["c4"]))
    elif fam == "rosenbrock":
        def f(x, p):
            return (p[0][0] - x[0]) ** 2 + p[3] * (x[1] - x[0] ** 2) ** 2

        def params(d, old=False):
            return Objective.Params(bc_data=jnp.array([(0.5 if old else 1.0) * d["a"]]), app_data=jnp.array(d["bb"]))
    elif fam == "radialquartic":
        def f(x, p):
            return 0.5 * x @ (p[2] @ x) - p[0] @ x + p[3] * (x @ x) ** 2

        def params(d, old=False):
            return Objective.Params(bc_data=jnp.array((0.5 if old else 1.0) * d["b"]), design_data=jnp.array(d["A"]),
                                    app_data=jnp.array(d["c4"]))
    elif fam == "multiwell":
        def f(x, p):
            return 0.5 * x @ x - p[0] @ x + p[3] * jnp.sum(jnp.cos(3.0 * x))

        def params(d, old=False):
            return Objective.Params(bc_data=jnp.array(d["b"] + (0.01 if old else 0.0)), app_data=jnp.array(d["a"]))
    elif fam == "softplus":
        def f(x, p):
            return jnp.sum(jnp.log(1.0 + jnp.exp(x))) - p[0] @ x

        def params(d, old=False):
            return Objective.Params(bc_data=jnp.array(d["c"] * (0.9 if old else 1.0)))
    elif fam == "barrier":
        def f(x, p):
            return 0.5 * jnp.sum((x - p[0]) ** 2) - p[3] * jnp.sum(jnp.log(1 - x ** 2))

        def params(d, old=False):
            return Objective.Params(bc_data=jnp.array((0.5 if old else 1.0) * d["c"]), app_data=jnp.array(d["mu"]))
    else:
        def f(x, p):
            return -jnp.cos(x[0]) - p[0][0] * x[0]

        def params(d, old=False):
            return Objective.Params(bc_data=jnp.array([0.01 if old else d["t"]]))
    return f, params


def _ref(fam):
    from mc.ref import objectives as R
    if fam == "cos1d":
        return (lambda x, d: -math.cos(x[0]) - d["t"] * x[0], lambda x, d: onp.array([math.sin(x[0]) - d["t"]]),
                lambda x, d: 1.0 + abs(d["t"] * x[0]))
    return R.FAMILIES[fam]


def run_group(g, tier, seed, rec):
    import jax.numpy as jnp
    from optimism import EquationSolver as ES
    from optimism import Objective
    import sksparse.cholmod as shim
    from mc.runner import exception_key
    from mc.ref import objectives as RO

    fam, n = g["fam"], g["n"]
    f, params = _make_objective(fam, n)
    probs = _problems(fam, n, seed)
    rvalue, rgrad, rres = _ref(fam)
    obj = Objective.Objective(f, jnp.zeros(n), params(probs[0][1]))
    axes = _axes()
    finite_everywhere = fam not in ("barrier", "softplus")     # softplus: the naive floating-point evaluation overflows
    EPS = onp.finfo(float).eps

    banner = []

    def my_banner(objective, modelObjective, res, modelRes, cgIters, trSize, onBoundary, willAccept, settings):
        banner.append((str(onBoundary), bool(willAccept), float(trSize), float(objective), float(modelObjective)))
    ES.print_min_banner = my_banner
    ndog = [0]
    _dogleg = ES.dogleg_step

    def my_dogleg(*a, **k):       # coverage accounting only: one call per trial step
        ndog[0] += 1
        return _dogleg(*a, **k)
    ES.dogleg_step = my_dogleg

    configs = [c for i, c in enumerate(deviations(axes, _k(tier))) if i % g["nshards"] == g["shard"]]
    sample_budget = [2]

    for ndev, cfgid, clab, cval in configs:
        for plab, d, x0 in probs:
            cid = "fam=%s;n=%d;basis=%s;start=%s;%s" % (plab["fam"], n, plab["basis"], plab["start"], cfgid)
            if not rec.want(cid):
                continue
            pnew, pold = params(d), params(d, old=True)
            entry = cval["entry"]
            eta, tt = cval["eta"], cval["t"]
            settings = ES.get_settings(t1=tt[0], t2=tt[1], eta1=eta[0], eta2=eta[1], eta3=eta[2],
                                       max_trust_iters=cval["maxtr"], tol=cval["tol"], max_cg_iters=cval["maxcg"],
                                       max_cumulative_cg_iters=cval["cumcg"], tr_size=cval["tr"],
                                       min_tr_size=cval["mintr"],
                                       use_preconditioned_inner_product_for_cg=cval["pip"],
                                       use_incremental_objective=cval["incr"])
            iterates = []

            def cb(x, o):
                iterates.append(onp.array(x, dtype=float))
            del banner[:]
            ndog[0] = 0
            buf = io.StringIO()
            shim.FAIL_PLAN[:] = []
            shim.FAIL_ALWAYS[0] = False
            x0j = jnp.array(x0)
            fkey = lambda sig, ex="?": "TRM|fam=%s|start=%s|exit=%s|%s" % (plab["fam"], plab["start"], ex, sig)
            try:
                with contextlib.redirect_stdout(buf), horizon(HORIZON_S):
                    obj.p = pnew if entry == "trm" else pold
                    pc = cval["pc"]
                    if pc == "shifted":
                        shim.FAIL_PLAN[:] = [True]
                    elif pc == "identity":
                        shim.FAIL_ALWAYS[0] = True
                    if pc == "stale" and fam == "radialquartic":
                        obj.update_precond(jnp.array(d["xp"]))
                    else:
                        obj.update_precond(x0j + 1.0 if (pc == "stale" and fam != "barrier") else
                                           (0.5 * x0j if pc == "stale" else x0j))
                    shim.FAIL_PLAN[:] = []
                    if entry == "trm":
                        xr, ok = ES.trust_region_minimize(obj, x0j, settings, callback=cb)
                    else:
                        xr, ok = ES.nonlinear_equation_solve(obj, x0j, pnew, settings, callback=cb,
                                                             useWarmStart=("nowarm" not in entry),
                                                             updatePrecond=("noupd" not in entry))
            except HorizonExceeded:
                rec.noverdict(cid, "horizon")
                continue
            except Exception as e:  # noqa
                ek = exception_key(e)
                if ek.endswith("@harness"):
                    raise
                rec.violation(fkey(ek, "exception"), cid, {"error": repr(e), "labels": dict(plab, **clab)})
                rec.case(cid, nontrivial=False, outcome="exception", steps=max(1, ndog[0]))
                continue
            finally:
                shim.FAIL_ALWAYS[0] = False
                shim.FAIL_PLAN[:] = []
            out = buf.getvalue()
            xr = onp.array(xr, dtype=float)
            ok = bool(ok)
            # exit classification from the solver's own messages
            if "Reached the maximum number" in out:
                ex = "max-iters"
            elif "still too small" in out:
                ex = "tr-too-small"
            elif ok and ndog[0] == 0:
                ex = "converged-initial"
            elif ok:
                ex = "converged"
            else:
                ex = "other-false"
            rec.branch("exit:" + ex)
            for msg, nm in (("negative curvature unpreconditioned", "neg-curvature-cauchy"),
                            ("cauchy point outside trust region", "cauchy-outside-tr"),
                            ("Found a positive model objective increase", "model-increase-resign"),
                            ("too small, updating precond", "tr-too-small-precond-retry"),
                            ("cp outside newton", "dogleg-cp-outside-newton"),
                            ("Cholesky failed", "cholesky-retry-shifted"),
                            ("using identity preconditioner", "identity-precond-fallback"),
                            ("num warm start cg iters", "warm-start")):
                if msg in out:
                    rec.branch(nm)
            rec.branch("precond-updates", out.count("Updating with dense preconditioner"))
            for st, acc, trs, ro, mo in banner:
                rec.branch("step:%s:%s" % (st, "accepted" if acc else "rejected"))
                if ro != ro:
                    rec.branch("rho-nan")
                rec.state("C01|%s|%s|%s|%s|tr=%d" % (plab["fam"], st, acc, ex, int(math.floor(math.log10(trs))) if trs > 0 else -999))
            sigs = []
            detail = {"labels": dict(plab, **clab), "x0": x0, "returned": xr, "success": ok, "exit": ex,
                      "n_reported": len(iterates), "n_trial_steps": ndog[0]}

            # (2) returned point is the last reported iterate (or the start if nothing was reported)
            if iterates:
                if not onp.array_equal(xr, iterates[-1], equal_nan=True):
                    sigs.append(("returned-not-last-reported", {"last": iterates[-1]}))
            elif entry in ("trm", "nes-nowarm", "nes-nowarm-noupd"):
                if not onp.array_equal(xr, onp.asarray(x0, dtype=float), equal_nan=True):
                    sigs.append(("returned-not-start-when-nothing-reported", {}))
            # (3) finiteness
            if finite_everywhere and entry in ("trm", "nes-nowarm", "nes-nowarm-noupd"):
                if not all(onp.all(onp.isfinite(it)) for it in iterates) or not onp.all(onp.isfinite(xr)):
                    sigs.append(("non-finite-iterate", {}))
            # objective.p afterwards
            same_p = all((a is None and b is None) or (a is not None and b is not None and
                                                        onp.array_equal(onp.asarray(a), onp.asarray(b)))
                         for a, b in zip(obj.p, pnew))
            if not same_p:
                sigs.append(("objective.p-not-requested", {}))
            # (1) descent along reported iterates, in the solver's own evaluation
            if not cval["incr"]:
                seq = ([onp.asarray(x0, dtype=float)] if entry in ("trm", "nes-nowarm", "nes-nowarm-noupd") else []) + iterates
                vals = [float(obj.objective(jnp.array(xx), pnew)) for xx in seq]
                for i, xx in enumerate(seq):
                    if onp.all(onp.isfinite(xx)):
                        rv = float(rvalue(xx, d))
                        S = float(rres(xx, d))
                        if onp.isfinite(rv) and onp.isfinite(vals[i]):
                            rec.track_max("ref_vs_lib_value_rel_resolution", abs(rv - vals[i]) / max(S, 1e-300))
                            if abs(rv - vals[i]) > 1e-11 * max(S, 1e-300) + 1e-300:
                                sigs.append(("objective-not-the-reference-function", {"ref": rv, "lib": vals[i]}))
                                break
                for i in range(len(seq) - 1):
                    a, b = vals[i], vals[i + 1]
                    last_conv = ok and ex == "converged" and i == len(seq) - 2
                    if b != b or a != a:
                        if finite_everywhere or onp.all(onp.isfinite(seq[i + 1])):
                            sigs.append(("nan-objective-at-reported-iterate", {"index": i + 1}))
                        else:
                            sigs.append(("reported-iterate-outside-domain", {"index": i + 1, "x": seq[i + 1]}))
                        break
                    if b > a:
                        S = max(float(rres(seq[i], d)), float(rres(seq[i + 1], d)))
                        if last_conv:
                            rec.track_max("converged_exit_increase_over_resolution", (b - a) / max(S, 1e-300))
                            if (b - a) <= (8 + 4 * n) * EPS * S:
                                rec.branch("converged-exit-rounding-increase")
                                continue
                            sigs.append(("objective-increase-at-converged-trial", {"from": a, "to": b, "index": i + 1}))
                        else:
                            sigs.append(("objective-increase-at-accepted-iterate", {"from": a, "to": b, "index": i + 1}))
                        break
            # (4) honest flag under the requested parameters
            if ok:
                gr = rgrad(xr, d) if onp.all(onp.isfinite(xr)) else onp.array([onp.nan])
                gn = float(onp.linalg.norm(gr))
                rec.track_max("gradnorm_over_tol_at_success", gn / cval["tol"] if gn == gn else float("inf"))
                allow = RO.grad_allowance(fam, xr, d) if onp.all(onp.isfinite(xr)) else 0.0
                rec.track_max("gradient_rounding_allowance_over_tol", allow / cval["tol"])
                if not gn < cval["tol"] * (1 + 1e-6) + 1e-13 + allow:
                    sigs.append(("success-with-large-gradient", {"gradnorm": gn, "tol": cval["tol"], "allowance": allow}))
            # (5) well-conditioned strictly convex, default settings: success and the unique minimiser
            if ndev == 0 and plab["fam"] in ("quartic:spd1", "quartic:spd100"):
                xs = onp.linalg.solve(d["A"], d["b"])
                err = float(onp.linalg.norm(xr - xs))
                rec.track_max("spd_default_error_over_bound", err / (10 * cval["tol"] / float(onp.min(d["lam"]))))
                if not ok:
                    sigs.append(("no-success-on-well-conditioned-convex-defaults", {}))
                elif not err <= 10 * cval["tol"] / float(onp.min(d["lam"])):
                    sigs.append(("not-the-unique-minimiser", {"error": err}))
            for sig, extra in sigs:
                rec.violation(fkey(sig, ex), cid, dict(detail, **extra))
            samp = None
            if sample_budget[0] > 0 and ndog[0] > 2 and stable_hash(cid + str(seed)) % 50 == 0:
                sample_budget[0] -= 1
                samp = {"case": cid, "exit": ex, "success": ok, "reported_iterates": len(iterates),
                        "trial_steps": ndog[0], "steps": [b[0] + (":acc" if b[1] else ":rej") for b in banner][:12]}
            rec.case(cid, nontrivial=ndog[0] > 0, outcome="%s:%s" % (ex, "ok" if not sigs else "violating"),
                     sample=samp, steps=max(1, ndog[0]))
