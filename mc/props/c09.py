"""C09 -- J2 plasticity update is irreversible, isochoric, yield-consistent, variational.

E-BFS over multi-step deformation histories on the REAL update (J2Plastic.create_material_model_functions ->
compute_state_new / compute_energy_density / jax.grad of it).  One model configuration (hardening law x rate
sensitivity x kinematics x dt) per group; action alphabet = 10 *target* plane-strain displacement gradients; all
histories up to the depth bound from the virgin state; states canonicalised by rounding the internal variables to
1e-10 and de-duplicated; frontier x actions evaluated level-synchronously under jit(vmap) in padded chunks of a
FIXED length (256), so each model compiles once.  Every transition is judged against the numpy reference model
mc/ref/j2_ref.py (log strain through numpy eigh, closed-form hardening laws and rate potential).

Execution-mode protocol (DESIGN D11): a transition that fails in the compiled batch is re-evaluated as single
jitted calls.  If the single evaluation passes and one of the tensors handed to the eigen-solver (Fe^T Fe of the old /
committed state, deviatoric elastic trial strain = direction of the exponential-map argument) has (nearly) repeated
principal values (relative gap <= 1e-6) it is the known finding `eigen_sym33_unit|batched|near-repeated-spectrum`;
otherwise it is an ordinary violation.  Exploration continues from the single-call state in that case.

kinematics='seth hill' (DESIGN D3) is gated: if the virgin undeformed state has non-zero energy / NaN stress the one
finding `J2Plastic|kinematics=seth hill|virgin-state|nonzero-energy-or-nan` is reported and nothing else; once that
is repaired the same exploration as for the other kinematics runs on it.

NaN states: a transition whose committed state / energy / stress is not finite violates every clause.  One input class
is separated out with the reference model (from the inputs only): the step must yield and the reference residual at the
root finder's upper bracket end eqps_old + (mises_trial - Y(eqps_old))/(3 mu) is at rounding level (perfect plasticity,
saturated Voce hardening).  There the library's bracket check `fl*fh < 0` is decided by rounding, the update returns
NaN, and because it is decided by rounding it may differ between the batched and the single compiled program; all of
these are reported under the one key `J2Plastic|update_state|vanishing-hardening-slope|nan-state`.
"""
import numpy as onp

ID = "C09"
TITLE = ("J2 update along every history of 12 target displacement gradients: eqps non-decreasing, plastic distortion "
         "isochoric, yield consistent, committed state minimises the incremental potential, idempotent and "
         "commit-invariant for rate-independent hardening")
LEVEL = "model_checking"
RULE = ("E-BFS per model configuration (hardening x rate sensitivity x kinematics x dt): every sequence of targets "
        "from a 10-element alphabet up to the depth bound, starting at the virgin state, states de-duplicated on the "
        "internal variables rounded to 1e-10. A case = one transition (canonical state, target) = one execution of "
        "the real compute_state_new (+ second update, energy and stress before/after commit for rate-independent "
        "models) compared with the reference model; case id = model labels + target-label history of the first path "
        "that reached the state + target label. Non-trivial (measured per transition) = the real update yielded "
        "(eqps_new > eqps_old).")
ASSUMPTIONS = [
    "reference model mc/ref/j2_ref.py: numpy only; log strain via numpy eigh; linear / Voce / power-law hardening and "
    "the power-law kinetic potential in closed form as read off Hardening.py; isochoric plasticity (tr Ee = log det F)",
    "one set of admissible material constants per hardening law (E=100, nu=0.321, Y0=0.3; H=1; Ysat=1.2, eps0=0.05; "
    "n=4, eps0=0.003; rate: S=0.3, m=2, epsDot0=0.1), plus perfect plasticity (set P: linear, H=0) in both kinematics; "
    "thorough adds a second set B (E=1e5, nu=0.25, Y0=30; Ysat=90, eps0=0.02; n=6, eps0=3e-4; S=10, m=4, epsDot0=1e-3) "
    "on two models",
    "targets are plane-strain displacement gradients (third row/column zero); shear magnitude, biaxial stretch and "
    "rotation angle are seed-dependent generic representatives; the at-yield / below-yield / 2x-yield targets are "
    "constructed from the reference model (never seed dependent)",
    "canonical rounding 1e-10 is below every oracle tolerance except the exact ones (eqps monotonicity is judged on "
    "the un-rounded state actually passed in)",
    "x64, CPU; batched evaluation always in padded chunks of exactly 256 (pad = zero gradient at the virgin state)",
    "yield consistency for rate-dependent models uses the dynamic yield surface Y(eqps_new) + overstress(eqps_new - "
    "eqps_old, dt)",
    "minimality is judged on energies only: reference potential evaluated at the COMMITTED state (no flow direction "
    "involved) must not exceed the reference potential at the reference minimiser, at the committed eqps and on an "
    "8-point geometric stencil around it along the reference radial-return direction; equality of the state with the "
    "lock-step reference state is tracked, not judged (plastic spin is not fixed by the property)",
    "compute_material_qoi (dissipation) is executed nowhere: no clause of the property speaks about it",
]
TOL_R_FACTOR = 10.0
TOLERANCES = {
    "eqps_new >= eqps_old": "exact",
    "|det Fp_new - 1| (large) ": "1e-10",
    "|tr eps_p_new| (small / seth hill)": "1e-14",
    "yield function at committed state": "<= 10 * 1e-10 * Y0 + 4*eps*eqps*Phi''(eqps_new) (code's own root tolerance is "
                                         "1e-10*Y0; the second term is the conditioning of that case: one ulp of eqps "
                                         "moves the residual by eps*eqps*Phi'', unbounded for the power-law overstress "
                                         "as the increment -> 0+, where the solver exits by stagnation; worst observed "
                                         "1.4e-10*Y0 there, 9.99e-11*Y0 = solver tolerance elsewhere)",
    "stationarity |r_ref(eqps_new)| when yielding; r_ref(eqps_old) >= -tol when elastic": "same tolerance",
    "committed potential - min(reference potential on stencil, at reference minimiser, at committed eqps)": "<= 1e-11 * max(1, |Phi|) (worst observed 1.4e-14; second order in every first-order error)",
    "second update at the same target (rate-independent)": "max |state change| <= 1e-9",
    "energy before vs after commit (rate-independent)": "<= tol_c * (|W| + Y0^2/E); tol_c = 1e-9 (small), 1e-7 (large, seth "
                                                        "hill: eigen-solver based, C12's calibrated accuracy)",
    "stress before vs after commit (rate-independent)": "<= tol_c * (|P|_F + Y0)  (a-priori from the root tolerance: "
                                                        "|dP| <= |r| |d eqps/dH| <= 0.8e-10*Y0; worst observed small "
                                                        "1.9e-10... large 5.2e-10 at an in-plane eigenvalue gap of 1e-8 "
                                                        "of Ce in generic orientation)",
    "D11 classification": "relative eigenvalue gap <= 1e-6 of a tensor handed to the eigen-solver",
}

CHUNK = 256
D11_KEY = "eigen_sym33_unit|batched|near-repeated-spectrum"
D3_KEY = "J2Plastic|kinematics=seth hill|virgin-state|nonzero-energy-or-nan"
FLAT_KEY = "J2Plastic|update_state|vanishing-hardening-slope|nan-state"
CANON = 1e-10
MAX_TRANSITIONS = 400000

CONSTS = {"A": {"E": 100.0, "nu": 0.321, "Y0": 0.3,
                "linear": {"H": 1.0}, "voce": {"Ysat": 1.2, "eps0": 0.05}, "power law": {"n": 4.0, "eps0": 0.003},
                "rate": {"S": 0.3, "m": 2.0, "epsDot0": 0.1}},
          "B": {"E": 100.0e3, "nu": 0.25, "Y0": 30.0,
                "linear": {"H": 500.0}, "voce": {"Ysat": 90.0, "eps0": 0.02}, "power law": {"n": 6.0, "eps0": 3e-4},
                "rate": {"S": 10.0, "m": 4.0, "epsDot0": 1e-3}},
          # nearly rate-insensitive metal (rate exponent 20): the overstress law is very steep at small plastic increments
          "C": {"E": 100.0e3, "nu": 0.25, "Y0": 30.0, "linear": {"H": 500.0},
                "rate": {"S": 10.0, "m": 20.0, "epsDot0": 1e-3}},
          # perfect plasticity: an admissible constant (the library's own test_RateSensitivity uses hardening modulus 0)
          "P": {"E": 100.0, "nu": 0.321, "Y0": 0.3, "linear": {"H": 0.0}},
          # perfect plasticity in SI units (Pa): stresses of order 1e8..1e11, so anything scaled by a bare tolerance instead
          # of tolerance*Y0 is far below rounding (a seeded change of that kind went undetected with O(1) constants)
          "Q": {"E": 200.0e9, "nu": 0.3, "Y0": 250.0e6, "linear": {"H": 0.0}}}
LAWS = ["linear", "voce", "power law"]
KINS = ["large", "small"]
DTS = [("1e-3", 1e-3), ("1", 1.0), ("1e3", 1e3)]
# uc:2.3x-yield / uc:3x-yield continue uc:2x-yield monotonically with SMALL plastic increments on top of an accumulated
# plastic strain (a seeded change that only misbehaves when eqps_old exceeds half the root bracket went undetected)
# ut:1.0001x-yield: a tiny plastic increment from the virgin state; with a steep rate sensitivity (set C) the root sits 15
# orders of magnitude below the upper end of the bracket and only bisection down to the step tolerance finds it (defect D30)
TARGETS = ["ut:1e-6", "uc:below-yield", "ut:at-yield", "ut:1.0001x-yield", "uc:2x-yield", "uc:2.3x-yield", "uc:3x-yield", "ut:0.2", "shear+",
           "shear-", "biax", "rot", "zero"]


def _depth(tier, g=None):
    if tier == "quick":
        return 3
    return 5


def _models(tier):
    ms = []
    for kin in KINS:                       # large first: heaviest compilation
        for law in LAWS:
            ms.append({"kin": kin, "law": law, "rate": False, "dt": "1", "set": "A"})
    for kin in KINS:
        for law in LAWS:
            for dl, _ in DTS:
                ms.append({"kin": kin, "law": law, "rate": True, "dt": dl, "set": "A"})
    for kin in KINS:
        ms.append({"kin": kin, "law": "linear", "rate": True, "dt": "1", "set": "C"})
    for kin in KINS:
        ms.append({"kin": kin, "law": "linear", "rate": False, "dt": "1", "set": "P"})
    for kin in KINS:
        ms.append({"kin": kin, "law": "linear", "rate": False, "dt": "1", "set": "Q"})
    if tier == "thorough":
        ms.append({"kin": "large", "law": "voce", "rate": False, "dt": "1", "set": "B"})
        ms.append({"kin": "small", "law": "power law", "rate": True, "dt": "1", "set": "B"})
    ms.append({"kin": "seth hill", "law": "linear", "rate": False, "dt": "1", "set": "A"})
    for m in ms:
        m["name"] = "%s|%s|rate=%s|dt=%s|set=%s" % (m["kin"], m["law"], "on" if m["rate"] else "off", m["dt"], m["set"])
    order = {"large": 0, "small": 1, "seth hill": 2}
    ms.sort(key=lambda m: (order[m["kin"]], m["rate"]))   # stable: heaviest first (4 real calls per transition)
    return ms


def bounds(tier):
    return {"targets": len(TARGETS), "target_labels": TARGETS, "depth": _depth(tier),
            "models": [m["name"] for m in _models(tier)], "chunk": CHUNK, "canon_rounding": CANON,
            "max_transitions_per_model": MAX_TRANSITIONS, "d11_gap_threshold": 1e-6}


def groups(tier, seed):
    return _models(tier)


# ----------------------------------------------------------------------------------------------------
# model construction
# ----------------------------------------------------------------------------------------------------

def _lib_props(g):
    c = CONSTS[g["set"]]
    p = {"elastic modulus": c["E"], "poisson ratio": c["nu"], "yield strength": c["Y0"],
         "hardening model": g["law"],
         "kinematics": {"large": "large deformations", "small": "small deformations",
                        "seth hill": "seth hill"}[g["kin"]]}
    lp = c[g["law"]]
    if g["law"] == "linear":
        p["hardening modulus"] = lp["H"]
    elif g["law"] == "voce":
        p["saturation strength"] = lp["Ysat"]
        p["reference plastic strain"] = lp["eps0"]
    else:
        p["hardening exponent"] = lp["n"]
        p["reference plastic strain"] = lp["eps0"]
    if g["rate"]:
        r = c["rate"]
        p["rate sensitivity"] = "power law"
        p["rate sensitivity stress"] = r["S"]
        p["rate sensitivity exponent"] = r["m"]
        p["reference plastic strain rate"] = r["epsDot0"]
    return p


def _ref(g):
    from mc.ref.j2_ref import J2Ref
    c = CONSTS[g["set"]]
    return J2Ref(c["E"], c["nu"], c["Y0"], g["law"], c[g["law"]], rate=(c["rate"] if g["rate"] else None),
                 kin=g["kin"])


def _targets(ref, seed):
    """12 labelled plane-strain displacement gradients (3x3, third row/column zero)."""
    rng = onp.random.default_rng([int(seed), 909])
    u = rng.uniform(size=3)
    gamma = 0.03 + 0.05 * u[0]
    biax = 0.02 + 0.04 * u[1]
    theta = 0.2 + 0.6 * u[2]
    Y0 = ref.Y0

    def uni(e):
        H = onp.zeros((3, 3))
        H[0, 0] = e
        return H
    e_below, _ = ref.uniaxial_for_mises(Y0 * (1.0 - 1e-6), -1.0)
    e_at, m_at = ref.uniaxial_for_mises(Y0, +1.0)
    e_2y, _ = ref.uniaxial_for_mises(2.0 * Y0, -1.0)
    e_just, _ = ref.uniaxial_for_mises(Y0 * (1.0 + 1e-4), +1.0)
    e_23y, _ = ref.uniaxial_for_mises(2.3 * Y0, -1.0)
    e_3y, _ = ref.uniaxial_for_mises(3.0 * Y0, -1.0)
    sh = onp.zeros((3, 3))
    sh[0, 1] = gamma
    R = onp.eye(3)
    R[0, 0] = R[1, 1] = onp.cos(theta)
    R[0, 1] = -onp.sin(theta)
    R[1, 0] = onp.sin(theta)
    T = {"ut:1e-6": uni(1e-6), "uc:below-yield": uni(e_below), "ut:at-yield": uni(e_at), "ut:1.0001x-yield": uni(e_just), "uc:2x-yield": uni(e_2y),
         "uc:2.3x-yield": uni(e_23y), "uc:3x-yield": uni(e_3y), "ut:0.2": uni(0.2), "shear+": sh, "shear-": -sh, "biax": onp.diag([biax, biax, 0.0]),
         "rot": R - onp.eye(3), "zero": onp.zeros((3, 3))}
    info = {"gamma": gamma, "biax": biax, "theta": theta, "e_below": e_below, "e_at": e_at, "e_2y": e_2y,
            "ref_mises_at_yield_minus_Y0": m_at - Y0}
    return [(l, T[l]) for l in TARGETS], info


# ----------------------------------------------------------------------------------------------------
# running the real code
# ----------------------------------------------------------------------------------------------------

class _Programs:
    """The real update / energy / stress, compiled once per model in batched form (fixed chunk) and lazily as
    single calls."""

    def __init__(self, model, rate_on):
        import jax
        self.jax = jax
        self.rate_on = rate_on
        self.upd = lambda H, s, dt: model.compute_state_new(H, s, dt)
        if rate_on:
            self.eng = lambda H, s, dt: model.compute_energy_density(H, s, dt)
        else:
            self.eng = lambda H, s, dt: jax.value_and_grad(model.compute_energy_density, 0)(H, s, dt)
        self.updB = jax.jit(jax.vmap(self.upd, (0, 0, None)))
        self.engB = jax.jit(jax.vmap(self.eng, (0, 0, None)))
        self._upd1 = None
        self._eng1 = None
        self.calls_per_case = 2 if rate_on else 4

    def _run(self, upd, eng, H, s0, dt):
        out = {}
        s1 = onp.asarray(upd(H, s0, dt), dtype=float)
        out["s1"] = s1
        if self.rate_on:
            out["W0"] = onp.asarray(eng(H, s0, dt), dtype=float)
            return out
        W0, P0 = eng(H, s0, dt)
        out["W0"], out["P0"] = onp.asarray(W0, dtype=float), onp.asarray(P0, dtype=float)
        s1in = onp.where(onp.isfinite(s1), s1, 0.0)   # non-finite states are judged 'nan' anyway
        W1, P1 = eng(H, s1in, dt)
        out["W1"], out["P1"] = onp.asarray(W1, dtype=float), onp.asarray(P1, dtype=float)
        out["s2"] = onp.asarray(upd(H, s1in, dt), dtype=float)
        return out

    def batched(self, H, s0, dt, pad_state):
        """H (n,3,3), s0 (n,10) -> dict of arrays of length n; evaluated in padded chunks of CHUNK."""
        n = H.shape[0]
        parts = []
        for a in range(0, n, CHUNK):
            b = min(n, a + CHUNK)
            Hc = onp.zeros((CHUNK, 3, 3))
            Sc = onp.tile(pad_state, (CHUNK, 1))
            Hc[:b - a] = H[a:b]
            Sc[:b - a] = s0[a:b]
            o = self._run(self.updB, self.engB, Hc, Sc, dt)
            parts.append({k: v[:b - a] for k, v in o.items()})
        return {k: onp.concatenate([p[k] for p in parts], axis=0) for k in parts[0]}

    def single(self, H, s0, dt):
        if self._upd1 is None:
            self._upd1 = self.jax.jit(self.upd)
            self._eng1 = self.jax.jit(self.eng)
        o = self._run(self._upd1, self._eng1, H, s0, dt)
        return {k: v[None] for k, v in o.items()}


# ----------------------------------------------------------------------------------------------------
# oracle (vectorised over the transitions of one level; also used on single re-evaluations with n = 1)
# ----------------------------------------------------------------------------------------------------

SIG_ORDER = ["nan", "eqps-decreased", "not-isochoric", "yield-exceeded", "elastic-but-potential-decreases",
             "not-stationary", "not-minimal", "not-idempotent", "commit-changes-energy", "commit-changes-stress"]


def _fro(A):
    return onp.sqrt((A * A).sum(axis=(-2, -1)))


def _judge(ref, g, H, s0, out, dt):
    """Returns (fails, met): fails[i] = list of (signature, detail) ; met = {name: array(n)} calibration numbers."""
    n = H.shape[0]
    rate_on = g["rate"]
    Y0 = ref.Y0
    tol_r0 = TOL_R_FACTOR * 1e-10 * Y0
    tol_c = 1e-9 if ref.kin == "small" else 1e-7     # commit invariance: eigen-solver based kinematics see C12's 1e-7
    s1 = out["s1"]
    e0, e1 = s0[:, 0], s1[:, 0]
    fails = [[] for _ in range(n)]
    met = {}
    finite = onp.isfinite(s1).all(axis=1) & onp.isfinite(out["W0"])
    if not rate_on:
        finite &= (onp.isfinite(out["s2"]).all(axis=1) & onp.isfinite(out["W1"])
                   & onp.isfinite(out["P0"]).all(axis=(1, 2)) & onp.isfinite(out["P1"]).all(axis=(1, 2)))
    s1f = onp.where(finite[:, None], s1, s0)          # keep the arithmetic below finite; nan cases are flagged
    e1f = s1f[:, 0]
    with onp.errstate(all="ignore"):
        # (1) irreversibility, exact
        dec = e0 - e1f
        met["eqps decrease"] = onp.maximum(dec, 0.0)
        # (2) isochoric
        P1 = s1f[:, 1:10].reshape(n, 3, 3)
        if ref.kin == "large":
            iso = onp.abs(onp.linalg.det(P1) - 1.0)
            iso_name, iso_tol = "|det Fp - 1|", 1e-10
        else:
            iso = onp.abs(onp.trace(P1, axis1=1, axis2=2))
            iso_name, iso_tol = "|tr eps_p|", 1e-14
        met[iso_name] = iso
        # (3) yield function at the committed state (dynamic yield surface for rate-dependent models)
        m1 = ref.measures(H, s1f)
        fy = m1["mises"] - ref.Y(e1f) - ref.sig_rate(e1f - e0, dt)
        met["yield excess / Y0"] = onp.maximum(fy, 0.0) / Y0
        # (4) minimality along the reference radial-return direction
        m0 = ref.measures(H, s0)
        a = m0["a"]
        yielding = e1f > e0
        # conditioning of the scalar problem: one rounding step of eqps changes the residual by eps*eqps*Phi''
        # (Phi'' is unbounded for a power-law overstress as the increment -> 0+); the root finder cannot do better
        d2 = 3.0 * ref.mu + ref.dY(e1f) + onp.where(yielding, ref.dsig_rate(onp.where(yielding, e1f - e0, 1.0), dt), 0.0)
        cond = 2.220446049250313e-16 * onp.maximum(e1f, onp.abs(a)) * d2
        tol_r = tol_r0 + 4.0 * cond
        met["conditioning term 4*eps*eqps*Phi'' / Y0 (added to the residual tolerances)"] = 4.0 * cond / Y0
        r_new = ref.resid(e1f, a, e0, dt)
        r_old = ref.resid(e0, a, e0, dt)
        # resolution window of the scalar solve: the library stops when its bracket is narrower than 2 eps (eqps_old +
        # trial increment) <= 4 eps max(eqps, a) (its step tolerance; plus the rounding of eqps_old + increment).  With a
        # steep power-law overstress (exponent 20) the residual changes by several per cent of Y0 over ONE spacing of eqps,
        # which the derivative based conditioning term above underestimates by the factor m.  'To the solver tolerance'
        # therefore also holds when the increasing reference residual changes sign within +-w of the returned eqps.
        w = 8.0 * 2.220446049250313e-16 * onp.maximum(e1f, onp.abs(a))
        r_hi = ref.resid(e1f + w, a, e0, dt)
        r_lo = ref.resid(onp.maximum(e0, e1f - w), a, e0, dt)
        fy_hi = m1["mises"] - ref.Y(e1f + w) - ref.sig_rate(e1f + w - e0, dt)
        r_old_hi = ref.resid(e0 + w, a, e0, dt)
        met["stationarity |r| / Y0 (yielding)"] = onp.where(yielding, onp.abs(r_new), 0.0) / Y0
        met["one-sided -r(eqps_old) / Y0 (elastic)"] = onp.where(~yielding, onp.maximum(-r_old, 0.0), 0.0) / Y0
        phi_c = ref.committed_potential(H, s1f, e0, dt)
        e_star = ref.solve(a, e0, dt)
        scale = Y0 / (3.0 * ref.mu)
        offs = onp.array([-1.0, -1e-2, -1e-4, -1e-6, 1e-6, 1e-4, 1e-2, 1.0]) * scale
        pts = onp.concatenate([e1f[:, None] + offs[None, :], e_star[:, None], e1f[:, None]], axis=1)
        adm = pts >= e0[:, None]
        phis = ref.phi(pts, a[:, None], e0[:, None], dt)
        phis = onp.where(adm, phis, onp.inf)
        phi_min = phis.min(axis=1)
        phi_scale = onp.maximum(1.0, onp.abs(phi_c))
        excess = (phi_c - phi_min) / phi_scale
        met["potential excess over stencil / max(1,|Phi|)"] = onp.maximum(excess, 0.0)
        # lock-step reference state (tracked only)
        sref = ref.step(H, s0, dt)
        met["lock-step |eqps - eqps_ref| (tracked)"] = onp.abs(e1f - sref[:, 0])
        met["lock-step max|state - state_ref| (tracked)"] = onp.abs(s1f - sref).max(axis=1)
        if not rate_on:
            s2 = onp.where(finite[:, None], out["s2"], s1f)
            idem = onp.abs(s2 - s1f).max(axis=1)
            met["second update max|change|"] = idem
            W0, W1, P0, P1s = out["W0"], out["W1"], out["P0"], out["P1"]
            dW = onp.abs(W1 - W0) / (onp.abs(W0) + Y0 * Y0 / ref.E)
            dP = _fro(onp.where(finite[:, None, None], P1s - P0, 0.0)) / (_fro(onp.where(finite[:, None, None], P0, 0.0)) + Y0)
            dW = onp.where(finite, dW, 0.0)
            met["energy before/after commit (rel)"] = dW
            met["stress before/after commit (rel)"] = dP
    for i in range(n):
        f = fails[i]
        if not finite[i]:
            what = [k for k in ("s1", "W0", "s2", "W1", "P0", "P1") if k in out and not onp.all(onp.isfinite(out[k][i]))]
            f.append(("nan", {"non_finite": what}))
            continue
        if not (e1[i] >= e0[i]):
            f.append(("eqps-decreased", {"eqps_old": e0[i], "eqps_new": e1[i]}))
        if not (iso[i] <= iso_tol):
            f.append(("not-isochoric", {iso_name: iso[i], "tol": iso_tol}))
        if not (fy[i] <= tol_r[i] or fy_hi[i] <= tol_r[i]):
            f.append(("yield-exceeded", {"yield_function": fy[i], "tol": tol_r[i], "mises": m1["mises"][i],
                                         "yield_function_at_eqps_plus_resolution": fy_hi[i]}))
        if yielding[i]:
            if not (abs(r_new[i]) <= tol_r[i] or (r_lo[i] <= tol_r[i] and r_hi[i] >= -tol_r[i])):
                f.append(("not-stationary", {"r_ref(eqps_new)": r_new[i], "tol": tol_r[i], "eqps_ref": e_star[i],
                                             "r_ref(eqps_new-w)": r_lo[i], "r_ref(eqps_new+w)": r_hi[i], "w": w[i]}))
        else:
            if not (r_old[i] >= -tol_r[i] or r_old_hi[i] >= -tol_r[i]):
                f.append(("elastic-but-potential-decreases", {"r_ref(eqps_old)": r_old[i], "tol": tol_r[i],
                                                               "eqps_ref": e_star[i]}))
        if not (excess[i] <= 1e-11):
            k = int(onp.argmin(phis[i]))
            f.append(("not-minimal", {"Phi(committed state)": phi_c[i], "Phi_ref_min": phi_min[i],
                                      "at_eqps": pts[i, k], "eqps_new": e1[i], "eqps_ref_minimiser": e_star[i]}))
        if not rate_on:
            if not (idem[i] <= 1e-9):
                f.append(("not-idempotent", {"max_change": idem[i], "state_after_second_update": out["s2"][i]}))
            if not (dW[i] <= tol_c):
                f.append(("commit-changes-energy", {"W_before": out["W0"][i], "W_after": out["W1"][i]}))
            if not (dP[i] <= tol_c):
                f.append(("commit-changes-stress", {"P_before": out["P0"][i], "P_after": out["P1"][i]}))
    aux = {"yielding": yielding & finite, "finite": finite, "flow_dir_defined": m0["flow_dir_defined"],
           "N": m0["N"], "r_old": r_old, "mises_trial": m0["mises"], "a": a, "dt": dt}
    return fails, met, aux


def _flat_bracket(ref, aux, i, e_old, dt):
    """Reference-side input class (computed from the inputs only): the update must yield, and r_ref at the
    elastic-predictor bound (which equals Y(ub) - Y(eqps_old) + overstress >= 0 in exact arithmetic) is below the
    rounding level of the stresses, so whether the root finder sees a sign change is decided by rounding (and can
    therefore differ between the batched and the single compiled program)."""
    a = float(aux["a"][i])
    mis = float(aux["mises_trial"][i])
    y_old = float(ref.Y(e_old))
    if not (mis - y_old > 1e-10 * ref.Y0):
        return False
    ub = e_old + (mis - y_old) / (3.0 * ref.mu)
    r_ub = float(ref.resid(ub, a, e_old, dt))
    # rounding level of the library's residual there: ulps of the stresses and of 3 mu * eqps (the increment is
    # formed as a difference of accumulated plastic strains)
    return abs(r_ub) <= 64.0 * 2.220446049250313e-16 * max(mis, y_old, 3.0 * ref.mu * ub)


def _primary(fails):
    sigs = {s for s, _ in fails}
    for s in SIG_ORDER:
        if s in sigs:
            return s
    return sorted(sigs)[0]


def _key(g, sig, mode=None):
    k = "J2Plastic|kinematics=%s|hardening=%s|rate=%s" % (g["kin"], g["law"], "on" if g["rate"] else "off")
    if mode:
        k += "|" + mode
    return k + "|" + sig


# ----------------------------------------------------------------------------------------------------
# group driver
# ----------------------------------------------------------------------------------------------------

def _seth_hill_gate(model, rec, g):
    """True if D3 reproduces (then it is the only thing reported for this configuration)."""
    import jax
    from mc.runner import exception_key
    cid = "model=%s;virgin-undeformed" % g["name"]
    H = onp.zeros((3, 3))
    try:
        s = onp.asarray(model.compute_initial_state(), dtype=float)
        W, P = jax.jit(jax.value_and_grad(model.compute_energy_density, 0))(H, s, 1.0)
        W, P = float(W), onp.asarray(P, dtype=float)
    except Exception as e:  # noqa
        if rec.want(cid):
            rec.violation(_key(g, exception_key(e)), cid, {"error": repr(e)[:400]})
            rec.case(cid, nontrivial=False, outcome="exception")
        return True
    bad = not (onp.isfinite(W) and onp.all(onp.isfinite(P)) and abs(W) <= 1e-12 and onp.abs(P).max() <= 1e-10)
    if rec.want(cid):
        rec.branch("seth-hill gate: " + ("D3 reproduces" if bad else "virgin state is stress free"))
        if bad:
            rec.violation(D3_KEY, cid, {"dispGrad": H, "state": s, "energy_observed": W, "stress_observed": P,
                                        "expected": "energy 0, stress 0 at the undeformed virgin state"})
        rec.case(cid, nontrivial=False, outcome="seth-hill:virgin-" + ("broken" if bad else "ok"), steps=1)
    return bad


def run_group(g, tier, seed, rec):
    import warnings
    from optimism.material import J2Plastic as J2
    from mc.runner import exception_key
    from mc.core import stable_hash
    from mc.ref import j2_ref

    ref = _ref(g)
    dt = float(dict(DTS)[g["dt"]])
    maxd = _depth(tier, g)
    try:
        model = J2.create_material_model_functions(_lib_props(g))
        virgin = onp.asarray(model.compute_initial_state(), dtype=float).reshape(-1)
    except Exception as e:  # noqa
        rec.violation(_key(g, "construct|" + exception_key(e)), "model=%s;construct" % g["name"], {"error": repr(e)[:400]})
        return
    if virgin.shape != (10,) or not onp.array_equal(virgin, ref.virgin()):
        rec.violation(_key(g, "initial-state"), "model=%s;construct" % g["name"], {"state": virgin})
        return
    if g["kin"] == "seth hill" and _seth_hill_gate(model, rec, g):
        return

    targets, tinfo = _targets(ref, seed)
    rec.notes["targets:" + g["name"]] = tinfo
    nT = len(targets)
    Ht = onp.stack([T for _, T in targets])
    prog = _Programs(model, g["rate"])

    seen = {}
    k0 = tuple(onp.round(virgin / CANON).astype(onp.int64).tolist())
    seen[k0] = ()
    rec.state(repr((g["name"],) + k0))
    frontier = [((), virgin)]
    ntrans = 0

    def tensors_near_repeated(H, s0, s1):
        gaps = []
        for S in (s0, s1):
            if S is None or not onp.all(onp.isfinite(S)):
                continue
            for Tn in ref.decomposed_tensors(H[None], S[None]):
                gaps.append(float(j2_ref.rel_gap_sym(Tn)[0]))
        return (min(gaps) if gaps else None), gaps

    with warnings.catch_warnings():
        warnings.simplefilter("ignore")
        for depth in range(1, maxd + 1):
            if not frontier:
                break
            n = len(frontier) * nT
            if ntrans + n > MAX_TRANSITIONS:
                rec.notes["capped"] = True
                break
            ntrans += n
            H = onp.tile(Ht, (len(frontier), 1, 1))
            s0 = onp.repeat(onp.stack([s for _, s in frontier]), nT, axis=0)
            hists = [h for h, _ in frontier for _ in range(nT)]
            tl = [l for _ in frontier for l, _ in targets]
            try:
                out = prog.batched(H, s0, dt, virgin)
            except Exception as e:  # noqa  (library raised inside the compiled batch: no per-case attribution)
                rec.violation(_key(g, exception_key(e), "batched"), "model=%s;depth=%d" % (g["name"], depth),
                              {"error": repr(e)[:600]})
                return
            fails, met, aux = _judge(ref, g, H, s0, out, dt)
            s_next = out["s1"].copy()
            rec.depth(depth)
            for i in range(n):
                cid = "model=%s;hist=%s" % (g["name"], ",".join(hists[i] + (tl[i],)))
                want = rec.want(cid)
                f = fails[i]
                outcome = None
                if f:
                    # execution-mode protocol: re-evaluate this one transition as single compiled calls
                    try:
                        o1 = prog.single(H[i], s0[i], dt)
                        f1, met1, aux1 = _judge(ref, g, H[i:i + 1], s0[i:i + 1], o1, dt)
                        f1 = f1[0]
                    except Exception as e:  # noqa
                        o1, f1 = None, [(exception_key(e), {"error": repr(e)[:400]})]
                    detail = {"history": list(hists[i]), "target": tl[i], "dispGrad": H[i], "state_old": s0[i], "dt": dt,
                              "batched": {"state_new": out["s1"][i], "failures": [{"signature": s, **d} for s, d in f]},
                              "single": None if o1 is None else {"state_new": o1["s1"][0],
                                                                 "failures": [{"signature": s, **d} for s, d in f1]}}
                    nan_involved = _primary(f) == "nan" or (bool(f1) and _primary(f1) == "nan")
                    if nan_involved and _flat_bracket(ref, aux, i, s0[i, 0], dt):
                        # input class measured with the reference model on the inputs: yielding step whose
                        # elastic-predictor bound (the root finder's upper bracket end) has a residual at rounding level
                        key = FLAT_KEY
                        outcome = "fail:nan:vanishing-hardening-slope"
                        detail["input_class"] = ("yielding step; reference residual at the upper bracket end eqps_old + "
                                                 "(mises_trial - Y(eqps_old))/(3 mu) is at rounding level")
                        detail["single_call_passes"] = not f1
                        if want:
                            rec.branch("nan with rounding-level residual at the upper bracket end (%s)"
                                       % ("batched only" if not f1 else "batched and single"))
                        if o1 is not None and onp.all(onp.isfinite(o1["s1"][0])):
                            s_next[i] = o1["s1"][0]
                    elif not f1:
                        gap, gaps = tensors_near_repeated(H[i], s0[i], o1["s1"][0])
                        detail["relative_eigen_gaps"] = gaps
                        if gap is not None and gap <= 1e-6:
                            key = D11_KEY
                            outcome = "d11"
                            if want:
                                rec.branch("protocol:batched-fail/single-pass/near-repeated -> D11")
                        else:
                            key = _key(g, _primary(f), "batched-only")
                            outcome = "fail:batched-only:" + _primary(f)
                            if want:
                                rec.branch("protocol:batched-only violation")
                        s_next[i] = o1["s1"][0]         # continue exploring from the single-call state
                        for k in aux:
                            if isinstance(aux[k], onp.ndarray):
                                aux[k][i] = aux1[k][0]
                    else:
                        key = _key(g, _primary(f1))
                        outcome = "fail:" + _primary(f1)
                        if want:
                            rec.branch("protocol:ordinary violation (single call fails too)")
                        if o1 is not None and onp.all(onp.isfinite(o1["s1"][0])):
                            s_next[i] = o1["s1"][0]
                    if want:
                        rec.violation(key, cid, detail)
                ok_state = bool(onp.all(onp.isfinite(s_next[i])))
                yielding = bool(aux["yielding"][i]) and ok_state
                if want:
                    if not f:
                        for k, v in met.items():
                            rec.track_max(k, v[i])
                    if outcome is None:
                        e_old = s0[i, 0]
                        if yielding:
                            outcome = "yield:first" if e_old == 0.0 else "yield:hardened"
                        else:
                            outcome = "elastic:virgin" if e_old == 0.0 else "elastic:hardened"
                    _branches(rec, ref, g, tl[i], H[i], s0[i], s_next[i], yielding, aux, i, out, f)
                    samp = None
                    if stable_hash("%d|%s" % (seed, cid)) % 997 == 0:
                        samp = {"case": cid, "dispGrad": H[i], "state_old": s0[i], "state_new": s_next[i], "dt": dt,
                                "outcome": outcome}
                    rec.case(cid, nontrivial=yielding, outcome=outcome, sample=samp, steps=prog.calls_per_case)
                if not ok_state:
                    continue
                key_c = tuple(onp.round(s_next[i] / CANON).astype(onp.int64).tolist())
                if key_c in seen:
                    continue
                seen[key_c] = hists[i] + (tl[i],)
                rec.state(repr((g["name"],) + key_c))
            # next frontier in first-reached order
            if depth < maxd:
                nxt = []
                taken = set()
                for i in range(n):
                    if not onp.all(onp.isfinite(s_next[i])):
                        continue
                    key_c = tuple(onp.round(s_next[i] / CANON).astype(onp.int64).tolist())
                    h = hists[i] + (tl[i],)
                    if seen.get(key_c) == h and key_c not in taken:
                        taken.add(key_c)
                        nxt.append((h, s_next[i].copy()))
                frontier = nxt
    rec.notes["states:" + g["name"]] = len(seen)
    rec.notes["transitions:" + g["name"]] = ntrans


def _branches(rec, ref, g, label, H, s0, s1, yielding, aux, i, out, fails):
    """Named control events actually reached (coverage accounting only)."""
    rec.branch("update:yield" if yielding else "update:elastic")
    if not aux["flow_dir_defined"][i]:
        rec.branch("flow-direction:dummy (deviator ~ 0)")
    e_old = s0[0]
    if yielding and e_old > 0.0:
        Pold = s0[1:10].reshape(3, 3)
        if ref.kin == "large":
            with onp.errstate(all="ignore"):
                w, V = onp.linalg.eigh(Pold.T @ Pold)
                Ep = (V * (0.5 * onp.log(w))[None, :]) @ V.T
        else:
            Ep = Pold
        N = aux["N"][i]
        c = float((Ep * N).sum() / max(1e-300, onp.sqrt((Ep * Ep).sum() * (N * N).sum())))
        rec.branch("yield:reversal (flow opposes accumulated plastic strain)" if c < -0.5 else
                   ("yield:continued (flow along accumulated plastic strain)" if c > 0.99 else "yield:non-proportional"))
    if label == "ut:at-yield" and e_old == 0.0:
        rec.branch("target exactly at yield from virgin state: " + ("yields" if yielding else "elastic"))
    if not yielding and aux["r_old"][i] < 0.0:
        rec.branch("elastic inside the yield tolerance band (0 < f <= 1e-10*Y0)")
    if yielding:
        try:
            for lab in ref.rootfind_path_labels(float(aux["a"][i]), float(e_old), aux["dt"], 1e-10 * ref.Y0):
                rec.branch("rootfind(replica on ref residual): " + lab)
        except Exception:  # noqa  (coverage accounting only)
            rec.branch("rootfind(replica on ref residual): replica failed")
    if not g["rate"] and not fails and "s2" in out:
        ch = float(onp.abs(out["s2"][i] - out["s1"][i]).max())
        rec.branch("second update: exactly no change" if ch == 0.0 else "second update: change within 1e-9")
        if yielding:
            rec.branch("second update after a yielding step (state on the yield surface)")
