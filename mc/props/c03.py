"""C03 -- the function space reproduces polynomials and integrates them exactly on any mesh.

E-PROD: full Cartesian product of
    mesh (topology x geometric variant) x cyclic vertex-rotation pattern (ALL 3^ne for ne <= 4)
    x element order 1..5 x bubble off/on x triangle rule degree 1..10 x mode {cartesian, axisymmetric}
    x EVERY monomial x^a y^b up to the bound,
plus, per (mesh, pattern, element), the 1-D rule degree axis for the divergence theorem over the closed
boundary, plus the rules on their reference domains.  One execution of the real code per point; the
oracle is the numpy reference model in mc/ref/fe_ref.py.
"""
import math

import numpy as onp

from mc.ref import fe_ref as R

ID = "C03"
TITLE = ("FunctionSpace / Interpolants / QuadratureRule / Mesh / Surface: partition of unity, exact nodal "
         "interpolation in value and gradient, sum(vols) = area, exact integration of every monomial up to the "
         "rule's stated degree (cartesian and axisymmetric), 1-D rules 0..25, divergence theorem over the boundary")
LEVEL = "model_checking"
RULE = ("E-PROD: (topology/geometry) x cyclic vertex-rotation pattern per element (all 3^ne for ne<=4; all-0/all-1/"
        "all-2/alternating/seeded otherwise) x element (order 1..5, bubble off/on for order>=2) x triangle rule "
        "degree 1..10 x mode (cartesian, axisymmetric at r>0) x every monomial (interpolation: degree<=order; "
        "integration: degree<=stated rule degree, axisymmetric degree+1<=stated degree); edge cases add the 1-D rule "
        "degree axis. A case = one (mesh, pattern, element, rule degree, mode[, path]) configuration with ALL its "
        "monomials; rule degrees that return bit-identical rule arrays share one FunctionSpace construction "
        "(canonical de-duplication, each degree still asserted with its own monomial set). Non-trivial (measured): "
        "some element's parent->physical Jacobian differs from the identity placement AND at least one monomial of "
        "positive degree was asserted in the case.")
ASSUMPTIONS = [
    "reference model mc/ref/fe_ref.py: numpy/scipy only; exact moments by an independent 16x16 Duffy x "
    "numpy-leggauss rule (degree 30), cross-checked in every run against the closed barycentric form",
    "meshes are valid: every element counter-clockwise, affine, min angle >= 12 deg for the seeded Delaunay family",
    "parent-element convention of the statement: vertex 0=(1,0), 1=(0,1), 2=(0,0) (documented in Interpolants, "
    "asserted by upstream tests); physical quadrature points are rebuilt from the three vertex coordinates",
    "stated degree of create_quadrature_rule_on_triangle(d) / create_quadrature_rule_1D(d) is the argument d; "
    "d=11,12 on the triangle must raise (documented limit) or be exact",
    "axisymmetric exactness is demanded only for monomials with degree+1 <= stated degree (conservative reading); "
    "what happens at degree = stated degree is recorded as an outcome, never a violation",
    "axisymmetric meshes are the same meshes translated to r_min = diameter/4 via Mesh.mesh_with_coords",
    "the divergence theorem is checked in cartesian form (integrate_function_on_edges has no 2*pi*r weight)",
    "batched evaluation over the monomial basis uses vmap with a fixed batch length (141 volume, 198 edge rows); "
    "all configurations of a (topology, element) share one jit of the public, documented-jittable entry points; "
    "on the first pattern of every geometry the configurations (degree=order, both modes) and (degree=2*order, "
    "cartesian) and the edge integrals with 1-D degree=order additionally run the eager public path "
    "construct_function_space / interpolate_to_points / compute_field_gradient / integrate_function_on_edges",
    "create_padded_quadrature_rule_1D holds five tabulated rules; stated degrees >= 10 silently clamp to the 5-point rule "
    "(exact to degree 9 only): reported under ONE open finding key (known_findings.json), degrees 0..9 are asserted like "
    "the unpadded rule",
]
TAU = 1e-10
PADDED_KEY = "create_padded_quadrature_rule_1D|stated-degree>=10|silently-clamped-to-5-point-rule"
TOLERANCES = {
    "all numerical oracles": "relative 1e-10 w.r.t. sum|terms| of the sum being tested (sum|N_a|, sum|grad N_a|, "
                             "(sum|N_a|) max_a|f(X_a)|, (sum|grad N_a|) max_a|f(X_a)|, integral of |integrand| from the reference rule, sum over edges of "
                             "integral |m n_c|); worst observed on the unchanged tree is recorded in observed_maxima",
    "sharpness observation": "a rule is called 'sharp' when some monomial one degree above the asserted bound has "
                             "relative error > 1e-8 (observation only)",
}

ETYPES = [(1, 0), (2, 0), (2, 1), (3, 0), (3, 1), (4, 0), (4, 1), (5, 0), (5, 1)]
QS = list(range(1, 11))
DEG_X = 11                      # monomials evaluated at quadrature points (asserted up to 10, 11 observed only)
DEG_U = 5                       # monomials carried as nodal fields
MX = R.monomials(DEG_X)
MU = R.monomials(DEG_U)
KX, KU = len(MX), len(MU)
DX = R.mono_degrees(MX)
DU = R.mono_degrees(MU)
MAX_VIOL_PER_KEY = 2


def _q1_axis(tier, order):
    return sorted({0, order, 25}) if tier == "quick" else list(range(0, 26))


def bounds(tier):
    geo = {}
    for topo in R.topologies(tier):
        gs = R.geometries(topo, tier, 0)
        ne = len(gs[0][2])
        geo[topo] = {"elements": ne, "geometries": [g[0] for g in gs],
                     "rotation_patterns": len(R.rotation_patterns(ne, 0))}
    return {"topologies": geo, "element_types": ["p%d%s" % (o, "b" if b else "") for o, b in ETYPES],
            "triangle_rule_degrees": QS, "modes": ["cart", "axi"],
            "edge_rule_degrees": "0,order,25" if tier == "quick" else "0..25",
            "monomial_degree_bound": {"interpolation": "order (<=5)", "integration": "stated degree (<=10)",
                                      "edge flux via nodal field": "min(order, 1-D degree)",
                                      "edge flux via coordinates": "min(1-D degree, 10)"},
            "reference_domain_rules": {"1D": "0..25", "1D padded": "0..9", "triangle": "0..10 (+11,12 must raise)"}}


def _npairs(topo, tier, seed):
    gs = R.geometries(topo, tier, seed)
    return len(gs) * len(R.rotation_patterns(len(gs[0][2]), seed)), len(gs[0][2])


def groups(tier, seed):
    gs = [{"name": "rules", "kind": "rules", "cost": 8.0}]
    target = 40.0
    for topo in R.topologies(tier):
        npairs, ne = _npairs(topo, tier, seed)
        for order, bub in ETYPES:
            # measured on an idle core: ~0.1-0.2 s per (mesh, pattern) of one element type, 6-12 s fixed per group
            per = 0.08 + 0.006 * ne + 0.01 * order + (0.0 if tier == "quick" else 0.08)
            fixed = 12.0 if bub else 6.0
            work = npairs * per
            nsh = max(1, int(math.ceil(work / target)))
            for s in range(nsh):
                gs.append({"name": "%s-p%d%s-s%d" % (topo, order, "b" if bub else "", s), "kind": "mesh",
                           "topo": topo, "order": order, "bubble": bub, "shard": s, "nshards": nsh,
                           "cost": fixed + work / nsh})
    gs.sort(key=lambda g: (-g["cost"], g["name"]))
    return gs


# ======================================================================================== helpers
def _rel(err, scale):
    """err/scale with every non-finite result mapped to +inf (so NaN output is never silently accepted)."""
    err = onp.asarray(err, dtype=float)
    scale = onp.asarray(scale, dtype=float)
    with onp.errstate(all="ignore"):
        r = err / onp.maximum(scale, 1e-300)
    return onp.where(onp.isfinite(r), r, onp.inf)


class _Viol:
    """At most MAX_VIOL_PER_KEY recorded violations per finding key and group (a broken routine fails everywhere)."""

    def __init__(self, rec):
        self.rec = rec
        self.count = {}

    def __call__(self, key, cid, detail):
        n = self.count.get(key, 0)
        self.count[key] = n + 1
        if n < MAX_VIOL_PER_KEY:
            self.rec.violation(key, cid, detail)
        else:
            self.rec.nviol += 1


def _dedupe_rules(rules):
    """rules: {degree: (points, weights)} -> list of classes {'qs': [...], 'xi':, 'w':} of bit-identical rules."""
    classes = []
    for q in sorted(rules):
        xi, w = rules[q]
        for c in classes:
            if c["xi"].shape == xi.shape and onp.array_equal(c["xi"], xi) and onp.array_equal(c["w"], w):
                c["qs"].append(q)
                break
        else:
            classes.append({"qs": [q], "xi": xi, "w": w})
    return classes


# ======================================================================================== rules on reference domains
def _run_rules(tier, seed, rec):
    from optimism import QuadratureRule
    from mc.runner import exception_key
    viol = _Viol(rec)
    sc = R.selfcheck()
    rec.track_max("ref:duffy-vs-closed-form", sc)
    assert sc < 1e-12, "reference moment rule disagrees with closed form: %g" % sc

    # 1-D Gauss-Legendre, degree 0..25, every monomial up to the stated degree
    for kind, factory, degs in (("gauss", QuadratureRule.create_quadrature_rule_1D, range(0, 26)),
                                ("padded", QuadratureRule.create_padded_quadrature_rule_1D, range(0, 26))):
        for d in degs:
            cid = "rule1d=%s;degree=%d" % (kind, d)
            if not rec.want(cid):
                continue
            asserted = kind == "gauss" or d <= 9
            try:
                qr = factory(d)
                xi = onp.asarray(qr.xigauss, dtype=float)
                w = onp.asarray(qr.wgauss, dtype=float)
            except Exception as e:  # noqa
                if asserted:
                    viol("create_quadrature_rule_1D|%s|%s" % (kind, exception_key(e)), cid, {"degree": d, "error": repr(e)})
                rec.case(cid, outcome="exception")
                continue
            worst, worst_above = 0.0, 0.0
            for i in range(0, d + 2):
                got = float(onp.sum(w * xi ** i))
                ex = 1.0 / (i + 1)
                r = float(_rel(abs(got - ex), float(onp.sum(onp.abs(w) * onp.abs(xi) ** i)) + ex))
                if i <= d:
                    worst = max(worst, r)
                    if not asserted and not r <= TAU:
                        # stated degree beyond the five tabulated padded rules: one finding key for the whole class
                        viol(PADDED_KEY, cid, {"degree": d, "monomial": i, "observed": got, "expected": ex, "rel_err": r,
                                               "points_used": int(onp.count_nonzero(w))})
                        break
                    if asserted and not r <= TAU:
                        viol("create_quadrature_rule_1D|%s|inexact" % kind, cid,
                             {"degree": d, "monomial": i, "observed": got, "expected": ex, "rel_err": r,
                              "points": xi, "weights": w})
                else:
                    worst_above = r
            if asserted:
                rec.track_max("rule1d-%s:rel-err" % kind, worst)
                outcome = "exact;" + ("sharp" if worst_above > 1e-8 else "superexact")
            else:
                rec.branch("padded-1D:degree>=10-clamped-to-5-points:" + ("inexact" if worst > 1e-8 else "exact"))
                outcome = "not-asserted:" + ("inexact" if worst > 1e-8 else "exact")
            rec.branch("rule1d:%s:npts=%d" % (kind, int(onp.count_nonzero(w))))
            rec.case(cid, nontrivial=asserted and d >= 1, outcome=outcome, steps=1,
                     sample={"case": cid, "npts": int(len(w)), "worst_rel_err": worst} if d in (0, 7, 25) else None)

    # triangle rules on the reference triangle; 11, 12 are beyond the documented limit
    ref = onp.array([[[1.0, 0.0], [0.0, 1.0], [0.0, 0.0]]])
    monos = R.monomials(13)
    mom, amom = R.tri_moments(ref, monos)
    deg = R.mono_degrees(monos)
    for d in range(0, 13):
        cid = "rule2d;degree=%d" % d
        if not rec.want(cid):
            continue
        try:
            qr = QuadratureRule.create_quadrature_rule_on_triangle(d)
            xi = onp.asarray(qr.xigauss, dtype=float)
            w = onp.asarray(qr.wgauss, dtype=float)
        except ValueError as e:
            if d <= 10:
                viol("create_quadrature_rule_on_triangle|%s" % exception_key(e), cid, {"degree": d, "error": repr(e)})
            else:
                rec.branch("rule2d:unsupported-degree-raises-ValueError")
            rec.case(cid, outcome="raises-ValueError")
            continue
        except Exception as e:  # noqa
            viol("create_quadrature_rule_on_triangle|%s" % exception_key(e), cid, {"degree": d, "error": repr(e)})
            rec.case(cid, outcome="exception")
            continue
        vals = R.mono_eval(xi, monos)                       # parametric coordinates == physical on the reference
        got = vals.T @ w
        r = _rel(onp.abs(got - mom), amom)
        bad = onp.where((deg <= d) & ~(r <= TAU))[0]
        if bad.size:
            k = int(bad[0])
            viol("create_quadrature_rule_on_triangle|inexact|npts=%d" % len(w), cid,
                 {"degree": d, "monomial": list(monos[k]), "observed": float(got[k]), "expected": float(mom[k]),
                  "rel_err": float(r[k]), "points": xi, "weights": w})
        rec.track_max("rule2d-reference:rel-err", float(r[deg <= d].max()))
        above = r[deg == d + 1]
        rec.branch("rule2d:npts=%d" % len(w))
        rec.case(cid, nontrivial=d >= 1, steps=1,
                 outcome="exact;" + ("sharp" if above.size and above.max() > 1e-8 else "superexact"),
                 sample={"case": cid, "npts": int(len(w))} if d in (2, 10) else None)


# ======================================================================================== mesh groups
def run_group(g, tier, seed, rec):
    if g["kind"] == "rules":
        return _run_rules(tier, seed, rec)

    import jax
    import jax.numpy as np
    from optimism import FunctionSpace, Interpolants, Mesh, QuadratureRule, Surface
    from mc.runner import exception_key

    viol = _Viol(rec)
    topo, order, bubble = g["topo"], int(g["order"]), bool(g["bubble"])
    el = "p%d%s" % (order, "b" if bubble else "")
    bflag = "bubble=%d" % int(bubble)

    # ---- one-hot selectors: row r of the batch integrates exactly one basis function ---------------------
    nb = KX + KU + 2 * KU
    C = onp.zeros((nb, KX))
    D = onp.zeros((nb, KU))
    E = onp.zeros((nb, KU, 2))
    for i in range(KX):
        C[i, i] = 1.0
    for i in range(KU):
        D[KX + i, i] = 1.0
        E[KX + KU + 2 * i, i, 0] = 1.0
        E[KX + KU + 2 * i + 1, i, 1] = 1.0
    C, D, E = np.array(C), np.array(D), np.array(E)
    nbe = 2 * KU + 2 * KX
    CU = onp.zeros((nbe, KU, 2))
    CX = onp.zeros((nbe, KX, 2))
    for i in range(KU):
        for c in range(2):
            CU[2 * i + c, i, c] = 1.0
    for i in range(KX):
        for c in range(2):
            CX[2 * KU + 2 * i + c, i, c] = 1.0
    CU, CX = np.array(CU), np.array(CX)
    AX = np.array([a for a, _ in MX])
    BX = np.array([b for _, b in MX])

    def monos_at(X):
        px = np.cumprod(np.concatenate([np.ones(1), np.full(DEG_X, X[0])]))
        py = np.cumprod(np.concatenate([np.ones(1), np.full(DEG_X, X[1])]))
        return px[AX] * py[BX]

    def integrate_basis(fs, U, block):
        """integrate_over_block for every basis integrand: x^a y^b at the library's quadrature points (KX rows),
        the interpolated nodal monomial fields (KU rows) and their gradient components (2 KU rows)."""
        st = np.zeros((fs.vols.shape[0], fs.vols.shape[1], 1))

        def one(c, d, e):
            f = lambda u, gu, s, X, dt: np.dot(c, monos_at(X)) + np.dot(d, u) + np.sum(e * gu)  # noqa: E731
            return FunctionSpace.integrate_over_block(fs, U, st, 0.0, f, block)
        return jax.vmap(one)(C, D, E)

    def one_config(mesh, sref, qr, mode, U):
        fs = FunctionSpace.construct_function_space_from_parent_element(mesh, sref, qr, mode)
        vals = FunctionSpace.interpolate_to_points(fs, U)
        grads = FunctionSpace.compute_field_gradient(fs, U)
        I = integrate_basis(fs, U, mesh.blocks["block_0"])
        return fs.shapes, fs.shapeGrads, fs.vols, vals, grads, I

    def all_configs(meshC, meshA, srefs, qrs, UC, UA):
        out = []
        for sref, qr in zip(srefs, qrs):
            out.append(one_config(meshC, sref, qr, "cartesian", UC))
            out.append(one_config(meshA, sref, qr, "axisymmetric", UA))
        return out

    compiled = {}

    def call_compiled(name, fn, *args):
        """One ahead-of-time compilation per (function, input shapes) and group. The XLA backend optimisation
        level is lowered (compile time 1 s instead of 8 s; same program, same library code); if the option is not
        understood the default compilation is used."""
        key = (name,) + tuple(getattr(a, "shape", None) for a in jax.tree_util.tree_leaves(args))
        if key not in compiled:
            lowered = jax.jit(fn).lower(*args)
            try:
                compiled[key] = lowered.compile(compiler_options={"xla_backend_optimization_level": 0})
            except Exception:  # noqa
                compiled[key] = lowered.compile()
            rec.branch("compiled:" + name)
        return compiled[key](*args)

    def edge_flux(fs, U, qr1, edges):
        def one(cu, cx):
            f = lambda u, X, n: np.dot(np.dot(cu.T, u), n) + np.dot(np.dot(cx.T, monos_at(X)), n)  # noqa: E731
            return FunctionSpace.integrate_function_on_edges(fs, f, U, qr1, edges)
        return jax.vmap(one)(CU, CX)

    def surface_flux(mesh, qr1, edges):
        def one(cx):
            f = lambda X, n: np.dot(np.dot(cx.T, monos_at(X)), n)  # noqa: E731
            return Surface.integrate_function_on_surface(qr1, edges, mesh, f)
        return jax.vmap(one)(CX[2 * KU:])

    tmpl = {}

    def edge_all(coords, conns, U, edges):
        """Every 1-D rule class on one mesh: the mesh record is the group's first library-built mesh with this
        case's coordinates / connectivity (same parent elements), the FunctionSpace comes from the library factory."""
        mesh_t = tmpl["mesh"]._replace(coords=coords, conns=conns)
        fs = FunctionSpace.construct_function_space_from_parent_element(mesh_t, tmpl["sref"], tmpl["qr"], "cartesian")
        outs = [edge_flux(fs, U, c1["qr"], edges) for c1 in classes1]
        souts = [surface_flux(mesh_t, c1["qr"], edges) for c1 in classes1] if (order == 1 and not bubble) else []
        return outs, souts

    # ---- rules (real calls for every degree of the axis; bit-identical results share a class) -------------
    rules2 = {}
    for q in QS:
        try:
            qr = QuadratureRule.create_quadrature_rule_on_triangle(q)
            rules2[q] = (qr, onp.asarray(qr.xigauss, dtype=float), onp.asarray(qr.wgauss, dtype=float))
        except Exception as e:  # noqa
            viol("create_quadrature_rule_on_triangle|%s" % exception_key(e), "rule2d;degree=%d" % q,
                 {"degree": q, "error": repr(e)})
    classes2 = _dedupe_rules({q: (v[1], v[2]) for q, v in rules2.items()})
    for c in classes2:
        c["qr"] = rules2[c["qs"][0]][0]
    rules1 = {}
    for q1 in _q1_axis(tier, order):
        try:
            qr = QuadratureRule.create_quadrature_rule_1D(q1)
            rules1[q1] = (qr, onp.asarray(qr.xigauss, dtype=float), onp.asarray(qr.wgauss, dtype=float))
        except Exception as e:  # noqa
            viol("create_quadrature_rule_1D|gauss|%s" % exception_key(e), "rule1d=gauss;degree=%d" % q1,
                 {"degree": q1, "error": repr(e)})
    classes1 = _dedupe_rules({q: (v[1], v[2]) for q, v in rules1.items()})
    for c in classes1:
        c["qr"] = rules1[c["qs"][0]][0]
    cls_of_order = next((c for c in classes2 if order in c["qs"]), None)

    geoms = R.geometries(topo, tier, seed)
    conns0 = geoms[0][2]
    ne = len(conns0)
    pats = R.rotation_patterns(ne, seed)
    bedges_ref = R.boundary_edges(conns0)

    srefs = None            # parent-element shape tables per rule class (library calls, once per group)
    pair_index = -1
    for gi, (gname, coordsC, conns) in enumerate(geoms):
        # ---- reference quantities that do not depend on the vertex-rotation pattern ----------------------
        shift = R.axisymmetric_shift(coordsC)
        coordsA = coordsC + shift
        refq = {}
        for mode, cc in (("cart", coordsC), ("axi", coordsA)):
            mom, amom = R.tri_moments(cc[conns], MX, axisymmetric=(mode == "axi"))
            refq[mode] = {"coords": cc, "mom": mom, "amom": amom}
        area = R.shoelace_area(coordsC, bedges_ref)
        area_tri = float(onp.sum(R.signed_areas(coordsC[conns])))
        assert abs(area - area_tri) <= 1e-12 * abs(area_tri), "reference areas disagree"
        assert abs(refq["cart"]["mom"][0] - area) <= 1e-12 * area, "reference moment 0 != shoelace area"
        flux, aflux = R.boundary_flux(coordsC, bedges_ref, MX)
        divX = R.divergence_integrals(refq["cart"]["mom"], MX)
        assert onp.all(onp.abs(flux - divX)[DX <= 10] <= 1e-11 * onp.maximum(aflux, 1e-300)[DX <= 10]), \
            "reference flux and reference divergence integrals disagree"
        perim = R.perimeter(coordsC, bedges_ref)
        # axisymmetric analogue of d/dx_c for the gradient route: int 2 pi r d_c(m)
        divA = onp.zeros((KU, 2))
        idxX = {m: k for k, m in enumerate(MX)}
        for k, (a, b) in enumerate(MU):
            if a > 0:
                divA[k, 0] = a * refq["axi"]["mom"][idxX[(a - 1, b)]]
            if b > 0:
                divA[k, 1] = b * refq["axi"]["mom"][idxX[(a, b - 1)]]
        refq["cart"]["div"] = divX[:KU]
        refq["axi"]["div"] = divA
        refq["cart"]["vol"] = area
        refq["axi"]["vol"] = refq["axi"]["mom"][0]

        for pi, pat in enumerate(pats):
            pair_index += 1
            if pair_index % int(g["nshards"]) != int(g["shard"]):
                continue
            plabel = R.pattern_label(pat)
            prefix = "mesh=%s/%s;pat=%s;el=%s" % (topo, gname, plabel, el)
            if rec.only is not None and not rec.only.startswith(prefix + ";"):
                continue
            cr = R.rotate_conns(conns, pat)
            base_detail = {"topology": topo, "geometry": gname, "pattern": plabel, "order": order, "bubble": bubble,
                           "simplex_coords": coordsC, "simplex_conns": cr, "axisymmetric_shift": shift}

            # ---- the mesh, built by the library from the rotated simplex connectivity --------------------
            try:
                m1 = Mesh.construct_mesh_from_basic_data(np.array(coordsC), np.array(cr), {"block_0": np.arange(ne)})
                meshC = Mesh.create_higher_order_mesh_from_simplex_mesh(m1, order, useBubbleElement=bubble)
                meshA = Mesh.mesh_with_coords(meshC, meshC.coords + np.array(shift))
                pe = meshC.parentElement
                connsL = onp.asarray(meshC.conns)
                nodesC = onp.asarray(meshC.coords, dtype=float)
                nodesA = onp.asarray(meshA.coords, dtype=float)
                vnodes = onp.asarray(pe.vertexNodes)
                _, etab = Mesh.create_edges(connsL[:, vnodes])
                bedges_lib = onp.asarray(etab)[onp.asarray(etab)[:, 2] < 0][:, :2]
                rec.transition(3)
            except Exception as e:  # noqa
                viol("Mesh.create_higher_order_mesh_from_simplex_mesh|%s|%s" % (bflag, exception_key(e)),
                     prefix + ";mesh", dict(base_detail, error=repr(e)))
                rec.case(prefix + ";mesh", outcome="exception")
                continue
            rec.branch("mesh:interior-nodes" if onp.asarray(pe.interiorNodes).size else "mesh:no-interior-nodes")
            if onp.any(onp.asarray(etab)[:, 2] >= 0):
                rec.branch("mesh:shared-edges-flipped-on-right-element")
            nodesU = {"cart": nodesC, "axi": nodesA}
            Unp = {m: R.mono_eval(nodesU[m], MU) for m in ("cart", "axi")}
            UC, UA = np.array(Unp["cart"]), np.array(Unp["axi"])

            if srefs is None:
                try:
                    srefs = [Interpolants.compute_shapes(pe, c["qr"].xigauss) for c in classes2]
                    rec.transition(len(classes2))
                except Exception as e:  # noqa
                    viol("Interpolants.compute_shapes|%s|%s" % (bflag, exception_key(e)), prefix + ";shapes",
                         dict(base_detail, error=repr(e)))
                    return

            # measured non-triviality: Jacobian of the parent->physical map vs identity placement
            vC = coordsC[cr]
            J = onp.stack([vC[:, 0] - vC[:, 2], vC[:, 1] - vC[:, 2]], axis=-1)
            nonident = bool(onp.max(onp.abs(J - onp.eye(2)[None])) > 0.0)

            # exact values / gradients at the rebuilt physical quadrature points, per rule class and mode
            exact = {}
            for ci, c in enumerate(classes2):
                for mode in ("cart", "axi"):
                    pts = R.phys_points(refq[mode]["coords"][cr], c["xi"])
                    exact[(ci, mode)] = (R.mono_eval(pts, MU), R.mono_grad(pts, MU))

            # ---- all (rule class, mode) configurations through one compiled call -------------------------
            results = {}
            try:
                out = call_compiled("all_configs", all_configs, meshC, meshA, srefs, [c["qr"] for c in classes2], UC, UA)
                k = 0
                for ci in range(len(classes2)):
                    for mode in ("cart", "axi"):
                        results[(ci, mode, "jit")] = [onp.asarray(a) for a in out[k]]
                        k += 1
                rec.transition(4 * len(out))
            except Exception as e:  # noqa
                viol("FunctionSpace|jit-path|%s|%s" % (bflag, exception_key(e)), prefix + ";q=1;mode=cart;path=jit",
                     dict(base_detail, error=repr(e)))
                rec.case(prefix + ";q=1;mode=cart;path=jit", outcome="exception")

            # ---- eager public path (first pattern of every geometry) ---------------------------------------
            eager = []
            if pi == 0 and cls_of_order is not None:
                eager = [(classes2.index(cls_of_order), "cart"), (classes2.index(cls_of_order), "axi")]
                c2 = next((c for c in classes2 if 2 * order in c["qs"]), None)
                if c2 is not None and c2 is not cls_of_order:
                    eager.append((classes2.index(c2), "cart"))
            fs_eager = None
            for ci, mode in eager:
                cidE = "%s;q=%d;mode=%s;path=eager" % (prefix, classes2[ci]["qs"][0], mode)
                try:
                    mesh = meshC if mode == "cart" else meshA
                    U = UC if mode == "cart" else UA
                    fs = FunctionSpace.construct_function_space(
                        mesh, classes2[ci]["qr"], mode2D="cartesian" if mode == "cart" else "axisymmetric")
                    vals = FunctionSpace.interpolate_to_points(fs, U)
                    grads = FunctionSpace.compute_field_gradient(fs, U)
                    I = call_compiled("integrate_basis", integrate_basis, fs, U, mesh.blocks["block_0"])
                    results[(ci, mode, "eager")] = [onp.asarray(a) for a in
                                                    (fs.shapes, fs.shapeGrads, fs.vols, vals, grads, I)]
                    rec.transition(4)
                    rec.branch("entry:construct_function_space(eager)")
                    if mode == "cart" and classes2[ci] is cls_of_order:
                        fs_eager = fs
                except Exception as e:  # noqa
                    viol("FunctionSpace|eager-path|%s|%s" % (bflag, exception_key(e)), cidE,
                         dict(base_detail, error=repr(e), mode=mode))
                    rec.case(cidE, outcome="exception")

            # ---- oracles per configuration, then per stated degree ---------------------------------------
            grad_route_cart = None
            grad_route_ok = False
            for (ci, mode, path), arrs in sorted(results.items()):
                c = classes2[ci]
                rq = refq[mode]
                er = _errors(arrs, connsL, Unp[mode], exact[(ci, mode)], rq)
                if path == "jit" and mode == "cart" and c is cls_of_order:
                    grad_route_cart = (er["I_g"], er["gscale"])
                    grad_route_ok = bool(
                        er["gsum"] <= TAU and er["vol"] <= TAU
                        and not ((DU <= order) & ~(er["grad"] <= TAU)).any()
                        and not ((DX <= min(order, 10)) & ~(er["IX"] <= TAU)).any()
                        and not ((DU <= order)[:, None] & ~(er["Ig"] <= TAU)).any())
                qs = c["qs"] if path == "jit" else [q for q in c["qs"] if q in (order, 2 * order)]
                for q in qs:
                    cid = "%s;q=%d;mode=%s;path=%s" % (prefix, q, mode, path)
                    if not rec.want(cid):
                        continue
                    L = q if mode == "cart" else q - 1
                    det = dict(base_detail, rule_degree=q, mode=mode, path=path, npts=int(len(c["w"])),
                               mesh_coords=rq["coords"])
                    nfail = 0

                    def fail(routine, sig, extra):
                        viol("%s|%s" % (routine, sig), cid, dict(det, **extra))

                    # A failure is reported at the first oracle of its causal chain only (partition of unity is the
                    # degree-0 case of value reproduction; sum(vols) is the degree-0 case of integration; the
                    # integrals of interpolated fields repeat value/gradient reproduction and the quadrature), so
                    # that one defect maps to one or two finding keys instead of a dozen.
                    mk = DU <= order
                    ok_pou = er["pou"] <= TAU
                    if not ok_pou:
                        nfail += 1
                        fail("FunctionSpace.shapes", "partition-of-unity|" + bflag,
                             {"rel_err": er["pou"], "at(element,qp)": er["pou_at"], "sum": er["pou_val"]})
                    ok_gsum = er["gsum"] <= TAU
                    if not ok_gsum:
                        nfail += 1
                        fail("FunctionSpace.shapeGrads", "gradient-sum-not-zero|" + bflag,
                             {"rel_err": er["gsum"], "at(element,qp,comp)": er["gsum_at"], "sum": er["gsum_val"]})
                    # nodal interpolation, degree <= order
                    bad = onp.where(mk & ~(er["val"] <= TAU))[0]
                    ok_val = ok_pou and not bad.size
                    if ok_pou and bad.size:
                        nfail += 1
                        k = int(bad[0])
                        e_, q_ = er["val_at"][k]
                        fail("interpolate_to_points", "value-not-reproduced|" + bflag,
                             {"monomial": list(MU[k]), "rel_err": float(er["val"][k]), "at(element,qp)": [e_, q_],
                              "observed": float(arrs[3][e_, q_, k]), "expected": float(exact[(ci, mode)][0][e_, q_, k])})
                    bad = onp.where(mk & ~(er["grad"] <= TAU))[0]
                    ok_grad = ok_gsum and not bad.size
                    if ok_gsum and bad.size:
                        nfail += 1
                        k = int(bad[0])
                        e_, q_ = er["grad_at"][k]
                        fail("compute_field_gradient", "gradient-not-reproduced|" + bflag,
                             {"monomial": list(MU[k]), "rel_err": float(er["grad"][k]), "at(element,qp)": [e_, q_],
                              "observed": arrs[4][e_, q_, k], "expected": exact[(ci, mode)][1][e_, q_, k]})
                    # volumes (the constant is within every stated degree in both readings)
                    # (axisymmetric volumes and the coordinates handed to the integrand are themselves interpolated
                    # with the shape functions, so they are only judged when value reproduction holds)
                    shapes_ok = ok_val or (mode == "cart")
                    ok_vol = er["vol"] <= TAU
                    if not ok_vol and shapes_ok:
                        nfail += 1
                        fail("FunctionSpace.vols", "sum-not-domain-measure|mode=" + mode,
                             {"observed": er["vol_val"], "expected": float(rq["vol"]), "rel_err": er["vol"]})
                    # integration of every monomial of degree <= L (three routes)
                    npts = "npts=%d" % len(c["w"])
                    bad = onp.where((DX <= min(L, 10)) & ~(er["IX"] <= TAU))[0]
                    ok_X = ok_vol and ok_val and not bad.size
                    if ok_vol and ok_val and bad.size:
                        nfail += 1
                        k = int(bad[0])
                        fail("integrate_over_block", "monomial-of-coordinates-inexact|mode=%s|%s" % (mode, npts),
                             {"monomial": list(MX[k]), "observed": float(er["I_X"][k]), "expected": float(rq["mom"][k]),
                              "rel_err": float(er["IX"][k])})
                    bad = onp.where((DU <= min(order, L)) & ~(er["Iu"] <= TAU))[0]
                    if ok_X and ok_val and bad.size:
                        nfail += 1
                        k = int(bad[0])
                        fail("integrate_over_block", "nodal-monomial-field-inexact|mode=" + mode,
                             {"monomial": list(MU[k]), "observed": float(er["I_u"][k]), "expected": float(rq["mom"][k]),
                              "rel_err": float(er["Iu"][k])})
                    bad = onp.argwhere((DU <= min(order, L + 1))[:, None] & ~(er["Ig"] <= TAU))
                    if ok_X and ok_grad and bad.size:
                        nfail += 1
                        k, cc = int(bad[0][0]), int(bad[0][1])
                        fail("integrate_over_block", "gradient-of-nodal-monomial-field-inexact|mode=" + mode,
                             {"monomial": list(MU[k]), "component": cc, "observed": float(er["I_g"][k, cc]),
                              "expected": float(rq["div"][k, cc]), "rel_err": float(er["Ig"][k, cc])})
                    # calibration numbers (only over what was asserted)
                    rec.track_max("partition-of-unity", er["pou"])
                    rec.track_max("gradient-sum", er["gsum"])
                    rec.track_max("interpolation-value", float(er["val"][mk].max()))
                    rec.track_max("interpolation-gradient", float(er["grad"][mk].max()))
                    rec.track_max("sum-vols:" + mode, er["vol"])
                    rec.track_max("integrate-X:" + mode, float(er["IX"][DX <= min(L, 10)].max()))
                    rec.track_max("integrate-u:" + mode, float(er["Iu"][DU <= min(order, L)].max()))
                    rec.track_max("integrate-grad-u:" + mode, float(er["Ig"][DU <= min(order, L + 1)].max()))
                    nmono = int((DX <= min(L, 10)).sum() + (DU <= min(order, L)).sum()
                                + 2 * (DU <= min(order, L + 1)).sum() + 2 * mk.sum())
                    rec.branch("asserted:monomial-oracles", nmono)
                    above = er["IX"][DX == L + 1]
                    sharp = bool(above.size and above.max() > 1e-8)
                    if mode == "axi":
                        rec.branch("axi:literal-reading(degree=stated)-" + ("inexact" if sharp else "exact"))
                    outcome = ("violated" if nfail else "holds") + ";" + mode + ";" + ("sharp" if sharp else "superexact")
                    sample = None
                    if pi == 0 and q in (2, 7) and path == "jit":
                        sample = {"case": cid, "elements": ne, "nodes_per_element": int(connsL.shape[1]),
                                  "npts": int(len(c["w"])), "monomials_asserted": nmono,
                                  "worst_rel_err_integration": float(er["IX"][DX <= min(L, 10)].max()),
                                  "rel_err_one_degree_above": float(above.max()) if above.size else None}
                    rec.case(cid, nontrivial=nonident and L >= 1, outcome=outcome, sample=sample, steps=4)

            # ---- divergence theorem over the closed boundary (cartesian) ----------------------------------
            el_edges = np.array(bedges_lib)
            edge_results = []
            cidE0 = "%s;edge;q1=%d;path=jit" % (prefix, classes1[0]["qs"][0]) if classes1 else prefix + ";edge"
            if cls_of_order is not None and classes1 and len(bedges_lib):
                if "mesh" not in tmpl:
                    tmpl.update(mesh=meshC, sref=srefs[classes2.index(cls_of_order)], qr=cls_of_order["qr"])
                try:
                    outs, souts = call_compiled("edge_all", edge_all, meshC.coords, meshC.conns, UC, el_edges)
                    for k1, c1 in enumerate(classes1):
                        edge_results.append(("jit", c1, onp.asarray(outs[k1]),
                                             onp.asarray(souts[k1]).reshape(KX, 2) if souts else None))
                    rec.transition(len(outs) + len(souts))
                    if souts:
                        rec.branch("entry:Surface.integrate_function_on_surface", len(souts))
                except Exception as e:  # noqa
                    viol("integrate_function_on_edges|%s|%s" % (bflag, exception_key(e)), cidE0,
                         dict(base_detail, error=repr(e)))
                    rec.case(cidE0, outcome="exception")
                if fs_eager is not None:
                    c1 = next((c for c in classes1 if order in c["qs"]), classes1[0])
                    try:
                        F = onp.asarray(edge_flux(fs_eager, UC, c1["qr"], el_edges))
                        Fs = None
                        if order == 1 and not bubble:
                            Fs = onp.asarray(surface_flux(meshC, c1["qr"], el_edges)).reshape(KX, 2)
                        edge_results.append(("eager", c1, F, Fs))
                        rec.transition(1 if Fs is None else 2)
                        rec.branch("entry:integrate_function_on_edges(eager)")
                    except Exception as e:  # noqa
                        viol("integrate_function_on_edges|%s|%s" % (bflag, exception_key(e)),
                             "%s;edge;q1=%d;path=eager" % (prefix, c1["qs"][0]), dict(base_detail, error=repr(e)))
            if edge_results:
                for path, c1, F, Fs in edge_results:
                    qs1 = c1["qs"] if path == "jit" else [q1 for q1 in c1["qs"] if q1 == order] or c1["qs"][:1]
                    want = [q1 for q1 in qs1 if rec.want("%s;edge;q1=%d;path=%s" % (prefix, q1, path))]
                    if not want:
                        continue
                    Fu = F[:2 * KU].reshape(KU, 2)
                    FX = F[2 * KU:].reshape(KX, 2)
                    sc = onp.maximum(aflux, 1e-300 * perim)
                    ru = _rel(onp.abs(Fu - divX[:KU]), sc[:KU])
                    rX = _rel(onp.abs(FX - divX), sc)
                    rS = _rel(onp.abs(Fs - divX), sc) if Fs is not None else None
                    rv = None
                    if grad_route_cart is not None:
                        rv = _rel(onp.abs(Fu - grad_route_cart[0]), sc[:KU] + grad_route_cart[1])
                    for q1 in want:
                        cid = "%s;edge;q1=%d;path=%s" % (prefix, q1, path)
                        det = dict(base_detail, edge_rule_degree=q1, npts_1d=int(len(c1["w"])), path=path,
                                   boundary_edges_element_side=bedges_lib)
                        nfail = 0
                        mu = DU <= min(order, q1)
                        mx = DX <= min(q1, 10)
                        ok_u = True
                        for name, r, mask, got, route in (("u", ru, mu, Fu, "nodal-field"), ("X", rX, mx, FX, "coordinates"),
                                                          ("S", rS, mx, Fs, "surface")):
                            if r is None:
                                continue
                            bad = onp.argwhere(mask[:, None] & ~(r <= TAU))
                            if name == "u":
                                ok_u = not bad.size
                            if bad.size and (name != "X" or ok_u):      # same normals / jacobians / face nodes as route u
                                nfail += 1
                                k, cc = int(bad[0][0]), int(bad[0][1])
                                key = ("Surface.integrate_function_on_surface|divergence-theorem" if name == "S" else
                                       "integrate_function_on_edges|divergence-theorem|route=%s|%s" % (route, bflag))
                                viol(key, cid,
                                     dict(det, monomial=list(MX[k]), component=cc, boundary_integral=float(got[k, cc]),
                                          exact_volume_integral_of_divergence=float(divX[k, cc]),
                                          rel_err=float(r[k, cc])))
                            rec.track_max("divergence-theorem:" + route, float(r[mask].max()))
                        if rv is not None and ok_u and grad_route_ok:
                            mv = DU <= min(order, q1)
                            bad = onp.argwhere(mv[:, None] & ~(rv <= TAU))
                            if bad.size:
                                nfail += 1
                                k, cc = int(bad[0][0]), int(bad[0][1])
                                viol("integrate_function_on_edges|boundary-vs-volume-integral|%s" % bflag, cid,
                                     dict(det, monomial=list(MU[k]), component=cc, boundary_integral=float(Fu[k, cc]),
                                          integrate_over_block_of_divergence=float(grad_route_cart[0][k, cc]),
                                          rel_err=float(rv[k, cc])))
                            rec.track_max("divergence-theorem:boundary-vs-integrate_over_block", float(rv[mv].max()))
                        rec.branch("asserted:edge-monomial-fields", int(2 * mu.sum() + 2 * mx.sum() * (2 if Fs is not None else 1)))
                        aboveE = rX[DX == q1 + 1] if q1 + 1 <= DEG_X else onp.zeros(0)
                        sharp = bool(aboveE.size and aboveE.max() > 1e-8)
                        rec.case(cid, nontrivial=nonident and q1 >= 1,
                                 outcome=("violated" if nfail else "holds") + ";edge;" + ("sharp" if sharp else "superexact"),
                                 steps=2 if Fs is not None else 1,
                                 sample=({"case": cid, "boundary_edges": int(len(bedges_lib)),
                                          "fields_asserted": int(2 * mu.sum() + 2 * mx.sum()),
                                          "worst_rel_err": float(max(ru[mu].max(), rX[mx].max()))}
                                         if pi == 0 and gi == 0 and q1 == order and path == "jit" else None))
            if len(bedges_lib) != len(bedges_ref):
                rec.branch("boundary:library-edge-count-differs-from-reference")
            else:
                rec.branch("boundary:closed-loop-edges", len(bedges_lib))
            if topo == "ring6":
                rec.branch("boundary:domain-with-hole")


def _errors(arrs, connsL, U, exact, rq):
    """Relative discrepancies of one configuration. arrs = shapes, shapeGrads, vols, vals, grads, I."""
    shapes, sgrads, vols, vals, grads, I = arrs
    ex_v, ex_g = exact
    out = {}
    # partition of unity
    s = shapes.sum(-1)
    r = _rel(onp.abs(s - 1.0), onp.abs(shapes).sum(-1))
    at = onp.unravel_index(int(onp.argmax(r)), r.shape)
    out["pou"], out["pou_at"], out["pou_val"] = float(r.max()), [int(a) for a in at], float(s[at])
    gsum = sgrads.sum(2)                                        # (ne, nq, 2)
    r = _rel(onp.abs(gsum), onp.abs(sgrads).sum(2))
    at = onp.unravel_index(int(onp.argmax(r)), r.shape)
    out["gsum"], out["gsum_at"], out["gsum_val"] = float(r.max()), [int(a) for a in at], float(gsum[at])
    # interpolation
    # scale of a nodal sum: (sum_a |N_a|) * max_a |f(X_a)| -- the tabulated N_a carry an *absolute* rounding
    # error (they come from a Vandermonde solve), so sum_a |N_a f(X_a)| would underestimate it wherever the
    # quadrature point coincides with a node (e.g. centroid node of the bubble elements)
    fmax = onp.abs(U[connsL]).max(axis=1)                       # (ne, k)
    vs = onp.abs(shapes).sum(-1)[:, :, None] * fmax[:, None, :]
    r = _rel(onp.abs(vals - ex_v), vs + onp.abs(ex_v))
    k = r.shape[-1]
    flat = r.reshape(-1, k)
    out["val"] = flat.max(0)
    out["val_at"] = [[int(a) for a in onp.unravel_index(int(i), r.shape[:2])] for i in flat.argmax(0)]
    gs = onp.abs(sgrads).sum(2)[:, :, None, :] * fmax[:, None, :, None]
    rg = _rel(onp.abs(grads - ex_g), gs + onp.abs(ex_g)).max(-1)
    flat = rg.reshape(-1, k)
    out["grad"] = flat.max(0)
    out["grad_at"] = [[int(a) for a in onp.unravel_index(int(i), rg.shape[:2])] for i in flat.argmax(0)]
    # volumes
    vsum = float(vols.sum())
    out["vol_val"] = vsum
    out["vol"] = float(_rel(abs(vsum - rq["vol"]), float(onp.abs(vols).sum()) + abs(rq["vol"])))
    # integrals
    I_X, I_u, I_g = I[:KX], I[KX:KX + KU], I[KX + KU:].reshape(KU, 2)
    out["I_X"], out["I_u"], out["I_g"] = I_X, I_u, I_g
    out["IX"] = _rel(onp.abs(I_X - rq["mom"]), rq["amom"])
    av = onp.abs(vols)
    uscale = onp.einsum("eq,eqk->k", av, vs)
    out["Iu"] = _rel(onp.abs(I_u - rq["mom"][:KU]), uscale + rq["amom"][:KU])
    gscale = onp.einsum("eq,eqkc->kc", av, gs)
    out["gscale"] = gscale
    out["Ig"] = _rel(onp.abs(I_g - rq["div"]), gscale + onp.abs(rq["div"]))
    return out
