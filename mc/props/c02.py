"""C02 -- the assembled stiffness equals the Hessian of the total energy; multi-block splitting is transparent.

E-PROD.  A *compiled configuration* is one point of
    mesh (topology/geometry, element renumbering + per-element cyclic vertex rotation) x element order 1..4
    x quadrature degree {2(p-1) v 1, +2} x factory {create_mechanics_functions,
    create_multi_block_mechanics_functions with 1/2/3 blocks of one material, create_dynamics_functions with two
    (beta, dt)} x mode2D {plane strain, axisymmetric at r>0} x pressure projection {None, 0, 1} x material.
Inside every compiled configuration the FULL product
    internal state {initial, after one and after two real compute_updated_internal_variables steps}
    x displacement field {zero, affine, quadratic, seeded smooth} x UPredicted {zero, nonzero} (dynamics)
    x ALL 2^8 subsets of 8 labelled (node group, component) essential-BC pairs
is executed: one assemble_sparse_stiffness_matrix(compute_element_stiffnesses(...), conns, DofManager) per point,
compared with the rows/columns of ONE jitted jax.hessian of the factory's own energy with respect to the full
nodal field.  The compile-level axes are too expensive (4-60 s each) for their full product (~12 000 points);
the tiers enumerate a stated covering list (bounds()).
"""
import numpy as onp

from mc.core import pick, stable_hash

ID = "C02"
TITLE = ("Mechanics / SparseMatrixAssembler / DofManager: assembled sparse stiffness == Hessian of the factory's total "
         "energy (strain energy, Newmark algorithmic energy) on the unknown dofs for every BC subset, symmetric; "
         "multi-block factory == single-block factory in energy, internal-variable update and stiffness")
LEVEL = "model_checking"
RULE = ("E-PROD: per compiled configuration (mesh variant, order, quadrature degree, factory, mode2D, pressure "
        "projection, material) the full product state x field x UPredicted x ALL 256 subsets of 8 labelled "
        "(node group, component) essential-BC pairs; a case is one (configuration, state, field, UPredicted, subset) "
        "= one real compute_element_stiffnesses/hessians result assembled through a real DofManager. The list of "
        "compiled configurations is a stated covering list, not the full product of the compile-level axes. "
        "Non-trivial (measured): the subset leaves unknowns AND at least one element owns both constrained and "
        "unconstrained dofs (so the BC mask and the unknown index maps are exercised inside an element). Outcome "
        "labels additionally carry the measured tangent class (equal to / different from the configuration's "
        "tangent at zero field, initial state).")
ASSUMPTIONS = [
    "oracle: jax.hessian of the factory's OWN energy function w.r.t. the full nodal field (as the design states); "
    "the check is a consistency check between two code paths of the library (integrate_over_block energy vs "
    "element_hess_func + assembler), it does not judge the energy itself",
    "restriction of the full Hessian to the unknown rows/columns equals the Hessian w.r.t. the unknowns because "
    "DofManager.create_field is the canonical injection: exhaustively checked by C14; re-checked here for 10 subsets "
    "per configuration through jax.jacfwd(create_field), and end-to-end (jax.hessian through create_field) in the "
    "'direct' groups",
    "unknown index sets are recomputed in the harness from the labelled pairs with python sets",
    "assemble_sparse_stiffness_matrix receives the jax array returned by the factory for 10 subsets per evaluation and "
    "a numpy copy of the same values for the other 246 (eager jax boolean-mask indexing compiles one kernel per "
    "distinct mask size; the assembler code executed is the same)",
    "meshes are valid: straight-sided, counter-clockwise, higher-order nodes at the affine images produced by "
    "Mesh.create_higher_order_mesh_from_simplex_mesh; axisymmetric meshes live at r >= 0.5",
    "fields keep det F > 0 at every quadrature point (checked per configuration, including the hoop stretch)",
    "evaluation fields differ from the field used for the internal-variable update, so no quadrature point sits on "
    "the yield switch (the energy is only C1 there)",
    "create_multi_block_mechanics_functions(mode2D='axisymmetric') raises NotImplementedError by design: recorded as "
    "a branch, not a violation (the option is not accepted, hence not advertised)",
    "pressure projection degree 1 is only combined with rules of >= 3 points (the projection mass matrix is singular "
    "otherwise: inadmissible option combination)",
    "multi-block state arrays may be padded (max(1, n_state) columns); only the material's own columns are compared",
]
TOLERANCES = {
    "stiffness vs hessian": "max|K - H_uu| <= 1e-9 * max|H| (both sides autodiff, only summation order differs)",
    "symmetry": "max|K - K^T| <= 1e-9 * max|H|",
    "multi-block stiffness": "max|Ke_multi - Ke_single| <= 1e-9 * max|Ke_single|",
    "multi-block energy": "|E_multi - E_single| <= 1e-10 * max(|E_single|, E(load field))",
    "multi-block state update": "max|Q_multi - Q_single| <= 1e-9 * max(1, max|Q_single|)",
    "create_field jacobian": "exact 0/1 injection",
}

TAU = 1e-9
TAU_E = 1e-10
NPAIRS = 8
PAIRS = [("left", 0), ("left", 1), ("right", 0), ("bottom", 1), ("top", 0), ("top", 1), ("inner", 0), ("inner", 1)]
JAC_MASKS = [0, 1, 128, 255, 0b10101010, 0b01010101, 0b00001111, 0b11110000, 0b00111100, 0b11000011]

MESHES = ["s2x2", "g3x2", "d7"]
VARIANTS = ["plain", "perm"]
MATS_CHEAP = ["le", "neo", "neoc", "gent"]
MATS_HEAVY = ["j2", "visco"]
MAT_COST = {"le": 3, "neo": 6, "neoc": 6, "gent": 7, "j2s": 25, "j2": 65, "visco": 50, "mbvisco": 150}
STATEFUL = {"j2", "j2s", "visco", "mbvisco"}
FACTORIES = ["mech", "mb1", "mb2", "mb3", "dynA", "dynB"]
NEWMARK = {"dynA": (0.5, 0.25, 0.1), "dynB": (0.6, 0.3, 1.0)}   # gamma, beta, dt
DT_STATIC = 0.1


# ------------------------------------------------------------------------------------------ configurations
def _cfg(factory, mode, pp, mat, order, qplus, mesh, variant, kind="config"):
    qdeg = max(1, 2 * (order - 1)) + (2 if qplus else 0)
    if pp == 1 and qdeg < 2:
        qdeg = 2
    name = "%s-%s-pp%s-%s-p%dq%d-%s%s" % (factory, mode, "N" if pp is None else pp, mat, order, qdeg, mesh, variant)
    nb = int(factory[2]) if factory.startswith("mb") else 1
    cost = MAT_COST[mat] * (1.0 + (1.3 * nb if factory.startswith("mb") else 0.0)) * (1.0 + 0.1 * order)
    if pp is not None:
        cost *= 1.5
    return {"name": name, "kind": kind, "factory": factory, "mode": mode, "pp": pp, "mat": mat, "order": order,
            "qdeg": qdeg, "mesh": mesh, "variant": variant, "cost": round(cost, 1)}


def _quick_configs():
    c = []
    # heavy ones first: every factory kind with a path-dependent material, both modes
    c.append(_cfg("mech", "ps", None, "j2", 2, 0, "g3x2", "perm"))
    c.append(_cfg("dynA", "ps", None, "j2", 1, 1, "s2x2", "perm"))
    c.append(_cfg("mb2", "ps", None, "visco", 1, 1, "g3x2", "perm"))
    c.append(_cfg("mech", "axi", None, "visco", 1, 1, "d7", "perm"))
    c.append(_cfg("dynB", "axi", None, "visco", 2, 0, "s2x2", "plain"))
    c.append(_cfg("mb3", "ps", None, "j2s", 2, 0, "s2x2", "perm"))
    # cheap materials: orders 1..4, both quadrature choices, all meshes
    c.append(_cfg("mech", "axi", None, "neoc", 4, 0, "s2x2", "perm"))
    c.append(_cfg("mech", "ps", None, "le", 3, 1, "d7", "perm"))
    c.append(_cfg("mech", "axi", None, "gent", 2, 1, "g3x2", "plain"))
    c.append(_cfg("mb1", "ps", None, "gent", 3, 0, "d7", "plain"))
    c.append(_cfg("mb3", "ps", None, "neo", 2, 1, "g3x2", "perm"))
    c.append(_cfg("dynA", "ps", None, "neo", 2, 0, "g3x2", "perm"))
    c.append(_cfg("dynB", "axi", None, "le", 1, 0, "d7", "perm"))
    c.append(_cfg("dynA", "axi", None, "gent", 3, 0, "s2x2", "perm"))
    c.append(_cfg("mb2", "axi", None, "neo", 1, 0, "s2x2", "plain"))      # NotImplementedError by design
    # pressure projection: every factory x {0, 1}
    c.append(_cfg("mech", "ps", 0, "neo", 2, 0, "s2x2", "perm"))
    c.append(_cfg("mech", "axi", 1, "neo", 2, 0, "g3x2", "plain"))
    # order 2: a degree-0 projection is the identity on linear triangles (a seeded change that dropped degree 0 in the
    # multi-block factory went undetected with order 1)
    c.append(_cfg("mb2", "ps", 0, "neo", 2, 1, "g3x2", "perm"))
    c.append(_cfg("mb2", "ps", 1, "gent", 2, 0, "s2x2", "perm"))
    c.append(_cfg("dynA", "ps", 0, "neo", 2, 0, "d7", "perm"))
    c.append(_cfg("dynA", "axi", 1, "neo", 2, 1, "s2x2", "plain"))
    # end-to-end differentiation through DofManager.create_field
    c.append(dict(_cfg("mech", "ps", None, "neo", 1, 1, "s2x2", "perm", kind="direct"), name="direct-mech-ps-neo-p1"))
    return c


def _thorough_configs():
    c = list(_quick_configs())
    seen = {x["name"] for x in c}

    def add(x):
        if x["name"] not in seen:
            seen.add(x["name"])
            c.append(x)

    # (a) factory x mode x material, remaining axes by a fixed hash (seed independent)
    for fac in FACTORIES:
        for mode in ("ps", "axi"):
            for mat in MATS_CHEAP + MATS_HEAVY + ["mbvisco"]:
                if fac.startswith("mb") and mode == "axi":
                    if mat != "neo":
                        continue        # one NotImplementedError probe per block count
                if mat == "mbvisco" and fac in ("mb2", "mb3", "dynB"):
                    continue            # 3-branch model: compile cost; covered by mech, mb1, dynA
                h = stable_hash("C02a|%s|%s|%s" % (fac, mode, mat))
                order = 1 + (h // 6) % 4
                if mat in ("j2", "visco", "mbvisco"):
                    order = 1 + (h // 6) % 2
                add(_cfg(fac, mode, None, mat, order, (h // 24) % 2, MESHES[h % 3], VARIANTS[(h // 3) % 2]))
    # (b) pressure projection x factory x mode x material
    for pp in (0, 1):
        for fac in ("mech", "mb1", "mb2", "mb3", "dynA", "dynB"):
            for mode in ("ps", "axi"):
                if fac.startswith("mb") and mode == "axi":
                    continue
                for mat in ("neo", "gent", "visco"):
                    if mat == "visco" and (fac in ("mb2", "mb3", "dynB", "mb1") or mode == "axi"):
                        continue
                    h = stable_hash("C02b|%s|%s|%s|%s" % (pp, fac, mode, mat))
                    order = 2 + (h // 6) % 2
                    add(_cfg(fac, mode, pp, mat, order, (h // 24) % 2, MESHES[h % 3], VARIANTS[(h // 3) % 2]))
    # (c) mesh x variant x order x quadrature: full product on the cheapest nonlinear configuration
    for mesh in MESHES:
        for variant in VARIANTS:
            for order in (1, 2, 3, 4):
                for qplus in (0, 1):
                    add(_cfg("mech", "ps", None, "neo", order, qplus, mesh, variant))
    # (d) a second end-to-end group, axisymmetric
    add(dict(_cfg("mech", "axi", None, "gent", 2, 0, "d7", "perm", kind="direct"), name="direct-mech-axi-gent-p2"))
    return c


def _configs(tier):
    return _quick_configs() if tier == "quick" else _thorough_configs()


def bounds(tier):
    cfgs = _configs(tier)
    return {"compiled_configurations": len(cfgs), "bc_pairs": NPAIRS, "bc_subsets_per_configuration": 1 << NPAIRS,
            "fields": ["zero", "affine", "quadratic", "smooth"], "states": ["init", "upd1", "upd2"],
            "UPredicted": ["zero", "nonzero"], "create_field_jacobian_masks": len(JAC_MASKS),
            "axes": {"mesh": MESHES, "variant": VARIANTS, "order": [1, 2, 3, 4], "quadrature": ["2(p-1)v1", "+2"],
                     "factory": FACTORIES, "mode2D": ["ps", "axi"], "pressureProjection": [None, 0, 1],
                     "material": MATS_CHEAP + ["j2s"] + MATS_HEAVY + (["mbvisco"] if tier == "thorough" else [])},
            "full_product_of_compile_axes": False,
            "configs": [c["name"] for c in cfgs]}


def groups(tier, seed):
    cfgs = sorted(_configs(tier), key=lambda c: (-c["cost"], c["name"]))
    return cfgs


# ------------------------------------------------------------------------------------------ inputs
def _simplex(label, seed):
    """Reference vertex coordinates in [0,1]^2 and counter-clockwise connectivity."""
    if label in ("s2x2", "g3x2"):
        nx, ny = (3, 3) if label == "s2x2" else (4, 3)
        xs, ys = onp.linspace(0.0, 1.0, nx), onp.linspace(0.0, 1.0, ny)
        ref = onp.array([[xs[i], ys[j]] for j in range(ny) for i in range(nx)])
        conns = []
        for j in range(ny - 1):
            for i in range(nx - 1):
                a, b, c, d = i + nx * j, i + 1 + nx * j, i + 1 + nx * (j + 1), i + nx * (j + 1)
                if (i + j) % 2 == 0:
                    conns += [[a, b, c], [a, c, d]]
                else:
                    conns += [[a, b, d], [b, c, d]]
        return ref, onp.array(conns, dtype=int)
    assert label == "d7"
    from scipy.spatial import Delaunay
    rng = onp.random.default_rng(7000 + seed)
    corners = onp.array([[0.0, 0.0], [1.0, 0.0], [1.0, 1.0], [0.0, 1.0]])
    for _ in range(1000):
        inner = 0.2 + 0.6 * rng.random((3, 2))
        pts = onp.vstack((corners, inner))
        d = onp.linalg.norm(inner[:, None, :] - inner[None, :, :], axis=2) + 10.0 * onp.eye(3)
        if d.min() < 0.2:
            continue
        tri = Delaunay(pts).simplices.astype(int)
        ok = True
        for t in tri:
            v = pts[t]
            e = [onp.linalg.norm(v[(k + 1) % 3] - v[k]) for k in range(3)]
            area2 = abs(onp.cross(v[1] - v[0], v[2] - v[0]))
            if area2 / max(e) ** 2 < 0.15:        # height / longest edge >= 0.15
                ok = False
        if ok and len(set(tri.ravel().tolist())) == 7:
            break
    else:                                           # pragma: no cover
        raise AssertionError("no admissible Delaunay mesh")
    out = []
    for t in tri[onp.lexsort(onp.sort(tri, axis=1).T[::-1])]:
        v = pts[t]
        if onp.cross(v[1] - v[0], v[2] - v[0]) < 0:
            t = t[[0, 2, 1]]
        out.append(t.tolist())
    return pts, onp.array(out, dtype=int)


def _physical(label, ref, mode):
    x, y = ref[:, 0], ref[:, 1]
    if label == "s2x2":
        X = onp.column_stack((x, y))
    elif label == "g3x2":
        X = onp.column_stack((1.5 * x ** 1.4 + 0.3 * y, 0.8 * y + 0.15 * x * y))
    else:
        X = onp.column_stack((1.2 * x + 0.1 * y, 0.9 * y - 0.05 * x))
    if mode == "axi":
        X = X + onp.array([0.5 - X[:, 0].min(), 0.0])
    return X


def _renumber(conns, variant, seed):
    ne = conns.shape[0]
    if variant == "plain":
        return conns.copy(), onp.arange(ne)
    perm = onp.random.default_rng(9000 + seed).permutation(ne)
    if onp.array_equal(perm, onp.arange(ne)):
        perm = perm[::-1]
    new = onp.array([onp.roll(conns[perm[k]], k % 3) for k in range(ne)], dtype=int)
    return new, perm


def _blocks(ne, perm, nb):
    """Blocks defined on the ORIGINAL element numbering, then carried through the renumbering."""
    pos = onp.empty(ne, dtype=int)
    pos[perm] = onp.arange(ne)                    # original element o now has index pos[o]
    if nb == 1:
        parts = [list(range(ne))]
    elif nb == 2:
        parts = [list(range(ne // 2)), list(range(ne // 2, ne))]
    else:
        parts = [[o for o in range(ne) if o % 3 == r] for r in range(3)]
    return {"blk%d" % b: onp.sort(pos[onp.array(p, dtype=int)]) for b, p in enumerate(parts)}


def _fields(X0, seed):
    """X0: coordinates relative to the domain's lower-left corner. All fields are O(0.05) strains."""
    x, y = X0[:, 0], X0[:, 1]
    rng = onp.random.default_rng(5000 + seed)
    a = 0.015 + 0.01 * rng.random(4)
    k = 1.5 + 2.0 * rng.random((4, 2))
    ph = 2 * onp.pi * rng.random(4)
    smooth = onp.column_stack((a[0] * onp.sin(k[0, 0] * x + k[0, 1] * y + ph[0]) + a[1] * onp.cos(k[1, 0] * x - k[1, 1] * y + ph[1]),
                               a[2] * onp.sin(k[2, 0] * x - k[2, 1] * y + ph[2]) + a[3] * onp.cos(k[3, 0] * x + k[3, 1] * y + ph[3])))
    G = onp.array([[0.06, -0.04], [0.05, 0.03]])
    affine = X0 @ G.T
    quad = onp.column_stack((0.05 * x * x + 0.04 * x * y - 0.03 * y * y, 0.04 * y * y - 0.05 * x * y + 0.02 * x * x))
    G2 = onp.array([[-0.03, 0.05], [0.02, 0.04]])
    pred = X0 @ G2.T + 0.5 * quad[:, ::-1] + 0.01
    # update fields: strain grows from ~0 at the lower-left corner to ~0.3, so that some quadrature points stay
    # elastic and others yield (J2: |dev e| > 0.1); every point relaxes for the viscoelastic models
    load1 = onp.column_stack((0.25 * x * y, 0.10 * x * x))
    load2 = onp.column_stack((-0.10 * y * y + 0.03 * y, 0.20 * x * y - 0.02 * x))
    return {"zero": 0.0 * X0, "affine": affine, "quadratic": quad, "smooth": smooth,
            "pred": pred, "load1": load1, "load2": load2}


def _material(label):
    base = {"elastic modulus": 1.0, "poisson ratio": 0.25, "density": 1.3}
    if label == "le":
        from optimism.material import LinearElastic
        return LinearElastic.create_material_model_functions(dict(base))
    if label in ("neo", "neoc"):
        from optimism.material import Neohookean
        return Neohookean.create_material_model_functions(dict(base, version="adagio" if label == "neo" else "coupled"))
    if label == "gent":
        from optimism.material import Gent
        return Gent.create_material_functions({"bulk modulus": 1.0, "shear modulus": 0.4, "Jm parameter": 3.0, "density": 1.3})
    if label in ("j2", "j2s"):
        from optimism.material import J2Plastic
        p = dict(base)
        p.update({"yield strength": 0.1, "hardening model": "linear", "hardening modulus": 0.1,
                  "kinematics": "large deformations" if label == "j2" else "small deformations"})
        return J2Plastic.create_material_model_functions(p)
    if label == "visco":
        from optimism.material import HyperViscoelastic
        return HyperViscoelastic.create_material_model_functions(
            {"equilibrium bulk modulus": 1.0, "equilibrium shear modulus": 0.3, "non equilibrium shear modulus": 0.5,
             "relaxation time": 0.5, "density": 1.3})
    if label == "mbvisco":
        from optimism.material import MultiBranchHyperViscoelastic
        return MultiBranchHyperViscoelastic.create_material_model_functions(
            {"equilibrium bulk modulus": 1.0, "equilibrium shear modulus": 0.3, "density": 1.3,
             "non equilibrium shear modulus 1": 0.5, "relaxation time 1": 0.5,
             "non equilibrium shear modulus 2": 0.3, "relaxation time 2": 0.05,
             "non equilibrium shear modulus 3": 0.2, "relaxation time 3": 5.0})
    raise AssertionError(label)


class _Problem:
    pass


def _build(g, seed):
    """Mesh, node groups, function space (library objects), fields (numpy)."""
    import jax.numpy as jnp
    from optimism import FunctionSpace, Mesh, QuadratureRule
    P = _Problem()
    ref, conns0 = _simplex(g["mesh"], seed)
    conns, perm = _renumber(conns0, g["variant"], seed)
    X = _physical(g["mesh"], ref, g["mode"])
    # validity of the input mesh (harness-side)
    for t in conns:
        v = X[t]
        assert onp.cross(v[1] - v[0], v[2] - v[0]) > 1e-6, "inverted input element"
    nb = int(g["factory"][2]) if g["factory"].startswith("mb") else 1
    blocks = {k: jnp.array(v) for k, v in _blocks(conns.shape[0], perm, nb).items()}
    mk = lambda C: Mesh.create_higher_order_mesh_from_simplex_mesh(
        Mesh.construct_mesh_from_basic_data(jnp.array(C), jnp.array(conns), blocks), g["order"])
    mref, mesh = mk(ref), mk(X)
    assert onp.array_equal(onp.asarray(mref.conns), onp.asarray(mesh.conns))
    R = onp.asarray(mref.coords)
    tol = 1e-9
    onb = (R[:, 0] < tol) | (R[:, 0] > 1 - tol) | (R[:, 1] < tol) | (R[:, 1] > 1 - tol)
    dist = onp.linalg.norm(R - onp.array([0.5 + 0.0137, 0.5 - 0.0071]), axis=1) + 10.0 * onb
    nodeSets = {"left": onp.flatnonzero(R[:, 0] < tol), "right": onp.flatnonzero(R[:, 0] > 1 - tol),
                "bottom": onp.flatnonzero(R[:, 1] < tol), "top": onp.flatnonzero(R[:, 1] > 1 - tol),
                "inner": onp.array([int(onp.argmin(dist))])}
    assert not onb[nodeSets["inner"][0]]
    P.nodeSets = {k: [int(i) for i in v] for k, v in nodeSets.items()}
    P.mesh = Mesh.mesh_with_nodesets(mesh, {k: jnp.array(v) for k, v in nodeSets.items()})
    P.conns = onp.asarray(P.mesh.conns)
    P.X = onp.asarray(P.mesh.coords)
    P.nN = P.X.shape[0]
    P.nd = 2 * P.nN
    quad = QuadratureRule.create_quadrature_rule_on_triangle(degree=g["qdeg"])
    P.fs = FunctionSpace.construct_function_space(P.mesh, quad, mode2D="axisymmetric" if g["mode"] == "axi" else "cartesian")
    P.nq = len(quad)
    P.fields = _fields(P.X - P.X.min(axis=0), seed)
    P.mode2D = "axisymmetric" if g["mode"] == "axi" else "plane strain"
    P.blockNames = sorted(blocks)
    return P


def _check_detF(P, g):
    """Admissibility of the inputs: det F > 0 (incl. hoop stretch) at every quadrature point, for every field."""
    import jax.numpy as jnp
    from optimism import FunctionSpace, Mechanics
    mod = Mechanics.axisymmetric_element_gradient_transformation if g["mode"] == "axi" else \
        Mechanics.plane_strain_gradient_transformation
    worst = 1e9
    cands = [P.fields[n] for n in sorted(P.fields)]
    # buggy evaluation points must stay finite too (U - UPredicted), so that a defect shows as a finite mismatch
    cands += [P.fields[f] - P.fields["pred"] for f in ("zero", "affine", "quadratic", "smooth")]
    for V in cands:
        gr = onp.asarray(FunctionSpace.compute_field_gradient(P.fs, jnp.array(V), mod))
        J = onp.linalg.det(gr + onp.eye(3))
        worst = min(worst, float(J.min()))
    assert worst > 0.3, "field with det F = %g" % worst
    return worst


def _subset(P, mask):
    """Reference partition from the labelled pairs (python sets)."""
    bc = set()
    for i, (grp, comp) in enumerate(PAIRS):
        if (mask >> i) & 1:
            for n in P.nodeSets[grp]:
                bc.add(2 * n + comp)
    unk = [d for d in range(P.nd) if d not in bc]
    mixed = False
    for row in P.conns:
        dofs = [2 * int(n) + c for n in row for c in (0, 1)]
        k = sum(1 for d in dofs if d in bc)
        if 0 < k < len(dofs):
            mixed = True
            break
    return sorted(bc), unk, mixed


def _ebcs(mask):
    from optimism import FunctionSpace
    return [FunctionSpace.EssentialBC(nodeSet=grp, component=comp)
            for i, (grp, comp) in enumerate(PAIRS) if (mask >> i) & 1]


# ------------------------------------------------------------------------------------------ keys
def _fkind(g):
    f = g["factory"]
    return "mechanics" if f == "mech" else ("dynamics" if f.startswith("dyn") else "multiblock")


def _ppl(g):
    return "None" if g["pp"] is None else str(g["pp"])


def _factory_name(g):
    return {"mechanics": "create_mechanics_functions", "multiblock": "create_multi_block_mechanics_functions",
            "dynamics": "create_dynamics_functions"}[_fkind(g)]


def _mismatch_key(g, upred, tangent, sig):
    k = _fkind(g)
    if k == "dynamics":
        return "dynamics.compute_element_hessians|UPredicted=%s|tangent=%s|%s" % (upred, tangent, sig)
    if k == "mechanics":
        return "mechanics.compute_element_stiffnesses|mode=%s|pp=%s|%s" % (g["mode"], _ppl(g), sig)
    return "multiblock.compute_element_stiffnesses|blocks=%s|pp=%s|%s" % (g["factory"][2], _ppl(g), sig)


# ------------------------------------------------------------------------------------------ driver
PER_KEY = 12


def _cap_violations_per_key(rec):
    """The recorder stores at most 200 violations per group; one defect produces thousands of failing cases here
    (256 subsets x fields x states), which would crowd out a *different* key found later in the same group.
    Keep the first PER_KEY cases of every key, count the rest."""
    orig = rec.violation
    seen = {}

    def violation(key, cid, detail):
        seen[key] = seen.get(key, 0) + 1
        if seen[key] <= PER_KEY:
            orig(key, cid, detail)
        else:
            rec.branch("violating-cases-not-stored (beyond %d per key and group)" % PER_KEY)
    rec.violation = violation


def run_group(g, tier, seed, rec):
    import jax
    import jax.numpy as jnp
    from mc.runner import exception_key
    from optimism import FunctionSpace, Mechanics
    from optimism.SparseMatrixAssembler import assemble_sparse_stiffness_matrix

    cfgid = "cfg=" + g["name"]
    _cap_violations_per_key(rec)
    P = _build(g, seed)
    kind = _fkind(g)
    mat = _material(g["mat"])
    rec.branch("factory:" + kind)
    rec.branch("mode:" + g["mode"])
    rec.branch("pp:" + _ppl(g))
    rec.branch("material:" + g["mat"])
    rec.branch("order:%d" % g["order"])
    rec.branch("mesh:%s/%s" % (g["mesh"], g["variant"]))
    if kind == "multiblock":
        rec.branch("blocks:" + g["factory"][2])

    # ---- construct the factory under test -------------------------------------------------------------
    cid0 = cfgid + ";construct"
    try:
        if kind == "mechanics":
            F = Mechanics.create_mechanics_functions(P.fs, P.mode2D, mat, pressureProjectionDegree=g["pp"])
        elif kind == "multiblock":
            F = Mechanics.create_multi_block_mechanics_functions(P.fs, P.mode2D, {b: mat for b in P.blockNames},
                                                                 pressureProjectionDegree=g["pp"])
        else:
            gam, beta, dt = NEWMARK[g["factory"]]
            F = Mechanics.create_dynamics_functions(P.fs, P.mode2D, mat, Mechanics.NewmarkParameters(gamma=gam, beta=beta),
                                                    pressureProjectionDegree=g["pp"])
    except NotImplementedError as e:
        if kind == "multiblock" and g["mode"] == "axi":
            rec.branch("construct:multiblock-axisymmetric-NotImplementedError")
            if rec.want(cid0):
                rec.case(cid0, nontrivial=False, outcome="not-implemented-by-design")
            return
        raise
    except Exception as e:  # noqa
        if rec.want(cid0):
            rec.violation("%s|pressureProjection=%s|construct|%s" % (_factory_name(g), _ppl(g), exception_key(e)),
                          cid0, {"config": g, "error": repr(e)[:500]})
            rec.case(cid0, nontrivial=False, outcome="construct-exception")
        rec.branch("construct:exception")
        return
    rec.branch("construct:ok")

    detmin = _check_detF(P, g)
    rec.track_max("1 - min det F over fields (admissibility, not an oracle)", 1.0 - detmin)

    if kind == "dynamics":
        dt = NEWMARK[g["factory"]][2]
        energy = lambda U, UP, st, dt_: F.compute_algorithmic_energy(U, UP, st, dt_)
        elem = lambda U, UP, st, dt_: F.compute_element_hessians(U, UP, st, dt_)
        upreds = [("zero", P.fields["zero"]), ("nonzero", P.fields["pred"])]
    else:
        dt = DT_STATIC
        energy = lambda U, UP, st, dt_: F.compute_strain_energy(U, st, dt_)
        elem = lambda U, UP, st, dt_: F.compute_element_stiffnesses(U, st, dt_)
        upreds = [("na", P.fields["zero"])]
    update = lambda U, st, dt_: F.compute_updated_internal_variables(U, st, dt_)
    hess = jax.jit(jax.hessian(energy, 0))
    energy_j = jax.jit(energy)

    if g["kind"] == "direct":
        return _run_direct(g, P, F, energy, elem, dt, rec, tier)

    def lib(call, cid, what, upl="na"):
        """Guarded library call: an exception on an admissible input is a violation."""
        try:
            return call()
        except Exception as e:  # noqa
            rec.violation("%s|pp=%s|%s|%s" % (_factory_name(g), _ppl(g), what, exception_key(e)), cid,
                          {"config": g, "error": repr(e)[:800]})
            rec.branch("exception:" + what)
            return None

    # ---- internal states (real update steps) -------------------------------------------------------------
    stateful = g["mat"] in STATEFUL
    st0 = lib(lambda: F.compute_initial_state(), cid0, "compute_initial_state")
    if st0 is None:
        rec.case(cid0, nontrivial=False, outcome="exception")
        return
    states = [("init", st0)]
    ns_mat = int(onp.asarray(mat.compute_initial_state()).shape[0])
    if stateful:
        st = st0
        for lvl, fname in ((1, "load1"), (2, "load2")):
            stn = lib(lambda: update(jnp.array(P.fields[fname]), st, dt), cid0, "compute_updated_internal_variables")
            if stn is None:
                rec.case(cid0, nontrivial=False, outcome="exception")
                return
            rec.transition()
            ch = onp.abs(onp.asarray(stn) - onp.asarray(st)).reshape(-1, onp.asarray(st).shape[-1]).max(axis=1)
            nch = int((ch > 1e-6).sum())
            rec.branch("state-update:qps-changed", nch)
            rec.branch("state-update:qps-unchanged", int(ch.size - nch))
            assert nch > 0, "update field does not change the internal state (harness: field too small)"
            assert onp.isfinite(onp.asarray(stn)).all(), "non-finite internal state from update"
            states.append(("upd%d" % lvl, stn))
            st = stn
    rec.branch("state-classes", len(states))

    # ---- single-block reference for the multi-block clauses ------------------------------------------------
    S = None
    if kind == "multiblock":
        S = lib(lambda: Mechanics.create_mechanics_functions(P.fs, P.mode2D, mat, pressureProjectionDegree=g["pp"]),
                cid0, "single-block-construct")
        if S is None:
            return
        S_energy = jax.jit(lambda U, st, dt_: S.compute_strain_energy(U, st, dt_))
        s0 = S.compute_initial_state()
        sstates = [("init", s0)]
        s = s0
        if stateful:
            for lvl, fname in ((1, "load1"), (2, "load2")):
                s = S.compute_updated_internal_variables(jnp.array(P.fields[fname]), s, dt)
                sstates.append(("upd%d" % lvl, s))
        Eref = abs(float(S_energy(jnp.array(P.fields["load1"]), s0, dt)))
        # state-update clause
        for (sl, stm), (_, sts) in zip(states, sstates):
            cid = "%s;state=%s;cmp=state-update" % (cfgid, sl)
            if not rec.want(cid):
                continue
            a, b = onp.asarray(stm), onp.asarray(sts)
            if ns_mat == 0:
                rec.case(cid, nontrivial=False, outcome="multiblock-state:stateless")
                continue
            if a.shape[:2] != b.shape[:2] or a.shape[2] < ns_mat:
                rec.violation("multiblock|blocks=%s|pp=%s|state-shape" % (g["factory"][2], _ppl(g)), cid,
                              {"multi": list(a.shape), "single": list(b.shape)})
                rec.case(cid, nontrivial=True, outcome="multiblock-state:shape")
                continue
            d = float(onp.abs(a[:, :, :ns_mat] - b).max())
            scale = max(1.0, float(onp.abs(b).max()))
            rec.track_max("multiblock state update |Qm-Qs|/max(1,|Qs|)", d / scale)
            if not d <= TAU * scale:
                rec.violation("multiblock|blocks=%s|pp=%s|state-update-ne-single-block" % (g["factory"][2], _ppl(g)), cid,
                              {"config": g, "max_abs_diff": d, "scale": scale,
                               "worst_index": [int(i) for i in onp.unravel_index(onp.argmax(onp.abs(a[:, :, :ns_mat] - b)), b.shape)],
                               "blocks": {k: onp.asarray(P.mesh.blocks[k]) for k in P.blockNames}})
            rec.case(cid, nontrivial=(sl != "init"), outcome="multiblock-state:" + sl, steps=1)

    # ---- DofManagers for all 256 subsets (numpy side only) ---------------------------------------------------
    subsets = []
    for mask in range(1 << NPAIRS):
        bc, unk, mixed = _subset(P, mask)
        subsets.append((mask, bc, onp.array(unk, dtype=int), mixed))
    dms = {}

    def dofmanager(mask, cid):
        if mask not in dms:
            dms[mask] = lib(lambda: FunctionSpace.DofManager(P.fs, 2, _ebcs(mask)), cid, "DofManager")
        return dms[mask]

    # create_field is the canonical injection (10 subsets, through jax.jacfwd)
    for mask in JAC_MASKS:
        cid = "%s;bc=%d;cmp=create_field-jacobian" % (cfgid, mask)
        if not rec.want(cid):
            continue
        dm = dofmanager(mask, cid)
        if dm is None:
            continue
        unk = subsets[mask][2]
        Pj = lib(lambda: jax.jit(jax.jacfwd(dm.create_field))(jnp.zeros(unk.size)), cid, "create_field")
        if Pj is None:
            continue
        Pj = onp.asarray(Pj).reshape(P.nd, unk.size)
        Pexp = onp.zeros((P.nd, unk.size))
        Pexp[unk, onp.arange(unk.size)] = 1.0
        if not onp.array_equal(Pj, Pexp):
            rec.violation("DofManager.create_field|jacobian-not-canonical-injection", cid,
                          {"mask": mask, "unknown_expected": unk, "nonzero_rows": onp.flatnonzero(onp.abs(Pj).sum(axis=1))})
        rec.case(cid, nontrivial=bool(subsets[mask][3]), outcome="create_field-jacobian")
        rec.branch("create_field-jacobian-checked")

    # ---- the product state x field x UPredicted x subset ---------------------------------------------------------
    fields = ["zero", "affine", "quadratic", "smooth"]
    sample_masks = set(pick(range(1 << NPAIRS), seed, 2))
    evals = {}
    for sl, st in states:
        for fl in fields:
            for upl, UPn in upreds:
                U = jnp.array(P.fields[fl])
                UP = jnp.array(UPn)
                tag = "%s;state=%s;field=%s%s" % (cfgid, sl, fl, "" if upl == "na" else ";upred=" + upl)
                H = lib(lambda: hess(U, UP, st, dt), tag, "energy-hessian")
                Ke = lib(lambda: elem(U, UP, st, dt), tag, "compute_element_" + ("hessians" if kind == "dynamics" else "stiffnesses"))
                rec.transition(2)
                if H is None or Ke is None:
                    rec.case(tag, nontrivial=False, outcome="exception")
                    continue
                evals[(sl, fl, upl)] = (onp.asarray(H).reshape(P.nd, P.nd), Ke, tag)

    if not evals:
        return
    refkey = ("init", "zero", upreds[0][0])
    Href = evals[refkey][0] if refkey in evals else None
    Hscale_cfg = max(float(onp.abs(v[0]).max()) for v in evals.values() if onp.isfinite(v[0]).all()) if evals else 1.0
    # measured: does the tangent of this configuration depend on the field / state at all?
    varies = False
    if Href is not None:
        for (sl, fl, upl), (H, _, _) in evals.items():
            if onp.isfinite(H).all() and float(onp.abs(H - Href).max()) > 1e-6 * Hscale_cfg:
                varies = True
    tangent_cfg = "field-dependent" if varies else "constant"
    rec.branch("tangent:" + tangent_cfg)

    first_detail = set()
    jacset = set(JAC_MASKS)
    conns_np = P.conns
    for (sl, fl, upl), (H, Ke, tag) in evals.items():
        Hmax = float(onp.abs(H).max())
        if not onp.isfinite(H).all():
            rec.noverdict(tag, "oracle-hessian-nonfinite")
            continue
        tau = TAU * Hmax
        changed = Href is not None and float(onp.abs(H - Href).max()) > 1e-6 * Hscale_cfg
        tclass = "tangent-changed" if changed else "tangent-ref"
        Ken = onp.asarray(Ke)
        if not onp.isfinite(Ken).all():
            if rec.want(tag):
                rec.violation(_mismatch_key(g, upl, tangent_cfg, "element-stiffness-nonfinite"), tag,
                              {"config": g, "n_nonfinite": int((~onp.isfinite(Ken)).sum())})
                rec.case(tag, nontrivial=True, outcome="nonfinite")
            continue

        # multi-block == single-block: energy and element stiffness
        if S is not None:
            sst = dict(sstates)[sl]
            U = jnp.array(P.fields[fl])
            cid = tag + ";cmp=energy"
            if rec.want(cid):
                Em = lib(lambda: float(energy_j(U, U, dict(states)[sl], dt)), cid, "compute_strain_energy")
                Es = float(S_energy(U, sst, dt))
                if Em is not None:
                    rec.track_max("multiblock energy |Em-Es|/max(|Es|,Eload)", abs(Em - Es) / max(abs(Es), Eref))
                    if not abs(Em - Es) <= TAU_E * max(abs(Es), Eref):
                        rec.violation("multiblock|blocks=%s|pp=%s|energy-ne-single-block" % (g["factory"][2], _ppl(g)), cid,
                                      {"config": g, "E_multi": Em, "E_single": Es})
                    rec.case(cid, nontrivial=(fl != "zero" or sl != "init"), outcome="multiblock-energy:" + tclass)
            cid = tag + ";cmp=element-stiffness"
            if rec.want(cid):
                Ks = onp.asarray(S.compute_element_stiffnesses(U, sst, dt))
                rec.transition()
                if Ks.shape != Ken.shape:
                    rec.violation("multiblock|blocks=%s|pp=%s|stiffness-shape" % (g["factory"][2], _ppl(g)), cid,
                                  {"multi": list(Ken.shape), "single": list(Ks.shape)})
                else:
                    d = float(onp.abs(Ken - Ks).max())
                    sc = float(onp.abs(Ks).max())
                    rec.track_max("multiblock |Ke_m-Ke_s|/max|Ke_s|", d / sc)
                    if not d <= TAU * sc:
                        e = int(onp.argmax(onp.abs(Ken - Ks).reshape(Ks.shape[0], -1).max(axis=1)))
                        rec.violation("multiblock|blocks=%s|pp=%s|stiffness-ne-single-block" % (g["factory"][2], _ppl(g)), cid,
                                      {"config": g, "max_abs_diff": d, "scale": sc, "worst_element": e,
                                       "blocks": {k: onp.asarray(P.mesh.blocks[k]) for k in P.blockNames}})
                rec.case(cid, nontrivial=True, outcome="multiblock-stiffness:" + tclass)

        for mask, bc, unk, mixed in subsets:
            cid = "%s;bc=%d" % (tag, mask)
            if not rec.want(cid):
                continue
            dm = dofmanager(mask, cid)
            if dm is None:
                rec.case(cid, nontrivial=False, outcome="exception")
                continue
            try:
                # jax array (as callers pass it) for the 10 JAC_MASKS subsets; numpy copy of the same values for
                # the others: eager jax boolean-mask indexing compiles one kernel per distinct mask size (~50 ms)
                K = assemble_sparse_stiffness_matrix(Ke if mask in jacset else Ken, conns_np if mask not in jacset else P.mesh.conns, dm)
                K = onp.asarray(K.toarray())
            except Exception as e:  # noqa
                rec.violation("assemble_sparse_stiffness_matrix|%s" % exception_key(e), cid,
                              {"config": g, "mask": mask, "error": repr(e)[:500]})
                rec.case(cid, nontrivial=mixed, outcome="exception")
                continue
            bcclass = "empty" if not bc else ("mixed" if mixed else "unmixed")
            ok = True
            if K.shape != (unk.size, unk.size):
                rec.violation(_mismatch_key(g, upl, tangent_cfg, "shape"), cid,
                              {"config": g, "mask": mask, "got": list(K.shape), "expected": [int(unk.size)] * 2})
                rec.case(cid, nontrivial=mixed, outcome="shape")
                continue
            Huu = H[onp.ix_(unk, unk)]
            if not onp.isfinite(K).all():
                rec.violation(_mismatch_key(g, upl, tangent_cfg, "nonfinite"), cid, {"config": g, "mask": mask})
                rec.case(cid, nontrivial=mixed, outcome="nonfinite")
                continue
            D = onp.abs(K - Huu)
            d = float(D.max()) if D.size else 0.0
            a = float(onp.abs(K - K.T).max()) if K.size else 0.0
            tl = kind if kind != "dynamics" else "dynamics,UPredicted=%s,tangent=%s" % (upl, tangent_cfg)
            rec.track_max("stiffness vs hessian max|K-H|/max|H| [%s]" % tl, d / Hmax)
            rec.track_max("asymmetry max|K-K^T|/max|H| [%s]" % tl, a / Hmax)
            if not d <= tau:
                ok = False
                key = _mismatch_key(g, upl, tangent_cfg, "stiffness-ne-hessian")
                i, j = [int(x) for x in onp.unravel_index(int(onp.argmax(D)), D.shape)]
                det = {"config": g, "state": sl, "field": fl, "upred": upl, "mask": mask,
                       "pairs": [PAIRS[b] for b in range(NPAIRS) if (mask >> b) & 1],
                       "max_abs_diff": d, "tolerance": tau, "max_abs_H": Hmax, "rel": d / Hmax,
                       "worst_entry": {"row_dof": int(unk[i]), "col_dof": int(unk[j]), "assembled": float(K[i, j]),
                                       "hessian": float(Huu[i, j])}, "dt": dt}
                if key not in first_detail:
                    first_detail.add(key)
                    det["U"] = P.fields[fl]
                    det["UPredicted"] = dict(upreds)[upl]
                    det["coords"] = P.X
                    det["conns"] = P.conns
                    if unk.size <= 24:
                        det["assembled"] = K
                        det["hessian_uu"] = Huu
                rec.violation(key, cid, det)
            if not a <= tau:
                ok = False
                rec.violation(_mismatch_key(g, upl, tangent_cfg, "asymmetric"), cid,
                              {"config": g, "state": sl, "field": fl, "upred": upl, "mask": mask, "max_abs_asym": a,
                               "tolerance": tau})
            rec.case(cid, nontrivial=bool(mixed and unk.size > 0),
                     outcome="%s/%s/%s" % (bcclass, tclass, "ok" if ok else "mismatch"), steps=1,
                     sample=({"case": cid, "n_unknown": int(unk.size), "n_bc": len(bc), "max_abs_H": Hmax,
                              "max_abs_diff": d, "asym": a} if (mask in sample_masks and fl == "smooth") else None))
            rec.branch("bc:" + bcclass)


def _run_direct(g, P, F, energy, elem, dt, rec, tier):
    """End to end: jax.hessian of Uu -> E(create_field(Uu, Ubc)) for a few subsets (one compilation each)."""
    import jax
    import jax.numpy as jnp
    from mc.runner import exception_key
    from optimism import FunctionSpace
    from optimism.SparseMatrixAssembler import assemble_sparse_stiffness_matrix
    cfgid = "cfg=" + g["name"]
    st = F.compute_initial_state()
    masks = [0b00000011, 0b10011010, 0b01101001, 0b11111111] if tier == "quick" else \
        [0, 0b00000011, 0b10011010, 0b01101001, 0b11111111, 0b00110101, 0b11000110, 0b01011000]
    for mask in masks:
        bc, unk, mixed = _subset(P, mask)
        dm = FunctionSpace.DofManager(P.fs, 2, _ebcs(mask))
        for fl in ("affine", "smooth"):
            cid = "%s;field=%s;bc=%d;direct" % (cfgid, fl, mask)
            if not rec.want(cid):
                continue
            U = jnp.array(P.fields[fl])
            try:
                Uu, Ubc = dm.get_unknown_values(U), dm.get_bc_values(U)
                f = lambda Uu_: energy(dm.create_field(Uu_, Ubc), U, st, dt)
                H = onp.asarray(jax.jit(jax.hessian(f))(Uu))
                Ke = elem(U, U, st, dt)
                K = onp.asarray(assemble_sparse_stiffness_matrix(Ke, P.mesh.conns, dm).toarray())
            except Exception as e:  # noqa
                rec.violation("direct|%s" % exception_key(e), cid, {"config": g, "mask": mask, "error": repr(e)[:500]})
                rec.case(cid, nontrivial=mixed, outcome="exception")
                continue
            rec.transition(2)
            Hmax = float(onp.abs(H).max())
            d = float(onp.abs(K - H).max()) if K.shape == H.shape else float("inf")
            a = float(onp.abs(K - K.T).max())
            rec.track_max("direct (through create_field) max|K-H|/max|H|", d / Hmax)
            if not d <= TAU * Hmax:
                rec.violation("mechanics.compute_element_stiffnesses|mode=%s|pp=%s|direct-stiffness-ne-hessian" % (g["mode"], _ppl(g)),
                              cid, {"config": g, "mask": mask, "field": fl, "max_abs_diff": d, "max_abs_H": Hmax,
                                    "shapes": [list(K.shape), list(H.shape)]})
            if not a <= TAU * Hmax:
                rec.violation("mechanics.compute_element_stiffnesses|mode=%s|pp=%s|direct-asymmetric" % (g["mode"], _ppl(g)),
                              cid, {"config": g, "mask": mask, "field": fl, "max_abs_asym": a})
            rec.case(cid, nontrivial=bool(mixed), outcome="direct/" + ("mixed" if mixed else ("empty" if not bc else "unmixed")), steps=2)
            rec.branch("direct-through-create_field")
