"""C15 -- Newmark stepping: momentum balance, update formulas, energy conservation, exact rigid motion, total mass.

E-BFS over time-step sequences on the REAL Newmark machinery of optimism/Mechanics.py
(create_dynamics_functions -> predict / compute_algorithmic_energy / correct / compute_output_kinetic_energy /
compute_output_strain_energy / compute_element_masses).  One transition = predict -> minimise
compute_algorithmic_energy over the unknowns by a dense Newton iteration on its JAX gradient/Hessian (in the
harness, so the verdict is about Mechanics.py and not about the trust-region solver) -> correct.  After every
transition the invariants of the statement are evaluated with numpy (mc/ref/newmark_ref.py) and, for the linear
material, a dense reference Newmark integrator is stepped in lock-step.
"""
import os
import types

import numpy as onp

ID = "C15"
TITLE = ("Newmark predict/minimise/correct satisfies the discrete momentum balance and the update formulas; trapezoidal + "
         "linear elastic conserves energy for every dt sequence; rigid translation exact; mass sums to density*area")
LEVEL = "model_checking"
RULE = ("E-BFS: per compiled configuration (mesh x order x (rho,E,nu) x (gamma,beta) x material) and per root (BC x initial "
        "field), ALL sequences of time steps dt in {1e-3, 0.1, 0.75, 10} up to the depth bound (3 quick / 5 thorough), "
        "de-duplicated on the canonical state = (U,V,A) rounded to a 1e-7 grid of the root's characteristic scales. "
        "A case = one history (one new real-code transition predict->minimise->correct, checked against the reference). "
        "Non-trivial = the minimisation did real work: the measured correction U-UPredicted (i.e. the new acceleration) is "
        "non-zero beyond 1e-9 of the displacement scale, so inertia and internal force both enter the balance "
        "(rigid translation steps are the trivial ones).")
ASSUMPTIONS = [
    "reference model mc/ref/newmark_ref.py: textbook Newmark formulas, dense numpy solves, triangle areas by cross products; "
    "never imports optimism",
    "the minimisation of compute_algorithmic_energy is done by the harness: damped dense Newton on jax.grad/jax.hessian of the "
    "library function itself, started at the predictor (or at the previous displacement when the predictor is not a finite-"
    "energy state), iterated to the rounding floor; a step whose Newton iteration does not reach the floor gives no verdict",
    "consistent initial acceleration M a0 = -f_int(u0) is supplied by the reference side (energy conservation needs it)",
    "M in the momentum balance is assembled (numpy) from compute_element_masses(); f_int is the JAX gradient of "
    "compute_output_strain_energy; both are code paths different from compute_algorithmic_energy",
    "homogeneous Dirichlet data on the clamped side (U=V=A=0 there); no external loads; elastic materials (empty internal state)",
    "straight-sided elements; quadrature degree 2*order (mass integrated exactly, mass matrix non-singular)",
    "exact rigid translation and energy conservation are demanded only where the statement promises them "
    "(trapezoidal parameters, linear-elastic material); outside that scope the same quantities are recorded as observations",
    "canonical-state merging only decides which histories are expanded further; every invariant is evaluated on the actually "
    "computed state of every history before merging",
    "VERIF_SEED only draws the polynomial coefficients of the 'seeded' smooth initial field and which cases become samples",
]
TOL_REL = 1e-8          # design tolerance (relative to the magnitude of the terms compared)
TOL_ROUND = 1e-12       # multiplies the a-priori rounding scale of the 1/(beta dt^2) difference quotient
TOL_ROUND_E = 2e-14     # (~90 eps) rounding level of a momentum residual, used for the a-priori energy bound
TOL_FORMULA = 1e-11     # update formulas: pure arithmetic, relative to the sum of magnitudes of the terms
TOL_MASS = 1e-11
TOLERANCES = {
    "momentum balance": "|M a + f_int|_inf <= 1e-8*(||M||a||_inf + |f_int|_inf) + 1e-12*s,  s = |M|_inf(|U|+|UPred|)/(beta dt^2) + |K0|_inf |U| "
                        "(a-priori rounding scale of forming (U-UPred)/(beta dt^2) and of f_int; observed <= ~20 eps*s)",
    "update formulas": "1e-11 relative to the sum of magnitudes of the terms of each formula (pure arithmetic)",
    "energy conservation (trapezoidal, linear elastic)": "|KE+SE - E0| <= 1e-8*E0 + sum over the steps of the history of "
                        "|u_{k+1}-u_k|_1 * 2e-14*(s_k+s_{k+1})/2 (a-priori: for this scheme E_{k+1}-E_k = (u_{k+1}-u_k).(r_k+r_{k+1})/2 with r "
                        "the momentum residuals, whose rounding level is ~20 eps*s)",
    "rigid translation": "|U - t v0|_inf <= 1e-8 t|v0|, |V - v0|_inf <= 1e-8 |v0|, |A|_inf beta dt^2 <= 1e-8 t|v0|",
    "one-step linear reference": "|U - U_ref|_inf <= 1e-8 * max(|U|_inf, |U_ref|_inf, displacement scale of the root) + 1e-12*s*|(K + M/(beta dt^2))^-1|_inf",
    "mass sums / element masses vs kinetic-energy Hessian / KE(V) vs V.M.V/2": "1e-11 relative",
    "harness Newton acceptance": "|grad|_inf <= 1e-10*(||M||a||_inf + |f_int|_inf) + 1e-12*s, else no verdict",
}

DTS = [("d1e-3", 1e-3), ("d0.1", 0.1), ("d0.75", 0.75), ("d10", 10.0)]
# steel in the consistent unit system mm - tonne - s - MPa (props S): the time a wave needs to cross an element is ~1e-7 s
# and realistic time steps are of order 1e-8 s, i.e. dt^2 is BELOW the machine epsilon (added after a seeded change that
# floored dt^2 at eps in the corrector went undetected with O(1) constants)
DTS_S = [("d4e-9", 4.0e-9), ("d1e-8", 1.0e-8), ("d1e-7", 1.0e-7), ("d2e-6", 2.0e-6)]
NEWMARK = {"trap": (0.5, 0.25), "damped": (0.6, 0.3025), "b0.3": (0.5, 0.3)}
PROPS = {"A": (1.0, 10.0, 0.0), "B": (2.5, 4.0, 0.3), "C": (1.5, 8.0, 0.45), "S": (7.85e-9, 2.1e5, 0.3)}       # (density, E, nu); C only with pressure projection
MESHES = ["s2x2", "d3x2"]
ORDERS = [1, 2]
MATS = ["le", "nh"]
BCS = ["free", "clampL"]
INITS = ["rigid", "sine", "seeded"]
AMPLITUDE = 0.005          # displacement amplitude (domain size 1..2); velocity amplitude = AMPLITUDE*sqrt(E/rho)


def _depth(tier):
    return 3 if tier == "quick" else 5


def bounds(tier):
    d = _depth(tier)
    return {"depth": d, "dt_alphabet": [l for l, _ in DTS], "histories_per_root": sum(4 ** k for k in range(1, d + 1)),
            "meshes": MESHES, "orders": ORDERS, "props(rho,E,nu)": PROPS, "newmark(gamma,beta)": NEWMARK,
            "materials": MATS, "bcs": BCS, "initial_fields": INITS,
            "compiled_configurations": len(MESHES) * len(ORDERS) * 2 * len(NEWMARK) * len(MATS) + 8,
            "dt_alphabet_props_S(mm-t-s)": [l for l, _ in DTS_S],
            "roots_per_configuration": len(BCS) * len(INITS)}


def groups(tier, seed):
    gs = []
    for order in (2, 1):
        for mat in ("nh", "le"):
            for mesh in ("d3x2", "s2x2"):
                for pk in ("A", "B"):
                    for nm in NEWMARK:
                        gs.append({"name": "%s-p%d-%s-%s-%s" % (mesh, order, mat, pk, nm),
                                   "mesh": mesh, "order": order, "mat": mat, "props": pk, "nm": nm})
    # volume-averaged pressure projection (added after a seeded change in that option went undetected): nearly
    # incompressible neo-Hookean, quadratic elements, projection degree 0 and 1
    for mat in ("le", "nh"):
        for nm in ("trap", "damped"):
            gs.append({"name": "d3x2-p2-%s-S-%s" % (mat, nm), "mesh": "d3x2", "order": 2, "mat": mat, "props": "S", "nm": nm})
    for pp in (1, 0):
        for nm in ("trap", "damped"):
            gs.append({"name": "d3x2-p2-nh-C-%s-pp%d" % (nm, pp), "mesh": "d3x2", "order": 2, "mat": "nh", "props": "C",
                       "nm": nm, "pp": pp})
    return gs


def _mesh_data(name):
    if name == "s2x2":
        return 2, 2, 1.0, 1.0, False
    return 3, 2, 2.0, 1.0, True


def _poly(c, x, y):
    return c[0] + c[1] * x + c[2] * y + c[3] * x * y + c[4] * x * x + c[5] * y * y


def _initial_fields(init, coords, Lx, Ly, isbc, amp, vamp, seed):
    """(U0, V0) nodal fields (numpy), zero on constrained dofs."""
    x = coords[:, 0] / Lx
    y = coords[:, 1] / Ly
    n = coords.shape[0]
    U = onp.zeros((n, 2))
    V = onp.zeros((n, 2))
    if init == "rigid":
        V[:, 0] = vamp
        V[:, 1] = 0.3 * vamp
    elif init == "sine":
        s = onp.sin(0.5 * onp.pi * x)
        U[:, 0] = amp * s
        U[:, 1] = 0.5 * amp * s * (0.5 + y)
    else:
        rng = onp.random.default_rng(1000 + seed)
        cs = rng.uniform(-1.0, 1.0, size=(4, 6))
        f = [x * _poly(cs[k], x, y) for k in range(4)]      # smooth, vanishes on the clamped side x = 0
        f = [fk / max(onp.max(onp.abs(fk)), 1e-300) for fk in f]
        U[:, 0], U[:, 1] = amp * f[0], amp * f[1]
        V[:, 0], V[:, 1] = vamp * f[2], vamp * f[3]
    U[isbc] = 0.0
    V[isbc] = 0.0
    return U, V


def _ninf(a):
    a = onp.asarray(a)
    return float(onp.max(onp.abs(a))) if a.size else 0.0


def run_group(g, tier, seed, rec):
    import jax
    import jax.numpy as jnp
    from optimism import Mesh, FunctionSpace, QuadratureRule, Mechanics
    from optimism.material import LinearElastic, Neohookean
    from mc.ref import newmark_ref as ref
    from mc.runner import exception_key
    from mc.core import stable_hash

    maxd = _depth(tier)
    order, matname, nmname = g["order"], g["mat"], g["nm"]
    rho, E, nu = PROPS[g["props"]]
    gamma, beta = NEWMARK[nmname]
    cfg = g["name"]
    in_scope = (nmname == "trap" and matname == "le")        # scope of the conservation / exact-rigid-motion clauses

    # ---------------------------------------------------------------- real objects
    Nx, Ny, Lx, Ly, distort = _mesh_data(g["mesh"])
    coords1, conns1 = Mesh.create_structured_mesh_data(Nx, Ny, [0.0, Lx], [0.0, Ly])
    c1 = onp.array(coords1, dtype=float)
    if distort:
        x, y = c1[:, 0].copy(), c1[:, 1].copy()
        c1 = onp.stack([x + 0.2 * x * y, y + 0.15 * x - 0.1 * x * y], axis=1)   # bilinear: sides stay straight, x=0 stays put
    area = ref.triangle_area_sum(c1, onp.array(conns1))
    mesh = Mesh.construct_mesh_from_basic_data(jnp.array(c1), conns1, {"block_0": jnp.arange(conns1.shape[0])})
    mesh = Mesh.create_higher_order_mesh_from_simplex_mesh(mesh, order)
    quadRule = QuadratureRule.create_quadrature_rule_on_triangle(degree=2 * order)
    fs = FunctionSpace.construct_function_space(mesh, quadRule)
    props = {"elastic modulus": E, "poisson ratio": nu, "density": rho}
    matmod = LinearElastic if matname == "le" else Neohookean
    material = matmod.create_material_model_functions(props)
    dyn = Mechanics.create_dynamics_functions(fs, "plane strain", material,
                                              Mechanics.NewmarkParameters(gamma=gamma, beta=beta),
                                              pressureProjectionDegree=g.get("pp"))
    iv = dyn.compute_initial_state()
    coords = onp.array(mesh.coords, dtype=float)
    conns = onp.array(mesh.conns)
    n = coords.shape[0]
    nd = 2 * n
    zero = jnp.zeros((n, 2))

    def alg(U, UP, dt):
        return dyn.compute_algorithmic_energy(U, UP, iv, dt)

    @jax.jit
    def f_alg(U, UP, dt):
        return alg(U, UP, dt), jax.grad(alg)(U, UP, dt), jax.hessian(alg)(U, UP, dt)

    def strain(U, dt):
        return dyn.compute_output_strain_energy(U, iv, dt)

    f_int_j = jax.jit(jax.grad(strain))

    def f_int(U, dt):
        return onp.array(f_int_j(jnp.array(U), dt), dtype=float).ravel()

    K0 = onp.array(jax.hessian(strain)(zero, 0.0), dtype=float).reshape(nd, nd)
    Mke = onp.array(jax.hessian(dyn.compute_output_kinetic_energy)(zero), dtype=float).reshape(nd, nd)
    elM = onp.array(dyn.compute_element_masses(), dtype=float)
    M = ref.assemble_dense(elM, conns, n)
    Mnorm = float(onp.max(onp.sum(onp.abs(M), axis=1)))
    K0norm = float(onp.max(onp.sum(onp.abs(K0), axis=1)))
    omega = (K0norm / Mnorm) ** 0.5
    absM = onp.abs(M)

    def fkey(sig, by):
        return "Mechanics.create_dynamics_functions|%s|%s" % (sig, by)

    base_detail = {"config": dict(g), "density": rho, "E": E, "nu": nu, "gamma": gamma, "beta": beta,
                   "coords": coords, "conns": conns}

    # ---------------------------------------------------------------- configuration-level: mass
    cid = "cfg=%s;mass" % cfg
    if rec.want(cid):
        sig = []
        exp = rho * area
        for nmM, MM in (("element-masses", M), ("kinetic-energy-hessian", Mke)):
            sums, off = ref.component_mass_sums(MM, 2)
            err = max(abs(s - exp) for s in sums) / exp
            rec.track_max("mass_sum_rel:" + nmM, err)
            if not err <= TOL_MASS:
                sig.append(("mass-sum|" + nmM, {"sums_per_component": sums, "expected_density_times_area": exp, "area": area}))
        dM = _ninf(M - Mke) / max(_ninf(Mke), 1e-300)
        rec.track_max("element_masses_vs_kinetic_hessian_rel", dM)
        if not dM <= TOL_MASS:
            sig.append(("element-masses-vs-kinetic-energy-hessian", {"rel_diff": dM, "M_element_masses": M, "M_kinetic_hessian": Mke}))
        for s, d in sig:
            rec.violation(fkey(s, "order=%d" % order), cid, dict(base_detail, **d))
        rec.branch("mass:checked")
        rec.case(cid, nontrivial=True, outcome="mass-ok" if not sig else "mass-violating", steps=3,
                 sample={"case": cid, "area": area, "density": rho, "mass_sum_x": float(M[0::2, 0::2].sum())})

    # ---------------------------------------------------------------- one transition of the real code
    def ev(Ux, UP, dt):
        e, gg, HH = f_alg(jnp.array(Ux), jnp.array(UP), dt)
        e = float(e)
        gg = onp.array(gg, dtype=float).ravel()
        HH = onp.array(HH, dtype=float).reshape(nd, nd)
        ok = onp.isfinite(e) and onp.all(onp.isfinite(gg)) and onp.all(onp.isfinite(HH))
        return e, gg, HH, bool(ok)

    def minimise(Uold, UP, dt, unk):
        """Minimise the library's algorithmic energy over the unknowns: Newton with |eigenvalue| modification and
        Armijo backtracking far from the solution, plain Newton on the gradient norm near it, to the rounding floor.
        Returns (U, info)."""
        c = 1.0 / (beta * dt * dt)
        info = {"iters": 0, "backtracks": 0, "start": "predictor", "spd": True, "modified": 0}
        U = onp.array(UP, dtype=float)
        e, gfull, H, ok = ev(U, UP, dt)
        if not ok:
            U = onp.array(Uold, dtype=float)
            info["start"] = "previous"
            e, gfull, H, ok = ev(U, UP, dt)
            if not ok:
                info["nonfinite_at_feasible_start"] = True
                return U, info
        for it in range(400):
            gu = gfull[unk]
            gn = _ninf(gu)
            s = Mnorm * (_ninf(U) + _ninf(UP)) * c + K0norm * _ninf(U)
            ma = _ninf((absM @ onp.abs((U - UP).ravel()) * c)[unk])
            fn = _ninf((gfull - (M @ (U - UP).ravel()) * c)[unk])
            info["gnorm"], info["s"], info["terms"] = gn, s, ma + fn
            if it >= 1 and gn <= 2e-15 * s:        # rounding floor of the gradient itself
                break
            Huu = H[onp.ix_(unk, unk)]
            lam, Q = onp.linalg.eigh(0.5 * (Huu + Huu.T))
            lmax = float(onp.max(onp.abs(lam)))
            spd = bool(lam[0] > 1e-12 * lmax)
            if spd:
                dx = onp.linalg.solve(Huu, -gu)
            else:
                info["modified"] += 1
                lam2 = onp.maximum(onp.abs(lam), 1e-6 * lmax)
                dx = -Q @ ((Q.T @ gu) / lam2)
            gdx = float(gu @ dx)
            g2 = float(onp.linalg.norm(gu))
            near = gn <= 1e-5 * (ma + fn) + 1e-10 * s
            alpha, accepted = 1.0, False
            for bt in range(4 if near else 40):
                Ut = U.copy()
                Ut.ravel()[unk] += alpha * dx
                et, gt, Ht, okt = ev(Ut, UP, dt)
                if okt and ((gdx < 0 and et <= e + 1e-4 * alpha * gdx)
                            or (spd and onp.linalg.norm(gt[unk]) <= (1.0 - 1e-4 * alpha) * g2)
                            or (near and _ninf(gt[unk]) < gn)):
                    accepted = True
                    break
                alpha *= 0.5
                info["backtracks"] += 1
            if not accepted:
                break
            U, e, gfull, H = Ut, et, gt, Ht
            info["spd"] = spd
            info["iters"] += 1
        return U, info

    def transition(U, V, A, dt, unk):
        """predict -> minimise -> correct on full nodal fields (constrained dofs carry zeros)."""
        UP, VP = dyn.predict(jnp.array(U), jnp.array(V), jnp.array(A), dt)
        UP = onp.array(UP, dtype=float)
        VP = onp.array(VP, dtype=float)
        Un, info = minimise(U, UP, dt, unk)
        Vn, An = dyn.correct(jnp.array(Un - UP), jnp.array(VP), jnp.array(A), dt)
        return UP, VP, Un, onp.array(Vn, dtype=float), onp.array(An, dtype=float), info

    cx = types.SimpleNamespace(rec=rec, ref=ref, fkey=fkey, seed=seed, M=M, absM=absM, Mnorm=Mnorm, K0norm=K0norm,
                               beta=beta, gamma=gamma, matname=matname, nmname=nmname, in_scope=in_scope, dyn=dyn, iv=iv,
                               f_int=f_int, jnp=jnp)

    # ---------------------------------------------------------------- roots
    for bc in BCS:
        isbc_node = (onp.abs(coords[:, 0]) < 1e-12) if bc == "clampL" else onp.zeros(n, dtype=bool)
        isbc = onp.repeat(isbc_node, 2).reshape(n, 2)
        unk = onp.where(~isbc.ravel())[0]
        Muu = M[onp.ix_(unk, unk)]
        Kuu = K0[onp.ix_(unk, unk)]
        for init in INITS:
            root = "cfg=%s;bc=%s;init=%s" % (cfg, bc, init)
            if rec.only is not None and not rec.only.startswith(root + ";"):
                continue
            amp = AMPLITUDE
            vamp = AMPLITUDE * (E / rho) ** 0.5
            U0, V0 = _initial_fields(init, coords, Lx, Ly, isbc, amp, vamp, seed)
            f0 = f_int(U0, 0.0)
            A0 = onp.zeros(nd)
            try:
                A0[unk] = ref.initial_acceleration(Muu, f0[unk])
            except onp.linalg.LinAlgError:
                # the consistent mass of an exactly integrated Lagrange basis is positive definite
                rec.violation(fkey("mass-matrix-singular", "order=%d" % order), root + ";hist=", dict(base_detail, M=M))
                continue
            A0 = A0.reshape(n, 2)
            ke0 = float(dyn.compute_output_kinetic_energy(jnp.array(V0)))
            se0 = float(dyn.compute_output_strain_energy(jnp.array(U0), iv, 0.0))
            E0 = ke0 + se0
            # kinetic energy is the quadratic form of the mass
            cid0 = root + ";hist="
            if rec.want(cid0):
                keq = 0.5 * float(V0.ravel() @ (M @ V0.ravel()))
                errk = abs(ke0 - keq) / max(abs(keq), 1e-300) if keq != 0.0 else abs(ke0)
                rec.track_max("kinetic_energy_vs_mass_quadratic_form_rel", errk)
                if not errk <= TOL_MASS:
                    rec.violation(fkey("kinetic-energy-vs-mass", "order=%d" % order), cid0,
                                  dict(base_detail, V0=V0, kinetic_energy=ke0, half_V_M_V=keq))
                rec.case(cid0, nontrivial=False, outcome="root", steps=2)
            sV = max(_ninf(V0), omega * _ninf(U0))
            sU, sA = sV / omega, sV * omega
            dts = DTS_S if g["props"] == "S" else DTS
            uscale = max(_ninf(U0), _ninf(V0) * dts[0][1], sU)
            rx = types.SimpleNamespace(bc=bc, init=init, unk=unk, Muu=Muu, Kuu=Kuu, E0=E0, V0=V0, uscale=uscale)

            def canon(U, V, A):
                q = [onp.rint(onp.asarray(a) / (1e-7 * s)).astype(onp.int64).tobytes()
                     for a, s in ((U, sU), (V, sV), (A, sA))]
                return b"|".join(q)

            seen = {canon(U0, V0, A0)}
            rec.state(root + ";" + repr(stable_hash(repr(canon(U0, V0, A0)))))
            # momentum tolerance of the initial state (a0 from a dense solve): rounding of f_int(u0) and of M a0
            mom0 = TOL_ROUND_E * (Mnorm * _ninf(A0) + K0norm * _ninf(U0))
            # frontier entries: (history labels, U, V, A, elapsed time, accumulated a-priori energy tolerance,
            #                    momentum tolerance of this state)
            frontier = [((), U0, V0, A0, 0.0, 0.0, mom0)]
            for depth in range(1, maxd + 1):
                nxt = []
                for hist, U, V, A, t, etol, momtol in frontier:
                    for lab, dt in dts:
                        h2 = hist + (lab,)
                        cid = root + ";hist=" + ",".join(h2)
                        if rec.only is not None and not (rec.only == cid or rec.only.startswith(cid + ",")):
                            continue
                        detail = dict(base_detail, bc=bc, init=init, history=list(h2), dt=dt, U_n=U, V_n=V, A_n=A)
                        try:
                            UP, VP, Un, Vn, An, info = transition(U, V, A, dt, unk)
                        except Exception as e:  # noqa
                            k = exception_key(e)
                            if k.endswith("@harness"):
                                raise
                            rec.violation(fkey(k, "material=%s" % matname), cid, dict(detail, error=repr(e)))
                            rec.case(cid, nontrivial=False, outcome="exception")
                            continue
                        st = types.SimpleNamespace(U=U, V=V, A=A, UP=UP, VP=VP, Un=Un, Vn=Vn, An=An, dt=dt, info=info,
                                                   t2=t + dt, etol=etol, momtol=momtol, lab=lab)
                        verdict, etol2, momtol2 = _check(cx, rx, st, cid, detail, record=rec.want(cid))
                        rec.depth(depth)
                        if verdict == "no-verdict":
                            continue            # do not expand a state the harness could not compute
                        key = canon(Un, Vn, An)
                        if key in seen:
                            rec.branch("dedup-merged")
                            continue
                        seen.add(key)
                        rec.state(root + ";" + repr(stable_hash(repr(key))))
                        nxt.append((h2, Un, Vn, An, t + dt, etol2, momtol2))
                frontier = nxt


def _check(cx, rx, st, cid, detail, record):
    """Evaluate the invariants of one transition (st) of root rx in configuration cx.
    Returns (verdict, accumulated energy tolerance, momentum tolerance of the new state)."""
    from mc.core import stable_hash
    rec, ref, fkey, jnp = cx.rec, cx.ref, cx.fkey, cx.jnp
    U, V, A, UP, VP, Un, Vn, An, dt, info = st.U, st.V, st.A, st.UP, st.VP, st.Un, st.Vn, st.An, st.dt, st.info
    unk, M, beta, gamma = rx.unk, cx.M, cx.beta, cx.gamma
    c = 1.0 / (beta * dt * dt)
    by_mat = "material=%s" % cx.matname
    by_nm = "params=%s" % cx.nmname
    viol = []

    if info.get("nonfinite_at_feasible_start"):
        if record:
            rec.violation(fkey("algorithmic-energy-nonfinite-at-previous-state", by_mat), cid, dict(detail, UPredicted=UP))
            rec.case(cid, nontrivial=False, outcome="nonfinite")
        return "no-verdict", 0.0, 0.0
    finite = all(bool(onp.all(onp.isfinite(a))) for a in (UP, VP, Un, Vn, An))
    if not finite:
        if record:
            rec.violation(fkey("nonfinite-state", by_mat), cid, dict(detail, UPredicted=UP, VPredicted=VP, U=Un, V=Vn, A=An))
            rec.case(cid, nontrivial=False, outcome="nonfinite")
        return "no-verdict", 0.0, 0.0

    # conditioning scales
    s = cx.Mnorm * (_ninf(Un) + _ninf(UP)) * c + cx.K0norm * _ninf(Un)
    ma = cx.absM @ onp.abs(An.ravel())
    fint = cx.f_int(Un, dt)
    terms = _ninf(ma[unk]) + _ninf(fint[unk])
    momtol2 = TOL_REL * terms + TOL_ROUND * s
    # a-priori energy tolerance: for the trapezoidal rule on a linear system E_{n+1}-E_n = (u_{n+1}-u_n).(r_n+r_{n+1})/2
    # with r the momentum residuals, so the admitted momentum residuals bound the admitted energy change
    round2 = TOL_ROUND_E * s
    etol2 = st.etol + 0.5 * float(onp.sum(onp.abs((Un - U).ravel()[unk]))) * (st.momtol + round2)
    # harness acceptance of its own iteration (stationarity of the library's algorithmic energy)
    if not info["gnorm"] <= 1e-10 * info["terms"] + TOL_ROUND * info["s"]:
        if record:
            rec.noverdict(cid, "newton-not-converged")
            if os.environ.get("C15_DEBUG"):
                print("NOCONV", cid, info)
        return "no-verdict", 0.0, 0.0
    if not record:
        return "prefix", etol2, round2

    rec.branch("newton:start=" + info["start"])
    rec.branch("newton:iters=%s" % (info["iters"] if info["iters"] < 4 else "4+"))
    if info["backtracks"]:
        rec.branch("newton:backtracked")
    if info["modified"]:
        rec.branch("newton:indefinite-hessian-on-the-way")
    rec.branch("newton:solution-hessian-" + ("positive-definite" if info["spd"] else "not-positive-definite"))
    rec.branch("bc:" + rx.bc)
    rec.branch("init:" + rx.init)
    rec.branch("dt:" + st.lab)

    # 1. discrete momentum balance at t_{n+1} on the unknowns
    r = (M @ An.ravel() + fint)[unk]
    ratio = _ninf(r) / momtol2 if momtol2 > 0 else (0.0 if _ninf(r) == 0 else float("inf"))
    rec.track_max("momentum_residual_over_tolerance", ratio)
    if not ratio <= 1.0:
        viol.append((fkey("momentum-balance", by_mat), {"residual_inf": _ninf(r), "tolerance": momtol2, "M_a": (M @ An.ravel()),
                                                         "f_int": fint}))

    # 2. Newmark update formulas, recomputed in numpy from (u_n, v_n, a_n) and the library's (u, v, a)_{n+1}
    ru, su, rv, sv = ref.update_residuals(U, V, A, Un, Vn, An, dt, gamma, beta)
    rec.track_max("formula_u_rel", ru / su if su > 0 else 0.0)
    rec.track_max("formula_v_rel", rv / sv if sv > 0 else 0.0)
    if not ru <= TOL_FORMULA * su:
        viol.append((fkey("newmark-displacement-formula", by_nm), {"residual_inf": ru, "scale": su}))
    if not rv <= TOL_FORMULA * sv:
        viol.append((fkey("newmark-velocity-formula", by_nm), {"residual_inf": rv, "scale": sv}))
    # constrained dofs stay at rest
    isb = onp.ones(Un.size, dtype=bool)
    isb[unk] = False
    if isb.any() and (_ninf(Un.ravel()[isb]) or _ninf(Vn.ravel()[isb]) or _ninf(An.ravel()[isb])):
        viol.append((fkey("constrained-dofs-moved", by_nm), {}))

    # 3. energy: conserved for trapezoidal + linear elastic + no loads (statement); observed otherwise
    ke = float(cx.dyn.compute_output_kinetic_energy(jnp.array(Vn)))
    se = float(cx.dyn.compute_output_strain_energy(jnp.array(Un), cx.iv, dt))
    E0 = rx.E0
    drift = abs(ke + se - E0)
    if cx.in_scope:
        tolE = TOL_REL * E0 + etol2
        rec.branch("scope:energy-conservation-checked")
        rec.track_max("energy_drift_rel(trap,le)", drift / E0)
        rec.track_max("energy_drift_over_tolerance(trap,le)", drift / tolE)
        rec.track_max("energy_tolerance_rel(trap,le)", tolE / E0)
        if not drift <= tolE:
            viol.append((fkey("energy-not-conserved", by_mat + "|" + by_nm),
                         {"E0": E0, "kinetic": ke, "strain": se, "rel_drift": drift / E0, "tolerance_rel": tolE / E0}))
    else:
        rec.branch("energy:" + ("grew" if ke + se > E0 * (1 + 1e-9) else ("decayed" if ke + se < E0 * (1 - 1e-9) else "unchanged"))
                   + "|" + cx.matname + "|" + cx.nmname)

    # 4. rigid translation at constant velocity is integrated exactly
    if rx.init == "rigid" and rx.bc == "free":
        V0, t2 = rx.V0, st.t2
        v0n = _ninf(V0)
        eu = _ninf(Un - t2 * V0) / (t2 * v0n)
        evv = _ninf(Vn - V0) / v0n
        ea = _ninf(An) * beta * dt * dt / (t2 * v0n)
        worst = max(eu, evv, ea)
        if cx.in_scope:
            rec.branch("scope:rigid-translation-checked")
            rec.track_max("rigid_translation_rel(trap,le)", worst)
            if not worst <= TOL_REL:
                viol.append((fkey("rigid-translation-not-exact", by_mat + "|" + by_nm),
                             {"t": t2, "V0": V0, "rel_err_U": eu, "rel_err_V": evv, "rel_A": ea}))
        else:
            rec.track_max("rigid_translation_rel(outside stated scope)", worst)

    # 5. dense reference integrator stepped from the same state (linear material: the step has a unique solution)
    if cx.matname == "le":
        rec.branch("lockstep-linear-reference")
        u1, v1, a1 = ref.linear_step(rx.Muu, rx.Kuu, U.ravel()[unk], V.ravel()[unk], A.ravel()[unk], dt, gamma, beta)
        dabs = _ninf(Un.ravel()[unk] - u1)
        Hinv = _ninf(onp.sum(onp.abs(onp.linalg.inv(rx.Kuu + c * rx.Muu)), axis=1))
        tolL = TOL_REL * max(_ninf(Un), _ninf(u1), rx.uscale) + TOL_ROUND * s * Hinv
        rec.track_max("lockstep_linear_reference_over_tolerance", dabs / tolL)
        rec.track_max("lockstep_linear_reference_rel", dabs / max(_ninf(Un), _ninf(u1), rx.uscale))
        if not dabs <= tolL:
            viol.append((fkey("differs-from-reference-step", by_mat + "|" + by_nm),
                         {"abs_diff": dabs, "tolerance": tolL, "U_unknowns": Un.ravel()[unk], "U_reference": u1}))

    for k, d in viol:
        rec.violation(k, cid, dict(detail, UPredicted=UP, VPredicted=VP, U=Un, V=Vn, A=An, newton=info, **d))
    moved = _ninf(Un - UP) > 1e-9 * max(_ninf(Un), rx.uscale)
    outcome = "%s|%s|%s" % (cx.matname, cx.nmname, "dynamic" if moved else "a=0")
    if viol:
        outcome += "|violating"
    samp = None
    if stable_hash(cid + "|" + str(cx.seed)) % 997 == 0:
        samp = {"case": cid, "dt": dt, "newton_iters": info["iters"], "momentum_residual_over_tol": ratio,
                "kinetic": ke, "strain": se, "E0": E0}
    rec.case(cid, nontrivial=bool(moved), outcome=outcome, sample=samp, steps=1)
    return "ok", etol2, round2
