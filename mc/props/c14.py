"""C14 -- degree-of-freedom bookkeeping is a lossless partition for every BC set.

E-PROD, literally exhaustive: every subset of (node, component) pairs of small meshes is
declared essential, in four encodings, and DofManager / assemble_sparse_stiffness_matrix are
compared with a python-set reference model.
"""
import itertools
import types

import numpy as onp

from mc.core import pick

ID = "C14"
TITLE = "DofManager partition / round trip / slicing / assembly index maps, every BC subset"
LEVEL = "model_checking"
RULE = ("E-PROD: (mesh, fields-per-node) x EVERY subset of an alphabet of (node, component) pairs x 4 encodings "
        "of the same subset; a case is one subset in one configuration (case id = mesh, dim, bitmask). "
        "each manager is re-checked after the managers of the next subset have been constructed (depth-2 construction history). "
        "Non-trivial = the subset is neither empty nor full, i.e. at least one element has both kinds of dof "
        "(measured per case: 0 < #bc < #dofs and some element mixes constrained and unknown dofs).")
ASSUMPTIONS = [
    "reference model: python sets / dense numpy assembly written in the harness, no optimism import",
    "subset alphabet is all dofs when #dofs <= bound (12 quick, 14 thorough); otherwise every subset of a "
    "sub-alphabet containing a corner, an edge, an interior-most node in every component, remaining dofs unconstrained",
    "element matrices used for the assembly oracle are symmetric and uniquely tagged (the statement is about which "
    "entries are addressed; the library's row/column naming is transposed, which symmetric tags do not observe)",
]
TOLERANCES = {"all comparisons": "exact (integers / bit-identical floats)"}

SHARDS = 8


def bounds(tier):
    return {"max_alphabet_pairs": 12 if tier == "quick" else 14, "encodings": 4,
            "configs": [c["name"] for c in _configs(tier)]}


def _configs(tier):
    cfgs = []
    for mesh in ("s2x2p1", "s3x2p1", "s2x2p2"):
        for dim in (1, 2, 3):
            cfgs.append({"name": "%s-d%d" % (mesh, dim), "mesh": mesh, "dim": dim})
    if tier == "thorough":
        cfgs.append({"name": "s3x3p1-d2", "mesh": "s3x3p1", "dim": 2})
        cfgs.append({"name": "s2x2p3-d1", "mesh": "s2x2p3", "dim": 1})
    return cfgs


def groups(tier, seed):
    gs = []
    for c in _configs(tier):
        for s in range(SHARDS):
            g = dict(c)
            g["shard"] = s
            g["name"] = "%s-s%d" % (c["name"], s)
            gs.append(g)
    return gs


def _mesh(name):
    from optimism import Mesh
    nx, ny, p = int(name[1]), int(name[3]), int(name[5])
    return Mesh.construct_structured_mesh(nx, ny, [0.0, 1.0], [0.0, 1.0], elementOrder=p)


def _alphabet(nNodes, dim, bound):
    pairs = [(n, c) for n in range(nNodes) for c in range(dim)]
    if len(pairs) <= bound:
        return pairs
    # sub-alphabet: spread over nodes (first, last, middle, ...) and all components
    order = []
    lo, hi = 0, nNodes - 1
    nodes = []
    while lo <= hi:
        nodes.append(lo)
        if hi != lo:
            nodes.append(hi)
        lo += 1
        hi -= 1
    mid = nNodes // 2
    nodes = [mid] + [n for n in nodes if n != mid]
    for n in nodes:
        for c in range(dim):
            order.append((n, c))
    return sorted(order[:bound])


def run_group(g, tier, seed, rec):
    from optimism import FunctionSpace, Mesh as MeshMod
    from optimism.SparseMatrixAssembler import assemble_sparse_stiffness_matrix
    import jax.numpy as jnp

    bound = 12 if tier == "quick" else 14
    mesh = _mesh(g["mesh"])
    dim = g["dim"]
    conns = onp.array(mesh.conns)
    nNodes = int(mesh.coords.shape[0])
    nEl, nen = conns.shape
    nd = nNodes * dim
    alpha = _alphabet(nNodes, dim, bound)
    nsub = 1 << len(alpha)
    rec.notes["alphabet_pairs:" + g["name"].rsplit("-s", 1)[0]] = len(alpha)

    U = (1.0 + onp.arange(nd)).reshape(nNodes, dim) * 1.25 + 0.0625
    # symmetric uniquely tagged element matrices, shape (ne, nen, dim, nen, dim)
    ned = nen * dim
    kel = onp.zeros((nEl, ned, ned))
    for e in range(nEl):
        for i in range(ned):
            for j in range(ned):
                kel[e, i, j] = (e + 1) * 1e4 + (min(i, j) + 1) * 1e2 + (max(i, j) + 1)
    kValues = jnp.array(kel.reshape(nEl, nen, dim, nen, dim))
    sample_ids = set(pick(range(nsub), seed, 3))

    prev = {"dm": None}
    for mask in range(nsub):
        if mask % SHARDS != g["shard"]:
            continue
        cid = "cfg=%s-d%d;subset=%d" % (g["mesh"], dim, mask)
        if not rec.want(cid):
            continue
        pairs = [alpha[i] for i in range(len(alpha)) if (mask >> i) & 1]
        bc = sorted(n * dim + c for n, c in pairs)
        bcset = set(bc)
        unk = [d for d in range(nd) if d not in bcset]
        d2u = {d: k for k, d in enumerate(unk)}

        def fail(sig, detail):
            rec.violation("DofManager|%s" % sig, cid, dict(detail, pairs=pairs, mesh=g["mesh"], dim=dim))

        # four encodings of the same subset
        managers = []
        try:
            for enc in ("singletons", "grouped", "repeated", "component-major"):
                nodeSets, ebcs = _encode(pairs, dim, enc, FunctionSpace)
                m2 = MeshMod.mesh_with_nodesets(mesh, nodeSets)
                fs = types.SimpleNamespace(mesh=m2)
                managers.append(FunctionSpace.DofManager(fs, dim, ebcs))
        except Exception as e:  # noqa
            from mc.runner import exception_key
            fail("construct|" + exception_key(e), {"error": repr(e)})
            rec.case(cid, nontrivial=False, outcome="exception")
            continue
        dm = managers[0]
        # history clause: constructing managers for THIS subset must not disturb the manager built for the previous subset
        # of the same configuration (same field shape, different BC set) -- a manager is checked again after later
        # constructions (added after a seeded change that shared cached state between managers went undetected)
        if prev["dm"] is not None:
            pdm = prev["dm"]
            try:
                same_state = (onp.array_equal(onp.asarray(pdm.dofToUnknown), prev["d2u"]) and
                              onp.array_equal(onp.asarray(pdm.unknownIndices), prev["ui"]) and
                              onp.array_equal(onp.asarray(pdm.HessRowCoords), prev["rows"]) and
                              onp.array_equal(onp.asarray(pdm.hessian_bc_mask), prev["mask"]))
                got = [onp.asarray(pdm.slice_unknowns_with_dof_indices(prev["Uu"], onp.s_[:, c])).tolist() for c in range(dim)]
                rec.branch("history:previous-manager-rechecked")
                if not same_state or got != prev["slices"]:
                    rec.violation("DofManager|history|earlier-manager-changed-by-later-construction", cid,
                                  {"previous_case": prev["cid"], "pairs": pairs, "state_unchanged": bool(same_state),
                                   "slices_now": got, "slices_expected": prev["slices"]})
            except Exception as e:  # noqa
                from mc.runner import exception_key
                rec.violation("DofManager|history|" + exception_key(e), cid, {"previous_case": prev["cid"], "error": repr(e)})
        for enc, other in zip(("grouped", "repeated", "component-major"), managers[1:]):
            same = (onp.array_equal(dm.isBc, other.isBc) and onp.array_equal(dm.unknownIndices, other.unknownIndices)
                    and onp.array_equal(dm.bcIndices, other.bcIndices)
                    and onp.array_equal(dm.HessRowCoords, other.HessRowCoords)
                    and onp.array_equal(dm.HessColCoords, other.HessColCoords)
                    and onp.array_equal(dm.hessian_bc_mask, other.hessian_bc_mask)
                    and onp.array_equal(dm.dofToUnknown, other.dofToUnknown))
            rec.branch("encoding:" + enc)
            if not same:
                fail("encoding-dependent|" + enc, {})

        try:
            # partition
            ui = onp.asarray(dm.unknownIndices).tolist()
            bi = onp.asarray(dm.bcIndices).tolist()
            if ui != unk or bi != bc:
                fail("partition", {"unknownIndices": ui, "bcIndices": bi, "expected_unknown": unk, "expected_bc": bc})
            if dm.get_unknown_size() != len(unk) or dm.get_bc_size() != len(bc):
                fail("sizes", {"got": [dm.get_unknown_size(), dm.get_bc_size()], "expected": [len(unk), len(bc)]})
            if not isinstance(dm.get_unknown_size(), int) or not isinstance(dm.get_bc_size(), int):
                fail("sizes-type", {})
            # split / recombine
            Uj = jnp.array(U)
            Uu = dm.get_unknown_values(Uj)
            Ub = dm.get_bc_values(Uj)
            if onp.asarray(Uu).tolist() != [U.ravel()[d] for d in unk] or \
               onp.asarray(Ub).tolist() != [U.ravel()[d] for d in bc]:
                fail("split-values", {"Uu": onp.asarray(Uu), "Ubc": onp.asarray(Ub)})
            back = onp.asarray(dm.create_field(Uu, Ub))
            if back.shape != U.shape or not onp.array_equal(back, U):
                fail("roundtrip", {"got": back, "expected": U})
            # converse
            Uu2 = jnp.array(-(1.0 + onp.arange(len(unk))) * 0.75)
            Ub2 = jnp.array((1.0 + onp.arange(len(bc))) * 3.5)
            F = dm.create_field(Uu2, Ub2)
            if not (onp.array_equal(onp.asarray(dm.get_unknown_values(F)), onp.asarray(Uu2))
                    and onp.array_equal(onp.asarray(dm.get_bc_values(F)), onp.asarray(Ub2))):
                fail("converse-roundtrip", {"field": onp.asarray(F)})
            # default boundary value is zero
            F0 = onp.asarray(dm.create_field(Uu2))
            exp0 = onp.zeros(nd)
            exp0[unk] = onp.asarray(Uu2)
            if not onp.array_equal(F0.ravel(), exp0):
                fail("create_field-default-bc", {"field": F0})
            # slicing by component
            for c in range(dim):
                got = onp.asarray(dm.slice_unknowns_with_dof_indices(Uu, onp.s_[:, c])).tolist()
                exp = [U[n, c] for n in range(nNodes) if (n * dim + c) not in bcset]
                if got != exp:
                    fail("slice-component", {"component": c, "got": got, "expected": exp})
            # assembly index maps, element by element
            rows = onp.asarray(dm.HessRowCoords)
            cols = onp.asarray(dm.HessColCoords)
            hm = onp.asarray(dm.hessian_bc_mask)
            pos = 0
            Kref = onp.zeros((len(unk), len(unk)))
            mixed = False
            ok_struct = hm.shape == (nEl, ned, ned)
            if not ok_struct:
                fail("mask-shape", {"shape": list(hm.shape)})
            for e in range(nEl):
                eldofs = [int(conns[e, a]) * dim + f for a in range(nen) for f in range(dim)]
                elunk = [(i, d2u[d]) for i, d in enumerate(eldofs) if d in d2u]
                if 0 < len(elunk) < ned:
                    mixed = True
                n2 = len(elunk) ** 2
                got_pairs = sorted(zip(rows[pos:pos + n2].tolist(), cols[pos:pos + n2].tolist()))
                exp_pairs = sorted((ui_, uj_) for _, ui_ in elunk for _, uj_ in elunk)
                if got_pairs != exp_pairs:
                    fail("hessian-coords", {"element": e, "got": got_pairs, "expected": exp_pairs})
                if ok_struct:
                    expmask = onp.zeros((ned, ned), dtype=bool)
                    for i, _ in elunk:
                        for j, _ in elunk:
                            expmask[i, j] = True
                    if not onp.array_equal(hm[e], expmask):
                        fail("hessian-mask", {"element": e, "got": hm[e], "expected": expmask})
                for i, ui_ in elunk:
                    for j, uj_ in elunk:
                        Kref[ui_, uj_] += kel[e, i, j]
                pos += n2
            if pos != rows.size or rows.size != cols.size:
                fail("hessian-coords-count", {"rows": int(rows.size), "cols": int(cols.size), "expected": pos})
            if ok_struct and int(hm.sum()) != pos:
                fail("mask-count", {"mask_true": int(hm.sum()), "expected": pos})
            K = assemble_sparse_stiffness_matrix(kValues, mesh.conns, dm)
            Kd = onp.asarray(K.toarray())
            if Kd.shape != Kref.shape or not onp.array_equal(Kd, Kref):
                fail("assembly", {"got": Kd, "expected": Kref})
        except Exception as e:  # noqa
            from mc.runner import exception_key
            fail("exception|" + exception_key(e), {"error": repr(e)})
            rec.case(cid, nontrivial=False, outcome="exception")
            continue

        try:
            prev = {"dm": dm, "cid": cid, "d2u": onp.array(dm.dofToUnknown).copy(), "ui": onp.array(dm.unknownIndices).copy(),
                    "rows": onp.array(dm.HessRowCoords).copy(), "mask": onp.array(dm.hessian_bc_mask).copy(), "Uu": Uu,
                    "slices": [[U[n_, c] for n_ in range(nNodes) if (n_ * dim + c) not in bcset] for c in range(dim)]}
        except Exception:  # noqa
            prev = {"dm": None}
        nontrivial = 0 < len(bc) < nd and mixed
        outcome = "empty" if not bc else ("full" if not unk else ("mixed-elements" if mixed else "unmixed"))
        rec.case(cid, nontrivial=nontrivial, outcome=outcome, steps=4,
                 sample=({"case": cid, "pairs": pairs, "unknown": unk, "bc": bc} if mask in sample_ids else None))


def _encode(pairs, dim, enc, FunctionSpace):
    EBC = FunctionSpace.EssentialBC
    if enc == "singletons":
        nodeSets = {"n%d" % n: onp.array([n]) for n, _ in pairs}
        ebcs = [EBC(nodeSet="n%d" % n, component=c) for n, c in pairs]
        return nodeSets, ebcs
    if enc == "component-major":
        # one node set per node, the BC list written component by component: the same node-set name recurs with other
        # entries in between (added after a seeded change that grouped only CONSECUTIVE entries of a set went undetected)
        nodeSets = {"n%d" % n: onp.array([n]) for n, _ in pairs}
        ebcs = [EBC(nodeSet="n%d" % n, component=c) for n, c in sorted(pairs, key=lambda q: (q[1], -q[0]))]
        return nodeSets, ebcs
    bycomp = {}
    for n, c in pairs:
        bycomp.setdefault(c, []).append(n)
    nodeSets, ebcs = {}, []
    for c, nodes in sorted(bycomp.items()):
        if enc == "grouped":
            # two overlapping sets covering the nodes
            h = (len(nodes) + 1) // 2
            a, b = nodes[:h + (1 if len(nodes) > 1 else 0)], nodes[max(0, h - 1):]
            nodeSets["c%da" % c] = onp.array(a, dtype=int)
            nodeSets["c%db" % c] = onp.array(b, dtype=int)
            ebcs += [EBC(nodeSet="c%da" % c, component=c), EBC(nodeSet="c%db" % c, component=c)]
        else:
            rep = nodes + nodes[:1]
            nodeSets["c%d" % c] = onp.array(rep[::-1], dtype=int)
            ebcs += [EBC(nodeSet="c%d" % c, component=c), EBC(nodeSet="c%d" % c, component=c)]
    return nodeSets, ebcs
