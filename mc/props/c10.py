"""C10 -- stress and tangent delivered by autodiff match the energy's true derivatives.

E-PROD over (model option x constants set x internal state x deformation x derivative order x direction x execution mode)
on the REAL energy densities.  Internal states are ALL states reached at depth <= 2 by small E-BFS explorations on the real
compute_state_new (J2: targets of C09; viscoelastic: (target, dt/tau) actions of C11), the virgin state included.
For every (state, deformation) the library's jax.grad (all 9 components) and jax.jvp(jax.grad) along all 9 basis
directions (all 45 unordered pairs, both orderings) are compared with 6th-order central finite differences with Richardson
extrapolation (h, h/2) of compute_energy_density ITSELF, evaluated on one fixed table of 811 stencil points in one compiled
batch of fixed padded length 832.  Also Mechanics.compute_output_energy_densities_and_stresses on a one-element mesh.

The reference side (numpy: mc/ref/material_ref.py, j2_ref.py, visco_ref.py) decides from the inputs which stencils lie on
one side of a switch of the energy (J2 yield switch trial Mises stress - flow stress > 1e-10 Y0; phase-field
tension/compression split; Gent limit): stencils that straddle are excluded and counted.  A finite-difference value whose
Richardson and plain 6th-order estimates differ by more than a tenth of the tolerance is not used (excluded, counted).

Execution-mode protocol (DESIGN C12 / D11): autodiff is evaluated as single compiled calls and inside compiled batches of
exactly 64 cases.  A mismatch is re-judged with the stencil evaluated as single compiled calls.  Batched failure, single
pass, and a (nearly) repeated principal value (relative gap <= 1e-6) of a tensor handed to the eigen-solver at the centre or
at a stencil point -> the known finding `eigen_sym33_unit|batched|near-repeated-spectrum`.  A second-derivative mismatch
that persists as a single call, with correct first derivative, at a centre state with REPEATED principal values (relative
gap <= 1e-12: exactly equal or equal within rounding) of a model that goes through TensorMath's symmetric-matrix-function
derivative rule is reported under the ONE key
`symmetric_matrix_function_jvp|second-derivative|repeated-principal-values|tangent-mismatch`.  The class is the measured one:
on the unchanged tree jax.jvp(jax.grad(W)) of all six eigen-based models loses accuracy like (3e-17 .. 1e-16)/gap (of the
modulus scale) because the second derivative differentiates the eigenvectors: <= 1.7e-9 for gaps >= 1e-7 (that is the noise
of the finite-difference oracle), 5e-9 at 1e-8, 2e-7 at 1e-9, 7e-7 at 1e-10, 4e-6 at 1e-11, 3e-5 at 1e-12, 1e-3 at 1e-13,
O(1e-2 .. 1) at rounding-level gaps; it crosses the tolerance 1e-4 at about 3e-13.  Gaps above 1e-12 are judged by the
ordinary oracle under the ordinary keys.  NEARLY repeated principal values are part of the alphabet: probing deformations
whose decomposed tensor has a prescribed relative gap 1e-5 / 1e-6 / 1e-7, built in the principal frame of the internal state
(coaxial) and turned by 0.5 rad about the odd axis (internal state turned against the probe inside the plane of the pair),
near the centre of the elastic domain and beyond yield.  For these probes the stencil is evaluated as single compiled calls
(the compiled batch evaluates the energy with errors up to 3e-11 M at such tensors, D11) and the second-derivative tolerance
is 1e-6 instead of 1e-4 (the oracle is accurate to 2e-9 there), so that an off-diagonal divided difference replaced by its
limit (np.isclose instead of ==, seeded change C10-2: tangent off by 3.5e-4 .. 2e-3 of the modulus scale wherever the stress
is not isotropic inside the pair plane, J2 'seth hill' after non-proportional plastic flow) is seen with >= 2.5 orders of margin.
Anything else is an
ordinary violation keyed by model, mode, order and signature.  One more input class has its own key: J2 'seth hill' is
built on TensorMath.pow_symm, whose divided difference is documented upstream as inaccurate for nearly degenerate
eigenvalues; at a centre state with (nearly) repeated principal stretches and a non-coaxial plastic strain this makes
even the first derivative wrong whenever the compiled program's eigenvalues differ by a rounding error (it depends on the
program shape): `pow_symm|derivative|nearly-repeated-principal-values|relative-difference-inaccurate`.
"""
import numpy as onp

ID = "C10"
TITLE = ("jax.grad and jax.jvp(jax.grad) of every material model's energy density versus Richardson finite differences of "
         "the energy itself: all 9 stress components, all 45 tangent pairs, virgin / yielding / relaxing states from "
         "depth-2 explorations, both sides of the yield switch, single-call and batched; Mechanics stress output")
LEVEL = "model_checking"
RULE = ("E-PROD: model option x constants set x state (every state at BFS depth <= 2 of the real update, virgin included) x "
        "deformation (labelled alphabet, incl. below / at / beyond yield, the centre of the elastic domain of the state, "
        "generic plane-strain and 3-D gradients; for the models built on the eigen-solver also probes with NEARLY repeated "
        "principal values of the decomposed tensor: relative gap {1e-5, 1e-6, 1e-7} x principal frame of the internal state "
        "{as is, turned by 0.5 rad about the odd axis} x J2: {centre of the elastic domain, 2.5 flow stresses beyond yield}, "
        "constructed per state on the reference side) x {first derivative: 9 basis directions, second derivative: 45 unordered "
        "direction pairs} x execution mode; one case = one derivative entry of the real autodiff program compared with the "
        "finite-difference reference (case id = the labels). Non-trivial (measured) = non-virgin state, or the reference "
        "yield function is positive at the deformation (actively yielding), or viscous flow occurs over the step, or the "
        "tensor handed to the eigen-solver has repeated or nearly repeated principal values (measured relative gap <= 1e-4: "
        "derivative rule on / next to its equal-eigenvalue switch).")
ASSUMPTIONS = [
    "oracle: 6th-order central differences + Richardson (h, h/2) of the library's own compute_energy_density; stencil "
    "table and coefficient matrices in mc/ref/material_ref.py (numpy; self-tested on a quadratic form); no closed-form "
    "stress is used",
    "step h = 1e-3 for models without a switch; J2: h = 0.05 Y0/(2 mu) (a twentieth of the yield strain); stencil radius 3h "
    "(first) and 3 sqrt(2) h (second derivative)",
    "straddle rule (reference side, inputs only): every stencil point used by that derivative order must have the J2 yield "
    "function (trial Mises - flow stress of the state) on the same side of the switch by more than 1e-6 Y0; phase field with "
    "phase > 0: trace of the strain of one sign; Gent: (I1bar-3)/Jm < 0.9",
    "a finite-difference value is used only if |Richardson - plain 6th order| <= 0.1 tolerance (otherwise the energy is not "
    "smooth enough over the stencil, e.g. at the onset of rate-dependent flow; excluded and counted)",
    "material constants are runtime arguments of the compiled programs (model constructed inside the traced function)",
    "J2 constants: set A of C09 (E=100, nu=0.321, Y0=0.3; H=1; Ysat=1.2, eps0=0.05; n=4, eps0=0.003; S=0.3, m=2, epsDot0=0.1), "
    "thorough adds set B (finite kinematics, rate independent) and perfect plasticity (linear hardening); viscoelastic: (K, G, branches) sets of C11; elastic models: the three (E, nu) "
    "sets of C08; dt = 1 (J2), dt = tau_ref (viscoelastic)",
    "BFS states are computed with single compiled calls of the real compute_state_new (no batch: D11 cannot leak into the "
    "states), de-duplicated on the internal variables rounded to 1e-10; non-finite states are dropped and counted (C09/C11 "
    "judge the update itself)",
    "x64, CPU; single-call mode = jit(jax.value_and_grad(W)) for the stress and one compiled call per direction of "
    "jit(jax.jvp(jax.grad(W))) for the tangent; batched mode = jit(vmap over exactly 64 cases (pad = undeformed virgin "
    "state) of vmap over the 9 directions of jax.jvp(jax.value_and_grad(W))); stencil batches exactly 832 points",
    "in batched mode the forward-mode derivative of the energy value (a by-product of jax.jvp) is compared with the "
    "reverse-mode stress for the record only (tracked, unjudged: the statement names jax.grad and jax.jvp(jax.grad))",
    "D11 classification by the measured relative gap (<= 1e-6) of the tensors handed to the eigen-solver: "
    "C = F^T F, Ce = Fp^-T C Fp^-1 (J2 finite), Ce of every branch (viscoelastic), at the centre or at a stencil point; "
    "classification of the open tangent finding by the measured gap at the CENTRE only, <= 1e-12 (numpy eigvalsh resolves a "
    "gap to ~1e-16); a centre gap in (1e-12, 1e-4] is 'nearly repeated' and judged by the ordinary oracle",
    "nearly-repeated probes (reference side, numpy): U = Q diag(sqrt c0, sqrt c1, sqrt c2) Q^T with c1 = c0 + gap max(c); "
    "Q = principal frame of the internal-state tensor ordered (closest pair, odd axis), optionally turned by 0.5 rad about "
    "the odd axis. Stateless models: stretches (1.3, 1.3, 0.9) in a frame turned about two axes and (1.02, 1.02, 1.05) along "
    "the axes. J2 'seth hill': C = U^2 with Seth-Hill strains (pm + a, pm + a, p_odd - 2a), pm = mean of the plastic-strain "
    "pair, Q from the plastic strain; J2 'large': F = Fe Fp, Fe = U with log stretches (a, a, -2a), Q from Fp Fp^T; "
    "a = 0.1 / 2.5 flow stresses / (6 mu) ('centre' / 'beyond'; which side of the yield switch the probe and its stencil "
    "lie on is measured as for every deformation, straddling stencils are excluded and counted). Viscoelastic: F = Fe Fv_1, "
    "Fe = U with stretches (1.2, 1.2, 0.85), Q from Fv_1 Fv_1^T of the first branch. Whether the internal state is turned "
    "against the probe INSIDE the plane of the pair is measured (off-diagonal of the state tensor in the probe's eigenframe "
    "> 1e-6 of its norm; it is not for states with an axisymmetric plastic strain) and counted per class",
    "nearly-repeated probes use the stencil evaluated as 811 single compiled calls: measured on the unchanged tree the "
    "single-call energy agrees with a numpy re-evaluation to 1.6e-15 at every stencil point, the compiled batch only to "
    "3e-13 (gap 1e-5) .. 3e-11 (gap 1e-7) at nearly repeated stencil points (D11), i.e. up to 2e-5 M (and 2e-2 M at gap "
    "1e-10) in the second difference, sometimes without tripping the Richardson self-check",
    "a probe whose measured centre gap is not in (1e-8, 1e-4] (the gap is measured on ALL decomposed tensors, so e.g. another "
    "viscous branch with a closer pair takes it out; none in the quick tier, 1 of 14814 in the thorough tier, counted) is "
    "judged like an ordinary deformation",
]
TAU1 = 1e-6
FLOOR1 = 1e-4          # tol1 = TAU1 * (|P_fd|_F + FLOOR1 * M)  -> absolute floor 1e-10 M (fd of an energy with absolute rounding eps*M: eps*M/h ~ 3e-13 M)
TAU2 = 1e-4
TAU2N = 1e-6           # second derivative at the nearly-repeated probes (stencil evaluated as single compiled calls)
REPEATED_GAP = 1e-12   # centre gap <= this: class of the open finding TANGENT_KEY (library error ~ 1e-16 / gap, measured)
NEAR_PROBE_GAP = 1e-4  # a centre gap in (REPEATED_GAP, NEAR_PROBE_GAP] is 'nearly repeated' (non-trivial, own calibration row)
D11_GAP = 1e-6 * (1.0 + 1e-6)   # D11 class 'relative gap <= 1e-6'; the slack keeps the probes built AT 1e-6 on one side
TOLERANCES = {
    "first derivative, per component": "|P_ad - P_fd| <= 1e-6 (|P_fd|_F + 1e-4 M), M = sum of the moduli (floor: fd of an "
                                       "energy with absolute rounding eps M has error ~ eps M / h = 3e-13 M). Worst observed "
                                       "over both tiers, seeds 0-4, states with distinct principal values: 5.4e-3 of the "
                                       "tolerance (Gent), J2 yielding 7.8e-4, viscoelastic 6.2e-5",
    "second derivative, per pair (both orderings)": "|T_ad - T_fd| <= 1e-4 max(M, max|T_fd|). Worst observed (distinct "
                                                    "principal values): 4.3e-3 of the tolerance; a wrong implicit-function or "
                                                    "custom-JVP rule changes the tangent by O(1)",
    "second derivative at the nearly-repeated probes": "|T_ad - T_fd| <= 1e-6 max(M, max|T_fd|), stencil as single compiled "
        "calls. Worst observed on the unchanged tree (quick, seeds 0-2, all eigen-based models, both modes): 2.6e-3 of this "
        "tolerance = 2.6e-9 of the scale (J2 seth hill), Richardson-vs-plain 2.7e-3 of it; thorough tier seed 0: 7.0e-3 and "
        "3.2e-2 (rate-dependent J2); the seeded np.isclose guard changes "
        "the J2 seth hill tangent by 3.5e-4 .. 2.1e-3 of the scale (350 .. 2100 tolerances) at every gap 1e-5 .. 1e-12 when the "
        "stress is not isotropic in the pair plane, and by about 0.1 gap elsewhere (J2 large: 1.3e-6 at gap 1e-5)",
    "accuracy of jax.jvp(jax.grad(W)) versus relative gap (unchanged tree, all six eigen-based models, coaxial and turned "
    "states, error / max(M, max|T|), single-call stencil)":
        "gap 1e-2 .. 1e-7: <= 1.7e-9 (oracle noise; against 6th-order differences of jax.grad: <= 5e-10); 1e-8: 5.4e-9; 1e-9: "
        "1.9e-7; 1e-10: 7.4e-7; 1e-11: 4.4e-6; 1e-12: 3.1e-5; 3e-13: 1.8e-4; 1e-13: 1.1e-3; 1e-14: 4.5e-3; 1e-15: 4.8e-2; "
        "exactly repeated / rounding-level: 5e-5 .. 0.5. The finite-difference oracle itself (single-call stencil) stays at <= 1.7e-9 "
        "with Richardson-vs-plain <= 1.7e-9 at every gap including 0",
    "finite-difference self-check": "|Richardson - plain| <= 0.1 tolerance, else excluded",
    "tangent symmetry (tracked)": "|T - T^T| <= 5.4e-8 of the tolerance at distinct principal values",
    "Mechanics output": "energy density: <= 1e-10 |W| + 1e-12 M against compute_energy_density (worst 9.3e-5 of it); "
                        "stress: same as first derivative (worst 6.4e-4 of it against fd, 6.4e-8 against jax.grad)",
    "D11 classification": "relative eigenvalue gap <= 1e-6 (1 + 1e-6) at the centre or a stencil point (the slack keeps the "
                          "probes built with gap 1e-6 on one side of the threshold)",
    "repeated-principal-value classification (open tangent finding)": "relative eigenvalue gap at the centre <= 1e-12; the "
        "smallest centre gap above 1e-12 of any deformation that is not a probe is tracked (quick seeds 0-2: 1.3e-9; thorough: "
        "6.9e-10), so no "
        "enumerated input lies in (1e-12, 1e-10) where the library error (<= 3e-5) is within 100x of the ordinary tolerance",
}

D11_KEY = "eigen_sym33_unit|batched|near-repeated-spectrum"
TANGENT_KEY = "symmetric_matrix_function_jvp|second-derivative|repeated-principal-values|tangent-mismatch"
POW_KEY = "pow_symm|derivative|nearly-repeated-principal-values|relative-difference-inaccurate"
NB = 64
NS = 832
CANON = 1e-10
MAX_RECORDS_PER_KEY = 10
DIRS = ["%d%d" % (i, j) for i in range(3) for j in range(3)]


# ----------------------------------------------------------------------------------------------------
# configurations
# ----------------------------------------------------------------------------------------------------

def _elastic_options(tier):
    o = [("PhaseFieldThreshold", "kinematics=large deformations"), ("LinearElastic", "strain measure=logarithmic"),
         ("PhaseFieldThreshold", "kinematics=small deformations"), ("Gent", "-"), ("Neohookean", "version=adagio"),
         ("Neohookean", "version=coupled"), ("LinearElastic", "strain measure=green lagrange"),
         ("LinearElastic", "strain measure=linear")]
    if tier == "thorough":
        o += [("LinearElastic", "strain measure=default"), ("Neohookean", "version=default"),
              ("PhaseFieldThreshold", "kinematics=default")]
    return o


def _j2_configs(tier):
    K = {"large": "kinematics=large deformations", "small": "kinematics=small deformations", "seth hill": "kinematics=seth hill"}
    if tier == "quick":
        c = [("large", "voce", False), ("large", "power law", True), ("large", "linear", False),
             ("seth hill", "power law", False), ("small", "voce", True), ("small", "linear", False)]
    else:
        c = [(k, l, r) for k in ("large", "seth hill", "small") for l in ("linear", "voce", "power law") for r in (False, True)]
        c.append(("default", "linear", False))
        K["default"] = "kinematics=default"
    return [{"kin": k, "opt": K[k], "law": l, "rate": r} for k, l, r in c]


def _visco_configs(tier):
    ms = [("MultiBranchHyperViscoelastic", ["m-tau-asc"] + (["m-test", "m-moduli-decades"] if tier == "thorough" else [])),
          ("HyperViscoelastic", ["s-tau1"] + (["s-test", "s-stiff-fast"] if tier == "thorough" else []))]
    return ms


def groups(tier, seed):
    gs = []
    for m, sets in _visco_configs(tier):
        gs.append({"name": m, "kind": "visco", "model": m, "sets": sets})
    for c in _j2_configs(tier):
        gs.append({"name": "J2Plastic|%s|hardening=%s|rate=%s" % (c["opt"], c["law"], "on" if c["rate"] else "off"),
                   "kind": "j2", "cfg": c})
    gs.append({"name": "Mechanics.compute_output_energy_densities_and_stresses", "kind": "mechanics"})
    for m, o in _elastic_options(tier):
        gs.append({"name": m if o == "-" else "%s|%s" % (m, o), "kind": "elastic", "model": m, "opt": o})
    return gs


def bounds(tier):
    return {"elastic_options": ["%s|%s" % o for o in _elastic_options(tier)],
            "j2_configurations": ["%s|%s|rate=%s" % (c["opt"], c["law"], c["rate"]) for c in _j2_configs(tier)],
            "viscoelastic": {m: s for m, s in _visco_configs(tier)},
            "bfs_depth": 2, "j2_bfs_targets": _j2_actions(tier), "visco_bfs_actions": [list(a) for a in _visco_actions(tier)],
            "first_derivative_directions": 9, "second_derivative_pairs": 45, "stencil_points": 811,
            "stencil_batch": NS, "autodiff_batch": NB, "execution_modes": ["single", "batched"],
            "d11_gap_threshold": 1e-6, "repeated_gap_threshold_of_the_open_tangent_finding": REPEATED_GAP,
            "nearly_repeated_probes": {"relative_gaps": [1e-5, 1e-6, 1e-7], "frames": ["coax", "rot0.5"],
                                       "j2_kinds": ["centre", "beyond"], "per_j2_state": 12, "per_viscoelastic_state": 6,
                                       "per_stateless_eigen_model_and_moduli_set": 6, "measured_gap_window": [1e-8, NEAR_PROBE_GAP],
                                       "second_derivative_tolerance": TAU2N, "stencil": "811 single compiled calls"}}


def _j2_actions(tier):
    if tier == "quick":
        return ["uc:2x-yield", "ut:0.2", "shear+", "biax", "generic-ps"]
    return ["ut:1e-6", "uc:below-yield", "ut:at-yield", "uc:2x-yield", "ut:0.2", "shear+", "shear-", "biax", "rot", "zero",
            "generic-ps"]


def _visco_actions(tier):
    if tier == "quick":
        ts, rs = ["uniax-rot", "shear+", "generic", "hold"], ["1e-2", "1e2"]
    else:
        ts, rs = ["uniax+", "uniax-rot", "shear+", "generic", "hold"], ["1e-2", "1e2"]
    return [(t, r) for t in ts for r in rs]


# ----------------------------------------------------------------------------------------------------
# programs of the real code
# ----------------------------------------------------------------------------------------------------

class _Programs:
    def __init__(self, mdl):
        import jax
        import jax.numpy as jnp
        self.jax = jax
        self.mdl = mdl
        basis = jnp.eye(9).reshape(9, 3, 3)
        vg = jax.value_and_grad(mdl.energy, 0)

        def der(H, s, dt, p):
            def one(V):
                (W, P), (dW, T) = jax.jvp(lambda X: vg(X, s, dt, p), (H,), (V,))
                return W, P, dW, T
            W, P, dW, T = jax.vmap(one)(basis)
            return W[0], P[0], dW, T
        gr = jax.grad(mdl.energy, 0)

        def tan_dir(H, s, dt, p, V):
            return jax.jvp(lambda X: gr(X, s, dt, p), (H,), (V,))[1]
        # single-call mode, literally the statement's programs: jit(jax.grad(W)) for the stress and, ONE direction per
        # compiled call, jit(jax.jvp(jax.grad(W))) for the tangent (a vmap over the 9 directions is already a compiled
        # batch, cf. D11); batched mode: vmap over cases and directions of jvp(value_and_grad)
        self.g1 = jax.jit(jax.value_and_grad(mdl.energy, 0))
        self.t1 = jax.jit(tan_dir)
        self.basis = onp.eye(9).reshape(9, 3, 3)
        self.derB = jax.jit(jax.vmap(der, (0, 0, None, None)))
        self.wB = jax.jit(jax.vmap(mdl.energy, (0, None, None, None)))
        self._w1 = None
        self._upd = None

    def w1(self, H, s, dt, p):
        if self._w1 is None:
            self._w1 = self.jax.jit(self.mdl.energy)
        return float(self._w1(H, s, dt, p))

    def update(self, H, s, dt, p):
        if self._upd is None:
            self._upd = self.jax.jit(self.mdl.update)
        return onp.asarray(self._upd(H, s, dt, p), dtype=float)

    def stencil_batched(self, pts, s, dt, p):
        n = pts.shape[0]
        X = onp.empty((NS, 3, 3))
        X[:n] = pts
        X[n:] = pts[0]
        return onp.asarray(self.wB(X, s, dt, p), dtype=float)[:n]

    def stencil_single(self, pts, s, dt, p):
        return onp.array([self.w1(x, s, dt, p) for x in pts])

    def ad_single(self, H, s, dt, p):
        W, P = self.g1(H, s, dt, p)
        P = onp.asarray(P, dtype=float)
        T = [onp.asarray(self.t1(H, s, dt, p, V), dtype=float) for V in self.basis]
        return onp.asarray(W, dtype=float), P, P.ravel().copy(), onp.stack(T)

    def ad_batched(self, Hs, Ss, s_pad, dt, p):
        n = Hs.shape[0]
        outs = [[], [], [], []]
        for a in range(0, n, NB):
            b = min(n, a + NB)
            Hc = onp.zeros((NB, 3, 3))
            Sc = onp.array(onp.tile(s_pad, (NB, 1)))
            Hc[:b - a] = Hs[a:b]
            Sc[:b - a] = Ss[a:b]
            r = self.derB(Hc, Sc, dt, p)
            for k in range(4):
                outs[k].append(onp.asarray(r[k], dtype=float)[:b - a])
        return [onp.concatenate(o, axis=0) for o in outs]


# ----------------------------------------------------------------------------------------------------
# comparison of one (state, deformation): autodiff vs finite differences
# ----------------------------------------------------------------------------------------------------

def _compare(ad, fd, M, tau2=TAU2):
    """ad = (W, P(3,3), dW(9), T(9,3,3)); fd = Stencil.derivatives(...).  Returns dict with per-entry verdicts."""
    from mc.ref import material_ref as R
    W, P, dW, T = ad
    T9 = onp.asarray(T).reshape(9, 9)           # T9[k, b] = d P_b / d H_k
    g, g0, Hs, Hs0 = fd["grad"], fd["grad_plain"], fd["hess"], fd["hess_plain"]
    with onp.errstate(all="ignore"):
        tol1 = TAU1 * (R.fro(g) + FLOOR1 * M)
        tol2 = tau2 * max(M, onp.abs(Hs).max())
        e1 = onp.abs(P - g).ravel()
        e2 = onp.maximum(onp.abs(T9 - Hs), onp.abs(T9.T - Hs))
        rel1 = onp.abs(g - g0).max()
        rel2 = onp.abs(Hs - Hs0).max()
        fwd = onp.abs(dW - P.ravel()).max()
        asym = onp.abs(T9 - T9.T).max()
    fin_fd1 = bool(onp.all(onp.isfinite(g)) and onp.all(onp.isfinite(g0)))
    fin_fd2 = bool(onp.all(onp.isfinite(Hs)) and onp.all(onp.isfinite(Hs0)))
    return {"tol1": tol1, "tol2": tol2, "e1": e1, "e2": e2,
            "ok1": e1 <= tol1, "ok2": e2 <= tol2,                # False for NaN
            "nan_ad1": not bool(onp.all(onp.isfinite(P))), "nan_ad2": not bool(onp.all(onp.isfinite(T9))),
            "fd_finite1": fin_fd1, "fd_finite2": fin_fd2,
            "fd_reliable1": fin_fd1 and bool(rel1 <= 0.1 * tol1), "fd_reliable2": fin_fd2 and bool(rel2 <= 0.1 * tol2),
            "rich1": rel1 / tol1 if fin_fd1 and tol1 > 0 else float("nan"),
            "rich2": rel2 / tol2 if fin_fd2 and tol2 > 0 else float("nan"),
            "fwd_vs_rev": fwd / tol1 if tol1 > 0 else 0.0, "asym": asym / tol2}


def _isotropic_stress(ads, c, M):
    """The open tangent finding needs a non-zero deviatoric stress at a repeated pair; where the stress at the centre is purely
    volumetric (undeformed state, rigid rotation, dilation, C_e proportional to the identity) the library's tangent is
    right on the unchanged tree, so a mismatch there is an ordinary violation (a seeded change that only broke the tangent
    at such states was masked by the known class before this test was added)."""
    try:
        P = onp.asarray(ads["single"][1], dtype=float).reshape(3, 3)
        F = onp.eye(3) + onp.asarray(c.H, dtype=float).reshape(3, 3)
        tau = P @ F.T
        dev = tau - onp.trace(tau) / 3.0 * onp.eye(3)
        return bool(onp.linalg.norm(dev) <= 1e-8 * M)
    except Exception:  # noqa
        return False


def _libkey(e):
    """Finding signature of an exception raised by library code; harness bugs are re-raised (HARNESS-ERROR)."""
    from mc.runner import exception_key
    k = exception_key(e)
    if k.endswith("@harness"):
        raise e
    return k


def _violation(rec, key, cid, det):
    seen = rec.__dict__.setdefault("_c10_perkey", {})
    seen[key] = seen.get(key, 0) + 1
    rec.branch("finding-count:" + key)
    if seen[key] <= MAX_RECORDS_PER_KEY or rec.only is not None:
        rec.violation(key, cid, det)


class _Case:
    """One (constants set, state, deformation)."""
    __slots__ = ("prefix", "H", "s", "state_label", "H_label", "excl1", "excl2", "gap_centre", "gap_stencil", "klass",
                 "nontrivial", "h", "near_probe", "turned")

    def __init__(self, **kw):
        self.near_probe = False     # probe built with a prescribed small gap: single-call stencil, tolerance TAU2N
        self.turned = None          # near probes: internal state turned against the probe inside the pair plane (measured)
        for k, v in kw.items():
            setattr(self, k, v)


def _run_cases(rec, mdl, prog, name, cases, s_pad, dt, p, M, eigen_based, seed):
    """Evaluate and judge a list of _Case sharing (dt, p)."""
    from mc.ref import material_ref as R
    from mc.runner import exception_key
    from mc.core import stable_hash
    st = _stencil()
    if not cases:
        return
    Hs = onp.stack([c.H for c in cases])
    Ss = onp.stack([c.s for c in cases])
    try:
        adB = prog.ad_batched(Hs, Ss, s_pad, dt, p)
    except Exception as e:  # noqa  (library raised inside a compiled batch: no per-case attribution)
        _violation(rec, "%s|batched|%s" % (name, _libkey(e)), cases[0].prefix + ";batched", {"error": repr(e)[:600]})
        adB = None
    for i, c in enumerate(cases):
        any_wanted = rec.only is None or rec.only.startswith(c.prefix + ";")
        if not any_wanted:
            continue
        pts = st.points(c.H, c.h)
        tau2 = TAU2N if c.near_probe else TAU2
        try:
            ad1 = prog.ad_single(c.H, c.s, dt, p)
            if c.near_probe:
                # the compiled batch evaluates the energy at nearly repeated principal values with errors up to 3e-11 M (D11),
                # which is 1e-5 M in a second difference: these probes use the stencil evaluated as single compiled calls
                fdB = st.derivatives(prog.stencil_single(pts, c.s, dt, p), c.h)
                rec.branch("protocol:near-probe stencil evaluated as single calls")
            else:
                fdB = st.derivatives(prog.stencil_batched(pts, c.s, dt, p), c.h)
        except Exception as e:  # noqa
            _violation(rec, "%s|single|%s" % (name, _libkey(e)), c.prefix + ";single", {"error": repr(e)[:600]})
            continue
        res = {"single": _compare(ad1, fdB, M, tau2)}
        ads = {"single": ad1}
        if adB is not None:
            ads["batched"] = tuple(x[i] for x in adB)
            res["batched"] = _compare(ads["batched"], fdB, M, tau2)
        fd1 = None
        alt = None
        need1 = (not c.near_probe) and any((not r["ok1"].all() and not c.excl1) or (not r["ok2"].all() and not c.excl2) or
                                           not (r["fd_reliable1"] and r["fd_reliable2"]) for r in res.values())
        fd_used = {"single": fdB, "batched": fdB}
        if need1:
            # re-judge the single-call mode with the stencil evaluated as single compiled calls
            try:
                fd1 = st.derivatives(prog.stencil_single(pts, c.s, dt, p), c.h)
                rs = _compare(ad1, fd1, M, tau2)
                rec.branch("protocol:stencil re-evaluated as single calls")
                stencil_batch_bad = (res["single"]["ok1"].all() != rs["ok1"].all()) or (res["single"]["ok2"].all() != rs["ok2"].all()) \
                    or (res["single"]["fd_reliable2"] != rs["fd_reliable2"]) or (res["single"]["fd_reliable1"] != rs["fd_reliable1"])
                if stencil_batch_bad:
                    rec.branch("protocol:batched stencil evaluation differs from single-call stencil evaluation")
                res["single"] = rs
                fd_used["single"] = fd1
                if "batched" in res:
                    alt = _compare(ads["batched"], fd1, M, tau2)    # batched autodiff against the single-call stencil
            except Exception as e:  # noqa
                _violation(rec, "%s|single|%s" % (name, _libkey(e)), c.prefix + ";single", {"error": repr(e)[:600]})
                continue
        near = eigen_based and (min(c.gap_centre, c.gap_stencil) <= D11_GAP)       # D11's input class
        near_centre = eigen_based and c.gap_centre <= D11_GAP                      # input class of the (fixed) POW_KEY
        repeated_centre = eigen_based and c.gap_centre <= REPEATED_GAP             # input class of the open TANGENT_KEY
        nearly_centre = eigen_based and REPEATED_GAP < c.gap_centre <= NEAR_PROBE_GAP
        cal = ("nearly-repeated probe" if c.near_probe else ("repeated" if repeated_centre else (
            "nearly repeated (not a probe)" if nearly_centre else ("distinct, repeated on the stencil" if near else "distinct"))))
        if nearly_centre and not c.near_probe:
            rec.track_max("smallest centre gap above 1e-12 of a deformation that is not a probe|1e-12/gap", 1e-12 / c.gap_centre)
        uses_pow = "seth hill" in name
        rS = res["single"]
        for mode in ("single", "batched"):
            if mode not in res:
                continue
            r = res[mode]
            for order, n_entries in ((1, 9), (2, 45)):
                excl = c.excl1 if order == 1 else c.excl2
                for k in range(n_entries):
                    if order == 1:
                        dl = "d1=" + DIRS[k]
                        ok, okS = bool(r["ok1"][k]), bool(rS["ok1"][k])
                        err, tol = r["e1"][k], r["tol1"]
                    else:
                        a, b = R.PAIRS[k]
                        dl = "d2=%s,%s" % (DIRS[a], DIRS[b])
                        ok, okS = bool(r["ok2"][a, b]), bool(rS["ok2"][a, b])
                        err, tol = r["e2"][a, b], r["tol2"]
                    cid = "%s;%s;mode=%s" % (c.prefix, dl, mode)
                    if not rec.want(cid):
                        continue
                    oname = "first" if order == 1 else "second"
                    if excl:
                        rec.branch("excluded:%s:%s" % (oname, excl))
                        if c.near_probe:
                            rec.branch("near-probe:excluded:%s:%s" % (oname, excl))
                        continue
                    reliable = (rS if mode == "single" else r)["fd_reliable%d" % order] and rS["fd_reliable%d" % order]
                    if mode == "batched" and alt is not None and not (ok and reliable) and rS["fd_reliable%d" % order]:
                        ok_alt = bool(alt["ok1"][k]) if order == 1 else bool(alt["ok2"][a, b])
                        if ok_alt and ok:
                            # the entry agrees with both stencil evaluations; only the batched stencil's self-check failed
                            rec.branch("protocol:batched entry judged against the single-call stencil")
                            err, tol = (alt["e1"][k], alt["tol1"]) if order == 1 else (alt["e2"][a, b], alt["tol2"])
                            reliable = True
                    if ok and reliable:
                        rec.track_max("%s derivative|%s|%s|error/tolerance" % (oname, mode, cal), err / tol)
                        rec.case(cid, nontrivial=c.nontrivial, outcome="ok:%s:%s" % (oname, c.klass), steps=1,
                                 sample=({"case": cid, "H": c.H, "state": c.s, "autodiff_minus_fd": err, "tolerance": tol}
                                         if mode == "single" and stable_hash("%d|%s" % (seed, cid)) % 9973 == 0 else None))
                        continue
                    if ok and not reliable:
                        rec.branch("excluded:%s:fd-unreliable (Richardson vs plain > 0.1 tol)" % oname)
                        if c.near_probe:
                            rec.branch("near-probe:excluded:%s:fd-unreliable (Richardson vs plain > 0.1 tol)" % oname)
                        continue
                    # ---- mismatch ----------------------------------------------------------------------------
                    if not rS["fd_reliable%d" % order] and rS["fd_finite%d" % order]:
                        # the single-call reference itself is not trustworthy here: no verdict on this entry
                        rec.branch("excluded:%s:fd-unreliable (Richardson vs plain > 0.1 tol)" % oname)
                        if c.near_probe:
                            rec.branch("near-probe:excluded:%s:fd-unreliable (Richardson vs plain > 0.1 tol)" % oname)
                        continue
                    nan = r["nan_ad%d" % order] or not onp.isfinite(err)
                    sig = "nan" if nan else "mismatch"
                    det = {"model": name, "constants": p, "dt": dt, "state": c.s, "state_label": c.state_label,
                           "dispGrad": c.H, "h": c.h, "entry": dl, "autodiff": (ads[mode][1] if order == 1 else ads[mode][3]),
                           "finite_difference": (fd_used[mode]["grad"] if order == 1 else fd_used[mode]["hess"]),
                           "error": err, "tolerance": tol, "relative_gap_centre": c.gap_centre,
                           "relative_gap_min_over_stencil": c.gap_stencil, "single_call_passes": okS,
                           "richardson_vs_plain_over_tol": r["rich%d" % order]}
                    first_ok_single = bool(rS["ok1"].all()) or bool(c.excl1)
                    if mode == "batched" and okS and near:
                        key, outcome = D11_KEY, "d11"
                        rec.branch("protocol:batched-fail/single-pass/near-repeated -> D11")
                    elif uses_pow and near_centre and not okS and not first_ok_single and not nan:
                        # pow_symm's divided difference (documented upstream as inaccurate for nearly degenerate
                        # eigenvalues) makes even the FIRST derivative wrong when the computed eigenvalues differ by rounding
                        key, outcome = POW_KEY, "pow-derivative-at-nearly-repeated-principal-values"
                        rec.branch("protocol:pow_symm derivative wrong as single call at (nearly) repeated principal values")
                    elif order == 2 and not okS and first_ok_single and repeated_centre and not nan and not _isotropic_stress(ads, c, M):
                        key, outcome = TANGENT_KEY, "tangent-at-repeated-principal-values"
                        rec.branch("protocol:second derivative wrong as single call at repeated principal values")
                    elif mode == "batched" and okS:
                        key = "%s|batched-only|%s-derivative|%s" % (name, oname, sig)
                        outcome = "fail:batched-only:" + sig
                        rec.branch("protocol:batched-only violation")
                    else:
                        key = "%s|any-mode|%s-derivative|%s" % (name, oname, sig)
                        outcome = "fail:" + sig
                        rec.branch("protocol:ordinary violation")
                    _violation(rec, key, cid, det)
                    rec.case(cid, nontrivial=c.nontrivial, outcome=outcome + ":" + oname, steps=1)
        for mode, r in res.items():
            rec.track_max("jvp(value) vs grad|%s|error/tol1" % mode, r["fwd_vs_rev"] if onp.isfinite(r["fwd_vs_rev"]) else 0.0)
            if not near or c.near_probe:
                rec.track_max("tangent asymmetry|%s|%s|/tol2" % (mode, cal), r["asym"] if onp.isfinite(r["asym"]) else 0.0)
            for o in (1, 2):
                if r["fd_finite%d" % o] and not (c.excl1 if o == 1 else c.excl2):
                    rec.track_max("fd self-check|order %d%s|Richardson-vs-plain/tolerance (used values only <= 0.1)"
                                  % (o, "|nearly-repeated probe" if c.near_probe else ""),
                                  r["rich%d" % o] if r["fd_reliable%d" % o] else 0.0)
        rec.branch("state:%s" % c.klass)
        rec.branch("centre principal values:%s" % ("n/a" if not eigen_based else (
            "repeated (gap <= 1e-12)" if repeated_centre else ("nearly repeated (1e-12 < gap <= 1e-4)" if nearly_centre else "distinct"))))
        if c.near_probe:
            rec.branch("near-probe:%s:%s" % (c.klass, "state turned in the pair plane" if c.turned else "state coaxial in the pair plane"))


_ST = []


def _stencil():
    if not _ST:
        from mc.ref import material_ref as R
        _ST.append(R.Stencil())
    return _ST[0]


# ----------------------------------------------------------------------------------------------------
# deformation alphabets
# ----------------------------------------------------------------------------------------------------

def _generic(seed, salt, norm, plane):
    rng = onp.random.default_rng([int(seed), 1000 + salt])
    for _ in range(100):
        G = rng.normal(size=(3, 3))
        if plane:
            G[2, :] = 0.0
            G[:, 2] = 0.0
        G = G / onp.sqrt((G * G).sum())
        S = 0.5 * (G + G.T)
        w = onp.linalg.eigvalsh(S)
        # bounded family: symmetric part clearly non-degenerate, skew part present
        if min(w[1] - w[0], w[2] - w[1]) > 0.15 and onp.abs(G - G.T).max() > 0.1:
            return norm * G
    raise RuntimeError("no generic gradient found")


def _elastic_deformations(seed):
    from mc.ref import material_ref as R
    def uni(th, lam):
        n = onp.array([onp.cos(th), onp.sin(th), 0.0])
        return (lam - 1.0) * onp.outer(n, n)
    E1 = R.rot_z(0.3) @ R.rot_x(1.0) @ R.rot_z(2.0)
    G = R.generic_rotation(seed, 9)
    sh = onp.zeros((3, 3))
    sh[0, 1] = 0.2
    return [("zero", onp.zeros((3, 3))), ("uniax:1-1e-4@0.3", uni(0.3, 1 - 1e-4)), ("uniax:1+1e-2@0.3", uni(0.3, 1.01)),
            ("uniax:1+1e-2@0", uni(0.0, 1.01)), ("uniax:1+0.3@0.3", uni(0.3, 1.3)), ("uniax:2@pi/4", uni(onp.pi / 4, 2.0)),
            ("equibiax:1+1e-2", onp.diag([0.01, 0.01, 0.0])), ("equibiax:1+0.3", onp.diag([0.3, 0.3, 0.0])),
            ("dilation:1+1e-2", 0.01 * R.I3), ("dilation:1-0.3", -0.3 * R.I3),
            ("3d:1-0.3,1+1e-2,1+0.3|z0.3|z1", (R.rot_z(0.3) * onp.array([0.7, 1.01, 1.3])[None, :]) @ R.rot_z(1.0).T - R.I3),
            ("3d:1+0.3,1+0.3,1-0.3|euler|z1", (E1 * onp.array([1.3, 1.3, 0.7])[None, :]) @ R.rot_z(1.0).T - R.I3),
            ("3d:1-0.3,2,10|generic|z0.3", (G * onp.array([0.7, 2.0, 10.0])[None, :]) @ R.rot_z(0.3).T - R.I3),
            ("shear:0.2", sh), ("generic-ps", _generic(seed, 1, 0.1, True)), ("generic-3d", _generic(seed, 2, 0.1, False))]


# -- probes with NEARLY (not exactly) repeated principal values of the tensor handed to the eigen-solver ----------------

TURNED = 1e-6      # |pair-plane off-diagonal of the internal-state tensor in the probe's principal frame| / |tensor|


def _near_labels(kinds):
    from mc.ref import material_ref as R
    return ["near:%s:%s%s" % (gl, ol, (":" + k) if k else "") for gl, _ in R.NEAR_GAPS for ol, _ in R.NEAR_ORIENTATIONS
            for k in kinds]


def _near_parse(label):
    from mc.ref import material_ref as R
    f = label.split(":")
    return dict(R.NEAR_GAPS)[f[1]], dict(R.NEAR_ORIENTATIONS)[f[2]], (f[3] if len(f) > 3 else None)


def _near_flag(rec, label, gap):
    """The near-probe protocol (single-call stencil, tolerance TAU2N) applies when the MEASURED centre gap of a probe built
    with a prescribed gap is in (1e-8, 1e-4]; otherwise the probe is judged like any other deformation (counted)."""
    if not label.startswith("near:"):
        return False
    if 1e-8 < gap <= NEAR_PROBE_GAP:
        return True
    rec.branch("near-probe:measured gap outside (1e-8, 1e-4] -> judged as an ordinary deformation")
    return False


def _elastic_near_deformations():
    """Stateless models: the pair (1.3, 1.3) with odd stretch 0.9 in a frame turned about two axes, and the pair (1.02, 1.02)
    with odd stretch 1.05 along the coordinate axes; symmetric F."""
    from mc.ref import material_ref as R
    Q = R.rot_z(0.3) @ R.rot_x(1.0)
    out = []
    for gl, g in R.NEAR_GAPS:
        out.append(("near:%s:1.3,1.3,0.9|z0.3 x1" % gl, R.near_repeated_stretch(Q, 1.3 ** 2, 0.9 ** 2, g) - R.I3))
        out.append(("near:%s:1.02,1.02,1.05|axes" % gl, R.near_repeated_stretch(R.I3, 1.02 ** 2, 1.05 ** 2, g) - R.I3))
    return out


def _j2_near_probe(ref, s, gap, angle, kind):
    """J2 at internal state s: deformation whose decomposed tensor (C for 'seth hill', Ce = Fp^-T C Fp^-1 for 'large') has the
    eigenvalues (c0, c0 + gap max(c), c2) in the principal frame of the plastic strain (of Fp Fp^T) ordered (pair, pair, odd)
    and turned by `angle` about the odd axis.  kind 'centre': as close to the centre of the elastic domain of s as a repeated
    pair allows (trial strain = plastic strain with its pair averaged, + 0.1 flow stress of axisymmetric deviator along the
    odd axis); kind 'beyond': the same + an axisymmetric deviator of 2.5 flow stresses (actively yielding)."""
    from mc.ref import material_ref as R
    P = s[1:10].reshape(3, 3)
    a = (0.1 if kind == "centre" else 2.5) * float(ref.Y(s[0])) / (6.0 * ref.mu)
    if ref.kin == "seth hill":
        w, Q = R.pair_frame(P, angle)
        pm = 0.5 * (w[0] + w[1])
        return R.near_repeated_stretch(Q, R.seth_hill_c(pm + a), R.seth_hill_c(w[2] - 2.0 * a), gap) - R.I3
    w, Q = R.pair_frame(P @ P.T, angle)
    Fe = R.near_repeated_stretch(Q, onp.exp(2.0 * a), onp.exp(-4.0 * a), gap)
    return Fe @ P - R.I3


def _visco_near_probe(Fv0, gap, angle):
    """Viscoelastic model at viscous distortion Fv0 of the first branch: F = Fe Fv0 with the symmetric elastic stretch Fe of
    principal values (1.2, 1.2 (+gap), 0.85) in the principal frame of Fv0 Fv0^T turned by `angle` about the odd axis."""
    from mc.ref import material_ref as R
    _, Q = R.pair_frame(Fv0 @ Fv0.T, angle)
    return R.near_repeated_stretch(Q, 1.2 ** 2, 0.85 ** 2, gap) @ Fv0 - R.I3


# ----------------------------------------------------------------------------------------------------
# group drivers
# ----------------------------------------------------------------------------------------------------

def run_group(g, tier, seed, rec):
    import warnings
    with warnings.catch_warnings():
        warnings.simplefilter("ignore")
        if g["kind"] == "elastic":
            _run_elastic(g, tier, seed, rec)
        elif g["kind"] == "j2":
            _run_j2(g, tier, seed, rec)
        elif g["kind"] == "visco":
            _run_visco(g, tier, seed, rec)
        else:
            _run_mechanics(g, tier, seed, rec)


def _build(rec, name, mdl):
    from mc.runner import exception_key
    try:
        mdl.s0 = mdl.initial_state()
        return _Programs(mdl)
    except Exception as e:  # noqa
        rec.violation("%s|construct|%s" % (name, _libkey(e)), "model=%s;construct" % name, {"error": repr(e)[:400]})
        return None


def _run_elastic(g, tier, seed, rec):
    from mc.ref import material_ref as R
    from mc.props.c08 import Model
    mdl = Model(g["model"], g["opt"])
    name = g["name"]
    prog = _build(rec, name, mdl)
    if prog is None:
        return
    st = _stencil()
    defs = _elastic_deformations(seed) + (_elastic_near_deformations() if mdl.eigen_based else [])
    h = 1e-3
    for i, (ml, _, _) in enumerate(R.MODULI):
        p, dt, M = mdl.constants(i)
        cases = []
        for dl, H in defs:
            pts = st.points(H, h)
            F = pts + R.I3
            excl1 = excl2 = None
            if onp.linalg.det(F).min() <= 0.05:
                excl1 = excl2 = "inadmissible"
            if g["model"] == "Gent":
                ratio = R.gent_ratio(F, p[2])
                if ratio[st.used1 | (onp.arange(st.n) == 0)].max() >= 0.9:
                    excl1 = "outside Gent limit"
                if ratio.max() >= 0.9:
                    excl2 = "outside Gent limit"
            if g["model"] == "PhaseFieldThreshold" and p[4] > 0.0:
                if "small" in g["opt"]:
                    tr = onp.trace(pts, axis1=1, axis2=2)
                else:
                    tr = onp.log(onp.linalg.det(F))
                for o, used in ((1, st.used1), (2, st.used2)):
                    t = tr[used | (onp.arange(st.n) == 0)]
                    if t.min() * t.max() <= 0.0 or onp.abs(t).min() < 1e-9:
                        if o == 1:
                            excl1 = excl1 or "stencil straddles tension/compression split"
                        else:
                            excl2 = excl2 or "stencil straddles tension/compression split"
            info = R.stretch_info(F)
            gc, gs = float(info["gap"][0]), float(info["gap"].min())
            klass = "virgin:elastic"
            cases.append(_Case(prefix="model=%s;set=%s;state=virgin;H=%s" % (name, ml, dl), H=H, s=mdl.s0, state_label="virgin",
                               H_label=dl, excl1=excl1, excl2=excl2, gap_centre=gc, gap_stencil=gs, klass=klass,
                               nontrivial=bool(mdl.eigen_based and gc <= NEAR_PROBE_GAP), h=h,
                               near_probe=_near_flag(rec, dl, gc), turned=False))
        _run_cases(rec, mdl, prog, name, cases, mdl.s0, dt, p, M, mdl.eigen_based, seed)


# -- J2 ---------------------------------------------------------------------------------------------

def _j2_sets(cfg, tier):
    from mc.props import c09
    names = ["A"]
    if tier == "thorough" and not cfg["rate"]:
        if cfg["kin"] == "large":
            names.append("B")
        if cfg["law"] == "linear" and cfg["kin"] in ("large", "small"):
            names.append("P")
    out = []
    for n in names:
        c = c09.CONSTS[n]
        lp = c[cfg["law"]]
        if cfg["law"] == "linear":
            h1, h2 = lp["H"], 0.0
        elif cfg["law"] == "voce":
            h1, h2 = lp["Ysat"], lp["eps0"]
        else:
            h1, h2 = lp["n"], lp["eps0"]
        r = c.get("rate", {"S": 0.0, "m": 1.0, "epsDot0": 1.0})
        p = onp.array([c["E"], c["nu"], c["Y0"], h1, h2, r["S"], r["m"], r["epsDot0"]])
        out.append((n, c, lp, (c["rate"] if cfg["rate"] else None), p))
    return out


def _j2_centre(ref, s):
    """Deformation at which the elastic strain of state s vanishes (centre of the elastic domain)."""
    P = s[1:10].reshape(3, 3)
    if ref.kin == "large":
        return P - onp.eye(3)
    if ref.kin == "small":
        return 0.5 * (P + P.T)
    m = 0.25
    w, V = onp.linalg.eigh(0.5 * (P + P.T))
    U = (V * (1.0 + 2.0 * m * w)[None, :] ** (1.0 / (2.0 * m))) @ V.T
    return U - onp.eye(3)


def _run_j2(g, tier, seed, rec):
    from mc.ref import material_ref as R
    from mc.ref.j2_ref import J2Ref, rel_gap_sym
    from mc.props.c08 import Model
    from mc.props import c09
    cfg = g["cfg"]
    mdl = Model("J2Plastic", cfg["opt"], law=cfg["law"], rate=cfg["rate"])
    name = g["name"]
    prog = _build(rec, name, mdl)
    if prog is None:
        return
    st = _stencil()
    kin = cfg["kin"] if cfg["kin"] != "default" else "large"
    eigen_based = kin != "small"
    dt = 1.0
    centre_row = onp.arange(st.n) == 0
    for sname, c, lp, rate, p in _j2_sets(cfg, tier):
        ref = J2Ref(c["E"], c["nu"], c["Y0"], cfg["law"], lp, rate=rate, kin=kin)
        M = ref.kappa + ref.mu
        virgin = onp.asarray(mdl.s0, dtype=float)
        if virgin.shape != (10,) or not onp.array_equal(virgin, ref.virgin()):
            rec.violation("%s|initial-state" % name, "model=%s;construct" % name, {"state": virgin})
            return
        targets, tinfo = c09._targets(ref, seed)
        T = dict(targets)
        ey = c["Y0"] / (2.0 * ref.mu)
        T["generic-ps"] = _generic(seed, 3, 8.0 * ey, True)
        T["generic-ps-small"] = _generic(seed, 4, 0.45 * ey, True)
        T["generic-3d"] = _generic(seed, 5, 6.0 * ey, False)
        Rz = R.rot_z(0.3)       # uniaxial strain along an in-plane axis: repeated principal stretches, not axis aligned
        T["uniax-rot"] = Rz @ onp.diag([T["uc:2x-yield"][0, 0], 0.0, 0.0]) @ Rz.T
        h = 0.05 * ey
        # ---- E-BFS on the real update, single compiled calls, depth <= 2 -------------------------------------
        acts = _j2_actions(tier)
        states = [("virgin", virgin)]
        seen = {tuple(onp.round(virgin / CANON).astype(onp.int64).tolist())}
        rec.state(repr((name, sname) + tuple(onp.round(virgin / CANON).astype(onp.int64).tolist())))
        frontier = [("virgin", virgin)]
        for depth in (1, 2):
            nxt = []
            for hl, s in frontier:
                for a in acts:
                    try:
                        s1 = prog.update(T[a], s, dt, p)
                    except Exception as e:  # noqa
                        from mc.runner import exception_key
                        rec.violation("%s|update|%s" % (name, _libkey(e)), "model=%s;set=%s;hist=%s>%s" % (name, sname, hl, a),
                                      {"error": repr(e)[:400]})
                        continue
                    rec.transition()
                    if not onp.all(onp.isfinite(s1)):
                        rec.branch("bfs:non-finite state dropped (judged by C09)")
                        continue
                    k = tuple(onp.round(s1 / CANON).astype(onp.int64).tolist())
                    if k in seen:
                        rec.branch("bfs:dedup-merged")
                        continue
                    seen.add(k)
                    rec.state(repr((name, sname) + k))
                    rec.depth(depth)
                    lab = a if hl == "virgin" else hl + ">" + a
                    states.append((lab, s1))
                    nxt.append((lab, s1))
            frontier = nxt
        rec.notes["states:%s:%s" % (name, sname)] = len(states)
        # ---- cases -------------------------------------------------------------------------------------------
        hlabels = ["zero", "uc:below-yield", "ut:at-yield", "uc:2x-yield", "ut:0.2", "shear+", "biax", "uniax-rot", "centre",
                   "generic-ps-small", "generic-ps", "generic-3d"]
        if tier == "thorough":
            hlabels += ["ut:1e-6", "shear-", "rot"]
        if eigen_based:
            hlabels += _near_labels(("centre", "beyond"))
        cases = []
        for sl, s in states:
            for dl in hlabels:
                if dl.startswith("near:"):
                    H = _j2_near_probe(ref, s, *_near_parse(dl))
                else:
                    H = _j2_centre(ref, s) if dl == "centre" else T[dl]
                pts = st.points(H, h)
                Sx = onp.tile(s, (st.n, 1))
                with onp.errstate(all="ignore"):
                    mis = ref.measures(pts, Sx)["mises"]
                    f = mis - ref.Y(s[0]) - 1e-10 * ref.Y0
                excl = {}
                for o, used in ((1, st.used1 | centre_row), (2, st.used2 | centre_row)):
                    fu = f[used]
                    if not onp.all(onp.isfinite(fu)):
                        excl[o] = "inadmissible"
                    elif onp.abs(fu).min() <= 1e-6 * ref.Y0 or (fu.min() < 0.0 < fu.max()):
                        excl[o] = "stencil straddles the yield switch"
                yielding = bool(f[0] > 0.0)
                gaps_c, gaps_s = [1.0], [1.0]
                turned = False
                if eigen_based:
                    for Tn in ref.decomposed_tensors(pts, Sx)[:1]:        # the tensor the strain is built from
                        gg = rel_gap_sym(Tn)
                        gaps_c.append(float(gg[0]))
                        gaps_s.append(float(gg.min()))
                        Pm = s[1:10].reshape(3, 3)
                        turned = R.pair_plane_offdiagonal(Tn[0], Pm if kin == "seth hill" else Pm @ Pm.T - R.I3) > TURNED
                virgin_state = sl == "virgin"
                klass = "%s:%s" % ("virgin" if virgin_state else "hardened", "yielding" if yielding else "elastic")
                cases.append(_Case(prefix="model=%s;set=%s;state=%s;H=%s" % (name, sname, sl, dl), H=H, s=s, state_label=sl,
                                   H_label=dl, excl1=excl.get(1), excl2=excl.get(2), gap_centre=min(gaps_c),
                                   gap_stencil=min(gaps_s), klass=klass,
                                   nontrivial=bool((not virgin_state) or yielding or min(gaps_c) <= NEAR_PROBE_GAP), h=h,
                                   near_probe=_near_flag(rec, dl, min(gaps_c)), turned=bool(turned)))
        _run_cases(rec, mdl, prog, name, cases, virgin, dt, p, M, eigen_based, seed)


# -- viscoelastic -------------------------------------------------------------------------------------

def _run_visco(g, tier, seed, rec):
    from mc.ref import visco_ref as V
    from mc.props.c08 import Model
    from mc.props import c11
    model = g["model"]
    mdl = Model(model, "-")
    name = g["name"]
    prog = _build(rec, name, mdl)
    if prog is None:
        return
    st = _stencil()
    cfgs = {c[0]: c for c in c11._configs()}
    T = c11._targets(seed)
    T["generic-3d"] = _generic(seed, 6, 0.12, False)
    ratios = dict(c11.RATIOS)
    h = 1e-3
    for sname in g["sets"]:
        _, nb, K, G, br = cfgs[sname]
        p = [K, G]
        for Gn, tau in br:
            p += [Gn, tau]
        p = onp.array(p, dtype=float)
        M = K + G + sum(b[0] for b in br)
        tau_ref = float(onp.exp(onp.mean(onp.log([b[1] for b in br]))))
        s0 = onp.asarray(mdl.s0, dtype=float)
        if not onp.array_equal(s0, onp.tile(onp.eye(3).ravel(), nb)):
            rec.violation("%s|initial-state" % name, "model=%s;construct" % name, {"state": s0})
            return
        # ---- E-BFS (single compiled calls of the real update), depth <= 2; canon = (previous target, Fv rounded) ---
        def canon(prev, s):
            return (prev,) + tuple(onp.rint(s / CANON).astype(onp.int64).tolist())
        states = [("virgin", s0)]
        seen_s = {tuple(onp.rint(s0 / CANON).astype(onp.int64).tolist())}
        seen = {canon("zero", s0)}
        rec.state(repr((name, sname) + canon("zero", s0)))
        frontier = [("virgin", "zero", s0)]
        for depth in (1, 2):
            nxt = []
            for hl, prev, s in frontier:
                for t, rl in _visco_actions(tier):
                    Ht = T[prev] if t == "hold" else T[t]
                    try:
                        s1 = prog.update(Ht, s, ratios[rl] * tau_ref, p)
                    except Exception as e:  # noqa
                        from mc.runner import exception_key
                        rec.violation("%s|update|%s" % (name, _libkey(e)),
                                      "model=%s;set=%s;hist=%s>%s@%s" % (name, sname, hl, t, rl), {"error": repr(e)[:400]})
                        continue
                    rec.transition()
                    if not onp.all(onp.isfinite(s1)):
                        rec.branch("bfs:non-finite state dropped (judged by C11)")
                        continue
                    np_ = prev if t == "hold" else t
                    k = canon(np_, s1)
                    if k in seen:
                        rec.branch("bfs:dedup-merged")
                        continue
                    seen.add(k)
                    rec.state(repr((name, sname) + k))
                    rec.depth(depth)
                    lab = "%s@%s" % (t, rl) if hl == "virgin" else "%s>%s@%s" % (hl, t, rl)
                    nxt.append((lab, np_, s1))
                    ks = k[1:]
                    if ks not in seen_s:            # the energy does not read the previous target
                        seen_s.add(ks)
                        states.append((lab, s1))
            frontier = nxt
        rec.notes["states:%s:%s" % (name, sname)] = len(states)
        dt = tau_ref
        hlabels = ["zero", "uniax+", "uniax-rot", "shear+", "shear-", "equibiax", "generic", "generic-3d"] + _near_labels((None,))
        from mc.ref import material_ref as R
        cases = []
        for sl, s in states:
            Fv = s.reshape(nb, 3, 3)
            for dl in hlabels:
                H = _visco_near_probe(Fv[0], *_near_parse(dl)[:2]) if dl.startswith("near:") else T[dl]
                pts = st.points(H, h)
                with onp.errstate(all="ignore"):
                    Ce = V.right_cauchy_green_elastic(pts[:, None, :, :], Fv[None])          # (n, nb, 3, 3)
                    gg = V.rel_gap_sym(Ce).min(axis=1)
                    dev2 = V.branch_dev_strain_sq(H, Fv)
                excl = None if onp.all(onp.isfinite(gg)) else "inadmissible"
                flowing = bool(dev2.max() > 1e-20)
                virgin_state = sl == "virgin"
                klass = "%s:%s" % ("virgin" if virgin_state else "evolved", "relaxing" if flowing else "no-flow")
                turned = bool(onp.all(onp.isfinite(Ce[0, 0]))) and \
                    R.pair_plane_offdiagonal(Ce[0, 0], Fv[0] @ Fv[0].T - R.I3) > TURNED
                cases.append(_Case(prefix="model=%s;set=%s;state=%s;H=%s" % (name, sname, sl, dl), H=H, s=s, state_label=sl,
                                   H_label=dl, excl1=excl, excl2=excl, gap_centre=float(gg[0]), gap_stencil=float(gg.min()),
                                   klass=klass, nontrivial=bool((not virgin_state) or flowing), h=h,
                                   near_probe=_near_flag(rec, dl, float(gg[0])), turned=turned))
        _run_cases(rec, mdl, prog, name, cases, s0, dt, p, M, True, seed)


# -- Mechanics.compute_output_energy_densities_and_stresses on a one-element mesh ----------------------

def _run_mechanics(g, tier, seed, rec):
    import jax
    import jax.numpy as jnp
    from optimism import FunctionSpace, Mesh, Mechanics, QuadratureRule
    from optimism.material import Neohookean, LinearElastic, J2Plastic
    from mc.ref import material_ref as R
    from mc.ref.j2_ref import rel_gap_sym
    from mc.runner import exception_key
    from mc.props import c09
    st = _stencil()
    X = onp.array([[0.0, 0.0], [1.2, 0.1], [0.3, 0.9]])
    mesh = Mesh.construct_mesh_from_basic_data(jnp.array(X), jnp.array([[0, 1, 2]]), {"block_0": jnp.array([0])})
    quad = QuadratureRule.create_quadrature_rule_on_triangle(degree=2)
    fs = FunctionSpace.construct_function_space(mesh, quad)
    nq = len(quad)
    cA = c09.CONSTS["A"]
    mats = [("Neohookean|version=adagio", Neohookean.create_material_model_functions(
                {"elastic modulus": 1.0, "poisson ratio": 0.3, "version": "adagio"}), 1.0, 0.3, False, 1e-3),
            ("LinearElastic|strain measure=logarithmic", LinearElastic.create_material_model_functions(
                {"elastic modulus": 1.0, "poisson ratio": 0.3, "strain measure": "logarithmic"}), 1.0, 0.3, True, 1e-3),
            ("J2Plastic|kinematics=large deformations|hardening=voce", J2Plastic.create_material_model_functions(
                c09._lib_props({"set": "A", "law": "voce", "kin": "large", "rate": False})), cA["E"], cA["nu"], True, None)]
    gen = _generic(seed, 7, 1.0, True)[:2, :2]
    Rz = R.rot_z(0.3)[:2, :2]
    grads = [("zero", onp.zeros((2, 2))), ("generic:1e-3", 1e-3 * gen), ("generic:0.05", 0.05 * gen),
             ("uniax-rot:0.02", Rz @ onp.diag([0.02, 0.0]) @ Rz.T), ("shear:0.03", onp.array([[0.0, 0.03], [0.0, 0.0]]))]
    for mname, mat, E, nu, eigen_based, h in mats:
        name = "Mechanics|" + mname
        mu, kap = R.lame(E, nu)
        M = mu + kap
        if h is None:
            h = 0.05 * cA["Y0"] / (2.0 * mu)
        try:
            mf = Mechanics.create_mechanics_functions(fs, "plane strain", mat)
            s_virgin = onp.asarray(mf.compute_initial_state(), dtype=float)
            wB = jax.jit(jax.vmap(mat.compute_energy_density, (0, None, None)))
            w1 = jax.jit(mat.compute_energy_density)
            g1 = jax.jit(jax.grad(mat.compute_energy_density, 0))
        except Exception as e:  # noqa
            rec.violation("%s|construct|%s" % (name, _libkey(e)), "model=%s;construct" % name, {"error": repr(e)[:400]})
            continue
        states = [("virgin", s_virgin)]
        if mname.startswith("J2"):
            try:
                U = jnp.array(X @ (0.05 * gen).T)
                s1 = onp.asarray(mf.compute_updated_internal_variables(U, jnp.array(s_virgin), 1.0), dtype=float)
                if onp.all(onp.isfinite(s1)):
                    states.append(("after generic:0.05", s1))
                    rec.transition(nq)
            except Exception as e:  # noqa
                rec.violation("%s|update|%s" % (name, _libkey(e)), "model=%s;update" % name, {"error": repr(e)[:400]})
        for sl, S in states:
            for gl, G2 in grads:
                prefix = "model=%s;state=%s;gradU=%s" % (name, sl, gl)
                if rec.only is not None and not rec.only.startswith(prefix + ";"):
                    continue
                U = jnp.array(X @ G2.T)
                try:
                    Wq, Pq = mf.compute_output_energy_densities_and_stresses(U, jnp.array(S), 1.0)
                    Wq, Pq = onp.asarray(Wq, dtype=float), onp.asarray(Pq, dtype=float)
                except Exception as e:  # noqa
                    _violation(rec, "%s|%s" % (name, _libkey(e)), prefix + ";call", {"error": repr(e)[:600]})
                    continue
                H3 = onp.zeros((3, 3))
                H3[:2, :2] = G2
                shape_ok = Wq.shape == (1, nq) and Pq.shape == (1, nq, 3, 3)
                if not shape_ok:
                    _violation(rec, "%s|output-shape" % name, prefix + ";shape", {"W": list(Wq.shape), "P": list(Pq.shape)})
                    continue
                for q in range(nq):
                    sq = S[0, q]
                    pts = st.points(H3, h)
                    excl = None
                    gap_c = gap_s = 1.0
                    if mname.startswith("J2"):
                        from mc.ref.j2_ref import J2Ref
                        ref = J2Ref(cA["E"], cA["nu"], cA["Y0"], "voce", cA["voce"], kin="large")
                        Sx = onp.tile(sq, (st.n, 1))
                        with onp.errstate(all="ignore"):
                            f = ref.measures(pts, Sx)["mises"] - ref.Y(sq[0]) - 1e-10 * ref.Y0
                            fu = f[st.used1 | (onp.arange(st.n) == 0)]
                            gg = rel_gap_sym(ref.decomposed_tensors(pts, Sx)[0])
                        if onp.abs(fu).min() <= 1e-6 * ref.Y0 or (fu.min() < 0.0 < fu.max()):
                            excl = "stencil straddles the yield switch"
                        gap_c, gap_s = float(gg[0]), float(gg.min())
                    elif eigen_based:
                        gg = R.stretch_info(pts + R.I3)["gap"]
                        gap_c, gap_s = float(gg[0]), float(gg.min())
                    near = eigen_based and min(gap_c, gap_s) <= 1e-6
                    try:
                        vals = onp.empty((NS, 3, 3))
                        vals[:st.n] = pts
                        vals[st.n:] = pts[0]
                        fB = onp.asarray(wB(vals, sq, 1.0), dtype=float)[:st.n]
                        fd = st.derivatives(fB, h)
                        W1 = float(w1(H3, sq, 1.0))
                        P1 = onp.asarray(g1(H3, sq, 1.0), dtype=float)
                    except Exception as e:  # noqa
                        _violation(rec, "%s|reference-evaluation|%s" % (name, _libkey(e)), prefix + ";ref", {"error": repr(e)[:600]})
                        continue
                    tol1 = TAU1 * (R.fro(fd["grad"]) + FLOOR1 * M)
                    tolW = 1e-10 * abs(W1) + 1e-12 * M
                    # energy density
                    cid = "%s;q=%d;W" % (prefix, q)
                    if rec.want(cid):
                        okW = abs(Wq[0, q] - W1) <= tolW
                        if okW:
                            rec.track_max("Mechanics energy density|error/tolerance", abs(Wq[0, q] - W1) / tolW)
                            rec.case(cid, nontrivial=sl != "virgin", outcome="ok:mechanics:W")
                        else:
                            key = D11_KEY if near else "%s|energy-density-differs-from-material-model" % name
                            _violation(rec, key, cid, {"gradU": G2, "state": sq, "W_output": Wq[0, q], "W_material": W1})
                            rec.case(cid, nontrivial=sl != "virgin", outcome="d11" if near else "fail:mechanics:W")
                    reliable = bool(onp.abs(fd["grad"] - fd["grad_plain"]).max() <= 0.1 * tol1)
                    for k in range(9):
                        cid = "%s;q=%d;d1=%s" % (prefix, q, DIRS[k])
                        if not rec.want(cid):
                            continue
                        if excl:
                            rec.branch("excluded:first:" + excl)
                            continue
                        e_fd = abs(Pq[0, q].ravel()[k] - fd["grad"].ravel()[k])
                        e_ad = abs(Pq[0, q].ravel()[k] - P1.ravel()[k])
                        ok_fd = bool(e_fd <= tol1) and reliable
                        ok_ad = bool(e_ad <= tol1)
                        if ok_fd and ok_ad:
                            rec.track_max("Mechanics stress vs fd|error/tolerance", e_fd / tol1)
                            rec.track_max("Mechanics stress vs single-call jax.grad|error/tolerance", e_ad / tol1)
                            rec.case(cid, nontrivial=sl != "virgin", outcome="ok:mechanics:stress")
                            continue
                        single_ok = bool(abs(P1.ravel()[k] - fd["grad"].ravel()[k]) <= tol1)
                        if not ok_fd and not reliable and ok_ad:
                            rec.branch("excluded:first:fd-unreliable (Richardson vs plain > 0.1 tol)")
                            continue
                        det = {"gradU": G2, "state": sq, "entry": DIRS[k], "stress_output": Pq[0, q], "jax.grad single": P1,
                               "finite_difference": fd["grad"], "tolerance": tol1, "relative_gap_centre": gap_c}
                        if near and not ok_ad:
                            # Mechanics evaluates the quadrature points in a compiled batch; single-call grad disagrees
                            fd1 = st.derivatives(onp.array([float(w1(x, sq, 1.0)) for x in pts]), h)
                            if abs(P1.ravel()[k] - fd1["grad"].ravel()[k]) <= tol1:
                                _violation(rec, D11_KEY, cid, det)
                                rec.case(cid, nontrivial=True, outcome="d11")
                                continue
                        if near and ok_ad and not ok_fd:
                            fd1 = st.derivatives(onp.array([float(w1(x, sq, 1.0)) for x in pts]), h)
                            if abs(Pq[0, q].ravel()[k] - fd1["grad"].ravel()[k]) <= tol1:
                                _violation(rec, D11_KEY, cid, dict(det, note="batched stencil evaluation was corrupted"))
                                rec.case(cid, nontrivial=True, outcome="d11")
                                continue
                        _violation(rec, "%s|stress-output|%s" % (name, "differs-from-jax.grad" if not ok_ad else "differs-from-fd"),
                                   cid, dict(det, single_call_grad_matches_fd=single_ok))
                        rec.case(cid, nontrivial=sl != "virgin", outcome="fail:mechanics:stress")
                rec.branch("mechanics:%s:%s" % (mname.split("|")[0], sl))
