"""C07 -- solution sensitivities equal implicit-function-theorem derivatives.

(a) E-PROD: reverse-mode derivatives through the REAL optimism.inverse.NonlinearSolve.nonlinear_solve and
    nonlinear_solve_with_state (real Objective, real trust-region adjoint solve) for every parameter slot and EVERY
    cotangent basis vector, versus -v' H^-1 G_k from dense numpy linear algebra.
(b) E-BFS: every load-step history of length <= 3 (state slot of step j+1 a smooth function of (x_j, state_j)); the
    derivative of every component of the last solution w.r.t. the first-step parameters through the chained custom
    rules versus the reference's dense forward chain rule.
(c) E-PROD: the helper vector-Jacobian products of optimism.inverse.MechanicsInverse versus the transposed action of
    dense jax.jacfwd Jacobians of an independently composed finite-element map, every cotangent basis vector; and
    AdjointFunctionSpace.construct_function_space_for_adjoint versus FunctionSpace.construct_function_space on the
    moved mesh for every single-node perturbation.
"""
import contextlib
import io
import itertools

import numpy as onp

from mc.core import stable_hash, horizon, HorizonExceeded

ID = "C07"
TITLE = ("reverse-mode derivatives through nonlinear_solve / nonlinear_solve_with_state exist and equal -v'H^-1 G_k; "
         "MechanicsInverse helper VJPs equal the transposed dense Jacobians; adjoint function space == function space "
         "on the moved mesh")
LEVEL = "model_checking"
RULE = ("E-PROD (ift): dimension n (2,3; thorough also 5) x parameter point (full 3^4 product of 3 points per slot) "
        "x quartic coefficient {0,1} x CG inner product {euclidean, preconditioned} x deviations "
        "(quick <=1, thorough full) over {start guess, objective's previous parameters, which slots are present} x entry "
        "{nonlinear_solve, nonlinear_solve_with_state} x slot {guess, 0 bc, 1 state, 2 design, 4 time} x EVERY basis "
        "cotangent e_i. Non-trivial = the expected cotangent is > 100 tau (measured), i.e. a zero or missing term would be "
        "seen; plus jax.grad of a generic linear functional (non-basis cotangent) at the base point. E-BFS (chain): every "
        "action sequence of length <= depth (3 quick, 4 thorough) over 3 load actions (with_state: bc increment + time "
        "increment + state-update law; nonlinear_solve: design-update law) x quartic coefficient x entry, replayed from "
        "the first step; every component of the last solution is differentiated w.r.t. all first-step parameters; "
        "non-trivial = length >= 2 and expected derivative > 100 tau. E-PROD (helpers): element order {1,2} x material {Neohookean, J2Plastic} x (displacement, previous "
        "state) configurations x helper x EVERY basis cotangent; non-trivial = the dense Jacobian block is non-zero and, "
        "for J2, the configuration is yielding (measured from the eqps increment). E-PROD (helpers, time step): element order "
        "{1,2} x rate-dependent material {HyperViscoelastic, J2Plastic small-deformation with power-law rate sensitivity} x "
        "(displacement {small, large} x previous state {virgin, evolved by one load step with dt=0.5: relaxing / hardened}) x "
        "coordinates {mesh, moved} x helper x time step {helper's default (no dt handed over; update helpers of the "
        "viscoelastic material only), 0.25, 10.0 as trailing positional argument; order 1 also 0.25 as keyword dt=} x EVERY "
        "basis cotangent, against the dense jax.jacfwd Jacobian of the independently composed map at the same dt. "
        "Non-trivial for a case with a time step = the expected row is non-zero AND differs by more than 100 tau from the "
        "same row at every other time step of the axis (for the viscoelastic update helpers that includes dt=0), i.e. a "
        "dropped or stale dt would be seen (measured); outcome labels: evolving/frozen (measured: the internal state moves "
        "in the step) or yielding/elastic/mixed. E-PROD (fs): order x mode x every "
        "single node x component x {+-1e-3, +-0.1}.")
ASSUMPTIONS = [
    "sksparse stand-in in /verif/shim (dense Cholesky) is the preconditioner used by the forward and the adjoint solve",
    "energy family E(x;p) = 1/2 x'(A+diag(p2))x + 1/4 c4 sum x^4 - s(B p0).x - sin(p4)(w.x) + 1/2 (x.C p1)^2 - (D p2).x with "
    "s = 1 + a1.p1 + a2.p2 + 0.3 sin(p4) (so that the bc Jacobian -sB depends on the state, design and time slots) (the last "
    "term is added to the design's family so that the design Jacobian diag(x)-D is not symmetric and a transposed product is seen), A SPD with "
    "spectrum logspace(0,2,n) in a generic (seed) eigenbasis, so the Hessian is SPD with condition <= 1e3 on the alphabet "
    "(the property's premise: non-singular Hessian at the solution); c4 is carried in Params.app_data (slot 3, never "
    "differentiated)",
    "caller settings tol=1e-11, cg_inexact_solve_ratio=1e-12 (admissible values of EquationSolver.get_settings) make the "
    "forward and adjoint solves tight; the oracle tolerance is derived from them",
    "the reference solves the raw energy by dense Newton in numpy and uses closed-form H and G_k; the closed forms are "
    "cross-checked in every group against jax.jacfwd/jax.hessian of the RAW energy function (never the Objective's jitted "
    "closures)",
    "an exception while differentiating (jax.vjp construction or the pull-back call) is a violation: the statement says "
    "the derivatives exist",
    "if the library's forward solution is not within 1e3*tol*||H^-1|| of the reference solution the case gets no verdict "
    "(forward convergence is C01/C19's subject), it is not counted as a sensitivity violation",
    "helper VJPs: the oracle map is composed in the harness from jax.numpy primitives (explicit affine-map shape "
    "gradients, einsum assembly, explicit scatter of unknowns) and only takes the material's point functions "
    "(compute_energy_density / compute_state_new) and the parent-element shape table from the library; J2 "
    "configurations are kept away from the yield switch (|f|/Y0 >= 1e-3), where the maps are not differentiable",
    "time step: in optimism/inverse/MechanicsInverse.py only the three internal-variable-update helpers take a time step: "
    "ivs_update_jac_ivs_prev(U, ivs, dt=0.0), ivs_update_jac_disp_vjp(U, ivs, cotangent, dt=0.0), "
    "ivs_update_jac_coords_vjp(U, ivs, coords, cotangent, dt=0.0) (trailing positional or keyword). The residual helpers "
    "(residual_jac_coords_vjp, residual_jac_ivs_prev_vjp) have NO time-step parameter: they differentiate the caller's "
    "energyFunction(Uu, p, ivs, coords), so on the time-step axis the caller-composed energy hands p.app_data as dt to "
    "Mechanics' compute_strain_energy(U, ivs, dt) (no dt is invented for the helper; a keyword/positional or default "
    "variant does not exist there)",
    "rate-dependent materials: HyperViscoelastic (K_eq 50, G_eq 5, G_neq 7, relaxation time 0.8) and J2Plastic small "
    "deformations (E 100, nu 0.321, Y0 30, linear hardening 1, power-law rate sensitivity S 10, m 2, epsdot0 0.1). dt=0 is "
    "not an admissible time step of their energies (0/0 in the dissipation / kinetic potential) and not of the power-law "
    "state update; the helper's default call (dt=0.0) is therefore only made for the update helpers of the viscoelastic "
    "material, whose state update is the identity in the previous state at dt=0",
    "the oracle maps take dt as an argument and hand it to the material's point functions compute_energy_density / "
    "compute_state_new; the groups without a time-step axis call them with the constant 0.0 as before",
]
TOLERANCES = {
    "ift cotangent": "|obs - exp|_inf <= 1e-7 ||H^-1|| ||G_k|| ||v|| + 100 tol ||H^-1|| Lip_x(H^-1 G_k) + 1e-14 (second term: the "
                     "forward solution is only determined to tol ||H^-1||; it is ~1e-9)",
    "guess cotangent": "|obs|_inf <= 1e-7 ||v||  (exact zero expected)",
    "chain": "|obs - exp|_inf <= 1e-7 * L * (a-priori norm bound of d x_L / d theta) (+1e-14)",
    "helper vjp": "|obs - exp|_inf <= 1e-10 * max(||J||_max, 1e-300 guard) relative to the largest entry of the dense Jacobian "
                  "(the same on the time-step axis: worst observed there 2.0e-14 ||J||_max, tracked as helper_dt_err_over_tau[...])",
    "function space": "max |a - b| <= 1e-14 * max(1, max|b|) per array (1e-13 when the adjoint constructor runs under jit); "
                      "integer/structure fields exact",
}

TAU_IFT = 1e-7
TAU_HELPER = 1e-10
TAU_FS = 1e-14
TAU_FS_JIT = 1e-13      # the same constructor traced and compiled: XLA may re-associate (observed 2.7e-16)
SOLVER_TOL = 1e-11
CG_RATIO = 1e-12
HORIZON_S = 60.0

# time-step axis of the helper products for the rate-dependent materials. label -> (value, how it is handed to the helper):
# "default" = the helper is called WITHOUT a time step (its default dt=0.0); "0.25", "10" = trailing positional argument;
# "0.25kw" = keyword argument dt=0.25. The residual helpers have no time-step parameter (the caller's energy carries it).
_DT_VALUES = {"default": 0.0, "0.25": 0.25, "10": 10.0, "0.25kw": 0.25}
_DT_AXIS = {
    # compute_state_new of HyperViscoelastic is well defined at dt=0 (identity in the previous state): default call included
    "hypervisco": ["default", "0.25", "10"],
    # the power-law kinetic potential divides by dt: dt=0 is not an admissible time step of this material
    "j2-rate-small": ["0.25", "10"],
}


def _dt_axis(mat, order):
    """keyword passing is one more compilation of every update helper: on the order-1 configurations only"""
    return _DT_AXIS[mat] + (["0.25kw"] if order == 1 else [])


# ---------------------------------------------------------------------------------------------------
def bounds(tier):
    return {"ift_dims": _ift_dims(tier), "ift_points": 81, "ift_minor_axes": len(_minor_axes(tier)), "slots": ["guess", 0, 1, 2, 4],
            "entries": ["nonlinear_solve", "nonlinear_solve_with_state"], "chain_depth": _chain_depth(tier), "chain_actions": 3,
            "chain_starts": 1 if tier == "quick" else 2,
            "helper_orders": [1, 2], "helper_materials": ["neohookean", "j2-small", "j2-large (quick: state-update products on order 1 only)"],
            "helper_dt_materials": sorted(_DT_AXIS), "helper_dt_orders": [1, 2],
            "helper_dt_axis": {m: {"order1": _dt_axis(m, 1), "order2": _dt_axis(m, 2)} for m in sorted(_DT_AXIS)},
            "helper_dt_values": _DT_VALUES, "helper_dt_states": ["virgin", "evolved (one step, dt=0.5)"],
            "helper_dt_fields": ["small", "large"], "helper_dt_coords": ["mesh", "moved"],
            "fs_perturbations": ["+1e-3", "-1e-3", "+0.1", "-0.1"], "fs_modes": ["cartesian", "axisymmetric"]}


def _ift_dims(tier):
    return [2, 3] if tier == "quick" else [2, 3, 5]


def _ift_shards(tier, n):
    return 3 if tier == "quick" else 9


def groups(tier, seed):
    gs = []
    # finite-deformation J2 compiles for ~2 min per group: the residual products (part R) only in the thorough tier, the
    # state-update products (part U, where the full displacement gradient matters) for order 1 already in the quick tier
    if tier == "quick":
        hg = [("j2-large", 1, "U"), ("j2-small", 2, "RU"), ("j2-small", 1, "RU"), ("neohookean", 2, "RU"), ("neohookean", 1, "RU")]
    else:
        hg = [("j2-large", 2, "R"), ("j2-large", 2, "U"), ("j2-large", 1, "R"), ("j2-large", 1, "U"),
              ("j2-small", 2, "RU"), ("j2-small", 1, "RU"), ("neohookean", 2, "RU"), ("neohookean", 1, "RU")]
    for mat, order, parts in hg:
        gs.append({"name": "helpers-%s-p%d-%s" % (mat, order, parts), "kind": "helpers", "mat": mat, "order": order, "parts": parts})
    # rate-dependent materials: the time step is an explicit axis (one group per (material, order): workers exit after a group)
    for mat, order in (("hypervisco", 2), ("hypervisco", 1), ("j2-rate-small", 2), ("j2-rate-small", 1)):
        gs.append({"name": "helpers-%s-p%d-RU-dt" % (mat, order), "kind": "helpers", "mat": mat, "order": order, "parts": "RU",
                   "dts": _dt_axis(mat, order)})
    for n in sorted(_ift_dims(tier), reverse=True):
        ns = _ift_shards(tier, n)
        for s in range(ns):
            gs.append({"name": "ift-n%d-s%d" % (n, s), "kind": "ift", "n": n, "shard": s, "nshards": ns})
    for n in sorted(_ift_dims(tier), reverse=True):
        for entry in ("ws", "ns"):
            gs.append({"name": "chain-n%d-%s" % (n, entry), "kind": "chain", "n": n, "entry": entry})
    for order in (2, 1):
        for mode in ("cartesian", "axisymmetric"):
            gs.append({"name": "fs-p%d-%s" % (order, mode), "kind": "fs", "order": order, "mode": mode})
    return gs


def run_group(g, tier, seed, rec):
    if g["kind"] == "ift":
        return _run_ift(g, tier, seed, rec)
    if g["kind"] == "chain":
        return _run_chain(g, tier, seed, rec)
    if g["kind"] == "helpers":
        return _run_helpers(g, tier, seed, rec)
    return _run_fs(g, tier, seed, rec)


@contextlib.contextmanager
def _quiet():
    with contextlib.redirect_stdout(io.StringIO()):
        yield


_PER_KEY_CAP = 12


def _viol(rec, key, cid, detail):
    """rec.violation with a per-key cap per group, so that one defect cannot crowd the other keys out of the recorder's
    global cap (every violating case is still counted as a case with outcome 'violating'/'exception-*')."""
    seen = rec.__dict__.setdefault("_c07_perkey", {})
    seen[key] = seen.get(key, 0) + 1
    if seen[key] <= _PER_KEY_CAP:
        rec.violation(key, cid, detail)
    else:
        rec.branch("violations-beyond-per-key-cap")


def _lib_exc(e):
    """('exception:<Type>@<file>:<function of the innermost library frame>', same) for a library exception; re-raises
    harness bugs. The raise site is part of the finding key so that a different exception of the same type from another
    place is a different finding."""
    from mc.runner import exception_key
    ek = exception_key(e)
    if ek.endswith("@harness"):
        # jax re-raises from its own frames with the library frames filtered out of the traceback; look at the cause chain
        c = e.__cause__ or e.__context__
        while c is not None:
            if not exception_key(c).endswith("@harness"):
                return exception_key(c).replace(type(c).__name__, type(e).__name__, 1), exception_key(c)
            c = c.__cause__ or c.__context__
        raise e
    return ek, ek


# ---------------------------------------------------------------------------------------------------
# (a), (b): energy family
def _data(n, seed):
    from mc.ref.objectives import generic_orthogonal
    lam = onp.logspace(0, 2, n)
    Q = generic_orthogonal(n, seed)
    A = (Q * lam) @ Q.T
    A = 0.5 * (A + A.T)
    k0, k1 = n + 1, 2
    rng = onp.random.default_rng(4242 + seed)
    B = onp.eye(n, k0) + 0.3 * rng.uniform(-1, 1, size=(n, k0))
    C = 0.8 * rng.uniform(-1, 1, size=(n, k1)) + onp.eye(n, k1)
    M = 0.7 * rng.uniform(-1, 1, size=(k1, n))
    w = onp.cos(onp.arange(n) + 1.0)
    D = 0.5 * rng.uniform(-1, 1, size=(n, n))
    a1 = onp.array([0.7, -0.4])
    a2 = 0.25 * onp.cos(onp.arange(n) + 0.3) / n
    return {"A": A, "B": B, "C": C, "M": M, "w": w, "D": D, "n": n, "k0": k0, "k1": k1, "c4": 0.0,
            "a1": a1, "a2": a2, "mu": 0.3}


def _raw_energy(d):
    """The RAW energy as a plain jax function of (x, Params); absent slots (None) drop their term."""
    import jax.numpy as jnp
    A, B, C, w, D = jnp.array(d["A"]), jnp.array(d["B"]), jnp.array(d["C"]), jnp.array(d["w"]), jnp.array(d["D"])

    a1, a2, mu = jnp.array(d["a1"]), jnp.array(d["a2"]), d["mu"]

    def f(x, p):
        s = 1.0                       # bc load factor: couples the bc slot to every other slot that is present
        if p[1] is not None:
            s = s + a1 @ p[1]
        if p[2] is not None:
            s = s + a2 @ p[2]
        if p[4] is not None:
            s = s + mu * jnp.sin(p[4])
        e = 0.5 * x @ (A @ x) + 0.25 * p[3] * jnp.sum(x ** 4) - s * ((B @ p[0]) @ x)
        if p[2] is not None:
            e = e + 0.5 * x @ (jnp.diag(p[2]) @ x) - (D @ p[2]) @ x
        if p[4] is not None:
            e = e - jnp.sin(p[4]) * (w @ x)
        if p[1] is not None:
            e = e + 0.5 * (x @ (C @ p[1])) ** 2
        return e
    return f


def _slot_points(d):
    n, k0, k1 = d["n"], d["k0"], d["k1"]
    return {
        0: {"a": onp.linspace(0.5, 1.5, k0), "b": 3.0 * onp.cos(onp.arange(k0) + 0.5), "c": onp.zeros(k0)},
        1: {"a": onp.array([0.3, -0.2]), "b": onp.array([1.0, 0.5]), "c": onp.zeros(k1)},
        2: {"a": onp.linspace(0.1, 0.4, n), "b": onp.zeros(n), "c": onp.array([5.0, -0.5, 2.0, 0.7, -0.3])[:n]},
        4: {"a": 0.4, "b": 0.0, "c": 2.0},
    }


def _point_labels(tier):
    """full 3^4 product of the per-slot points (bc, state, design, time), simplest first"""
    return ["".join(t) for t in itertools.product("abc", repeat=4)]


def _minor_axes(tier):
    """(guess, old, present) label triples: quick = at most one deviation from (zero, same, all); thorough = full."""
    # bd = bc + design only; bt = bc + time only (state AND design absent: added after a seeded change whose time-slot
    # cotangent was guarded by the presence of the design slot went undetected)
    G, O, P = ("zero", "far"), ("same", "other"), ("all", "bd", "bt")
    if tier == "quick":
        return [("zero", "same", "all"), ("far", "same", "all"), ("zero", "other", "all"), ("zero", "same", "bd"),
                ("zero", "same", "bt")]
    return list(itertools.product(G, O, P))


def _selfcheck_closed_forms(d, f, SR):
    """Harness self-check (not a verdict): closed-form H and G_k of the reference == jax derivatives of the RAW energy."""
    import jax
    import jax.numpy as jnp
    from optimism import Objective
    pts = _slot_points(d)
    for lab in ("aaaa", "bbbb", "cabc"):
        for c4 in (0.0, 1.0):
            dd = dict(d, c4=c4)
            p0, p1, p2, p4 = [pts[s][l] for s, l in zip((0, 1, 2, 4), lab)]
            x = onp.cos(onp.arange(d["n"]) * 1.3 + 0.2)
            P = Objective.Params(jnp.array(p0), jnp.array(p1), jnp.array(p2), c4, jnp.array(p4))
            gx = jax.grad(f, 0)
            assert onp.allclose(onp.array(gx(jnp.array(x), P)), SR.grad(x, p0, p1, p2, p4, dd), rtol=1e-12, atol=1e-12)
            assert onp.allclose(onp.array(jax.hessian(f, 0)(jnp.array(x), P)), SR.hess(x, p1, p2, dd), rtol=1e-12, atol=1e-12)
            Gj = jax.jacfwd(gx, 1)(jnp.array(x), P)
            Gr = SR.param_jacobians(x, p0, p1, p2, p4, dd)
            for s in (0, 1, 2, 4):
                assert onp.allclose(onp.array(Gj[s]).reshape(Gr[s].shape), Gr[s], rtol=1e-12, atol=1e-12), ("G", s)


def _settings(ES, pip):
    return ES.get_settings(tol=SOLVER_TOL, cg_inexact_solve_ratio=CG_RATIO, use_preconditioned_inner_product_for_cg=pip,
                           debug_info=False)


def _run_ift(g, tier, seed, rec):
    import jax
    import jax.numpy as jnp
    from optimism import Objective, EquationSolver as ES
    from optimism.inverse import NonlinearSolve as NS
    from mc.ref import sens_ref as SR

    n = g["n"]
    d0 = _data(n, seed)
    f = _raw_energy(d0)
    _selfcheck_closed_forms(d0, f, SR)
    pts = _slot_points(d0)
    k0, k1 = d0["k0"], d0["k1"]

    def params(p0, p1, p2, c4, p4, present):
        if present == "all":
            return Objective.Params(jnp.array(p0), jnp.array(p1), jnp.array(p2), c4, jnp.array(p4))
        if present == "bt":
            return Objective.Params(jnp.array(p0), None, None, c4, jnp.array(p4))
        return Objective.Params(jnp.array(p0), None, jnp.array(p2), c4, None)

    base = params(pts[0]["a"], pts[1]["a"], pts[2]["a"], 0.0, pts[4]["a"], "all")
    with _quiet():
        obj = Objective.Objective(f, jnp.zeros(n), base)       # constructed ONCE (its constructor re-jits)
    settings = {pip: _settings(ES, pip) for pip in (False, True)}
    guesses = {"zero": onp.zeros(n), "far": 3.0 * onp.cos(onp.arange(n) + 2.0)}

    combos = []
    for li, lab in enumerate(_point_labels(tier)):
        if li % g["nshards"] != g["shard"]:
            continue
        for c4 in (0.0, 1.0):
            for pip in (False, True):
                for gl, ol, pl in _minor_axes(tier):
                    if pl == "bd" and (lab[1] != "a" or lab[3] != "a"):
                        continue            # absent slots: their axis values are irrelevant
                    if pl == "bt" and (lab[1] != "a" or lab[2] != "a"):
                        continue
                    for entry in ("ns", "ws"):
                        if pl == "bt" and entry == "ns":
                            continue        # nonlinear_solve differentiates w.r.t. the design slot, which is absent here
                        combos.append((lab, c4, pip, gl, ol, pl, entry))

    for lab, c4, pip, gl, ol, pl, entry in combos:
        ename = "nonlinear_solve" if entry == "ns" else "nonlinear_solve_with_state"
        base_cid = "ift;n=%d;entry=%s;p=%s;c4=%d;pip=%s;g=%s;old=%s;pres=%s" % (n, entry, lab, int(c4), "T" if pip else "F", gl, ol, pl)
        slots = (["guess", 2] if entry == "ns" else ["guess", 0, 1, 2, 4])
        cids = {(s, i): "%s;slot=%s;v=e%d" % (base_cid, s, i) for s in slots for i in range(n)}
        if not any(rec.want(c) for c in cids.values()):
            continue
        d = dict(d0, c4=c4)
        p0, p1, p2, p4 = [pts[s][l] for s, l in zip((0, 1, 2, 4), lab)]
        if pl == "bd":
            p1r, p4r = onp.zeros(k1), 0.0          # the absent terms vanish identically
        elif pl == "bt":
            p1r, p4r = onp.zeros(k1), p4
            p2 = onp.zeros(n)
        else:
            p1r, p4r = p1, p4
        P = params(p0, p1, p2, c4, p4, pl)
        # reference
        xs, gn = SR.solve(p0, p1r, p2, p4r, d)
        R = SR.ift(xs, p0, p1r, p2, p4r, d)
        assert gn <= 1e-12 * (1.0 + R["lam_max"] * onp.linalg.norm(xs)), ("reference Newton did not converge", gn)
        rec.track_max("ift_cond_H", R["lam_max"] / R["lam_min"])
        # objective's previous parameters (what the warm start inside the entry points sees)
        if ol == "same":
            Pold = P
        elif entry == "ns":
            Pold = params(p0, p1, pts[2]["b" if lab[2] != "b" else "a"], c4, p4, pl)
        else:
            Pold = params(pts[0]["b" if lab[0] != "b" else "a"], p1, p2, c4, p4, pl)
        st = settings[pip]
        guess = jnp.array(guesses[gl])
        if entry == "ns":
            # the non-design slots of nonlinear_solve are whatever the objective carries
            obj.p = Objective.param_index_update(P, 2, Pold[2])
            fn = lambda u, q: NS.nonlinear_solve(obj, st, u, q)                 # noqa: E731
            args = (guess, P[2])
        else:
            obj.p = Pold
            fn = lambda u, q: NS.nonlinear_solve_with_state(obj, st, u, q)      # noqa: E731
            args = (guess, P)
        try:
            with _quiet(), horizon(HORIZON_S):
                obj.update_precond(guess)
                xlib, pull = jax.vjp(fn, *args)
        except HorizonExceeded:
            for (s, i), cid in cids.items():
                if rec.want(cid):
                    rec.noverdict(cid, "horizon")
            continue
        except Exception as e:  # noqa
            sig, where = _lib_exc(e)
            for (s, i), cid in cids.items():
                if rec.want(cid):
                    _viol(rec, "%s|forward-under-vjp|%s" % (ename, sig), cid, {"error": repr(e)[:400], "where": where})
                    rec.case(cid, outcome="exception-forward")
            continue
        xlib = onp.array(xlib, dtype=float)
        ferr = float(onp.linalg.norm(xlib - xs))
        rec.track_max("forward_error_over_tol_Hinv", ferr / (SOLVER_TOL * R["Hinv_norm"]))
        if not ferr <= 1e3 * SOLVER_TOL * R["Hinv_norm"]:
            for (s, i), cid in cids.items():
                if rec.want(cid):
                    rec.noverdict(cid, "forward-solve-not-at-reference-solution")
            continue
        rec.branch("entry:%s" % ename)
        rec.branch("cg-inner-product:%s" % ("preconditioned" if pip else "euclidean"))
        rec.branch("present:%s" % pl)
        for i in range(n):
            v = onp.zeros(n)
            v[i] = 1.0
            want = [s for s in slots if rec.want(cids[(s, i)])]
            if not want:
                continue
            try:
                with _quiet(), horizon(HORIZON_S):
                    ct = pull(jnp.array(v))
            except HorizonExceeded:
                for s in want:
                    rec.noverdict(cids[(s, i)], "horizon")
                continue
            except Exception as e:  # noqa
                sig, where = _lib_exc(e)
                for s in want:
                    _viol(rec, "%s|reverse-rule|%s" % (ename, sig), cids[(s, i)],
                                  {"error": repr(e)[:400], "where": where, "p0": p0, "p1": p1r, "p2": p2, "p4": p4r, "c4": c4,
                                   "cotangent": v})
                    rec.case(cids[(s, i)], outcome="exception-reverse")
                rec.branch("reverse-rule:exception")
                continue
            rec.branch("reverse-rule:returned")
            ct_guess, ct_p = ct
            for s in want:
                cid = cids[(s, i)]
                if s == "guess":
                    obs = onp.array(ct_guess, dtype=float)
                    err = float(onp.max(onp.abs(obs))) if onp.all(onp.isfinite(obs)) else float("nan")
                    rec.track_max("guess_cotangent_abs", err)
                    if not err <= TAU_IFT:
                        _viol(rec, "%s|slot=guess|%s" % (ename, "nonzero-cotangent" if err == err else "nonfinite"), cid,
                                      {"observed": obs, "expected": onp.zeros(n), "cotangent": v})
                        rec.case(cid, outcome="violating")
                    else:
                        rec.case(cid, nontrivial=False, outcome="ok-zero")
                    continue
                got = ct_p if entry == "ns" else ct_p[s]
                if entry == "ws" and s in {"bd": (1, 4), "bt": (1, 2)}.get(pl, ()):
                    if got is not None:
                        _viol(rec, "%s|slot=%d|absent-slot-not-None" % (ename, s), cid, {"observed": repr(got)})
                        rec.case(cid, outcome="violating")
                    else:
                        rec.branch("absent-slot-None")
                        rec.case(cid, nontrivial=False, outcome="ok-absent")
                    continue
                sl = R["slots"][s]
                exp = v @ sl["dxdp"]
                if got is None:
                    _viol(rec, "%s|slot=%d|cotangent-missing" % (ename, s), cid, {"expected": exp})
                    rec.case(cid, outcome="violating")
                    continue
                obs = onp.array(got, dtype=float).reshape(-1)
                # second term: the derivative is evaluated at the library's solution, which the caller's tol only pins
                # down to |dx| <= tol ||H^-1||; lip = Lipschitz constant of -H^-1 G_k in x (closed form, reference)
                tau = TAU_IFT * R["Hinv_norm"] * sl["Gnorm"] + 100.0 * SOLVER_TOL * R["Hinv_norm"] * sl["lip"] + 1e-14
                if obs.shape != exp.shape:
                    _viol(rec, "%s|slot=%d|cotangent-shape" % (ename, s), cid, {"observed": obs, "expected": exp})
                    rec.case(cid, outcome="violating")
                    continue
                fin = bool(onp.all(onp.isfinite(obs)))
                err = float(onp.max(onp.abs(obs - exp))) if fin else float("nan")
                if tau > 1e-14:
                    rec.track_max("ift_err_over_tau", err / tau)
                nontriv = bool(onp.max(onp.abs(exp)) > 100 * tau)
                if not err <= tau:
                    _viol(rec, "%s|slot=%d|%s" % (ename, s, "cotangent-mismatch" if fin else "nonfinite"), cid,
                                  {"observed": obs, "expected": exp, "tau": tau, "x_ref": xs, "x_lib": xlib, "H": R["H"], "G": sl["G"],
                                   "cotangent": v, "p0": p0, "p1": p1r, "p2": p2, "p4": p4r, "c4": c4})
                    rec.case(cid, nontrivial=nontriv, outcome="violating")
                else:
                    rec.case(cid, nontrivial=nontriv, outcome="ok" if nontriv else "ok-zero-derivative",
                             sample=({"case": cid, "observed": obs, "expected": exp, "tau": tau}
                                     if stable_hash(cid) % 400 == 0 else None))


        # zero cotangent: the pull-back is linear, so every parameter cotangent must be finite and exactly negligible (a
        # seeded change that normalised the adjoint load by its norm turned them into NaN; a zero cotangent reaches the rule
        # whenever an intermediate solution feeds the next load step only as its initial guess)
        cidz = base_cid + ";slot=all;v=zero"
        if rec.want(cidz):
            try:
                with _quiet(), horizon(HORIZON_S):
                    ct0 = pull(jnp.zeros(n))
                leaves = [ct0[0]] + (list(ct0[1]) if entry == "ws" else [ct0[1]])
                worst, finite = 0.0, True
                for leaf in leaves:
                    if leaf is None:
                        continue
                    a = onp.asarray(leaf, dtype=float)
                    finite = finite and bool(onp.all(onp.isfinite(a)))
                    if a.size and finite:
                        worst = max(worst, float(onp.max(onp.abs(a))))
                if not finite or worst > 1e-14:
                    _viol(rec, "%s|zero-cotangent|%s" % (ename, "nonfinite" if not finite else "nonzero"), cidz,
                          {"observed": [None if l is None else onp.asarray(l) for l in leaves]})
                    rec.case(cidz, outcome="violating")
                else:
                    rec.branch("zero-cotangent:ok")
                    rec.case(cidz, nontrivial=False, outcome="ok-zero-cotangent")
            except HorizonExceeded:
                rec.noverdict(cidz, "horizon")
            except Exception as e:  # noqa
                sig, where = _lib_exc(e)
                _viol(rec, "%s|reverse-rule|%s" % (ename, sig), cidz, {"error": repr(e)[:400], "where": where, "cotangent": "zero"})
                rec.case(cidz, outcome="exception-reverse")

        # jax.grad of a generic linear functional r.x*(p) (a non-basis cotangent through the other public transformation)
        if lab == "aaaa" and gl == "zero" and ol == "same":
            r = onp.cos(0.7 * onp.arange(n) + 0.3)
            gslots = [s for s in slots if s != "guess"]
            gcids = {s: "%s;slot=%s;v=generic-grad" % (base_cid, s) for s in gslots}
            if any(rec.want(c) for c in gcids.values()):
                rj = jnp.array(r)
                obj.p = Objective.param_index_update(P, 2, Pold[2]) if entry == "ns" else Pold
                try:
                    with _quiet(), horizon(HORIZON_S):
                        obj.update_precond(guess)
                        gr = jax.grad(lambda q: rj @ fn(guess, q))(args[1])
                except HorizonExceeded:
                    for s in gslots:
                        rec.noverdict(gcids[s], "horizon")
                    continue
                except Exception as e:  # noqa
                    sig, where = _lib_exc(e)
                    for s in gslots:
                        if rec.want(gcids[s]):
                            _viol(rec, "%s|reverse-rule|%s" % (ename, sig), gcids[s], {"error": repr(e)[:400], "where": where, "via": "jax.grad"})
                            rec.case(gcids[s], outcome="exception-reverse")
                    rec.branch("reverse-rule:exception")
                    continue
                rec.branch("jax.grad:returned")
                for s in gslots:
                    cid = gcids[s]
                    if not rec.want(cid):
                        continue
                    got = gr if entry == "ns" else gr[s]
                    if entry == "ws" and s in {"bd": (1, 4), "bt": (1, 2)}.get(pl, ()):
                        if got is not None:
                            _viol(rec, "%s|slot=%d|absent-slot-not-None" % (ename, s), cid, {"observed": repr(got)})
                        rec.case(cid, nontrivial=False, outcome="ok-absent" if got is None else "violating")
                        continue
                    sl = R["slots"][s]
                    exp = r @ sl["dxdp"]
                    rn = float(onp.linalg.norm(r))
                    tau = (TAU_IFT * R["Hinv_norm"] * sl["Gnorm"] + 100.0 * SOLVER_TOL * R["Hinv_norm"] * sl["lip"]) * rn + 1e-14
                    obs = None if got is None else onp.array(got, dtype=float).reshape(-1)
                    if obs is None or obs.shape != exp.shape:
                        _viol(rec, "%s|slot=%d|cotangent-shape" % (ename, s), cid, {"observed": repr(got), "expected": exp})
                        rec.case(cid, outcome="violating")
                        continue
                    fin = bool(onp.all(onp.isfinite(obs)))
                    err = float(onp.max(onp.abs(obs - exp))) if fin else float("nan")
                    rec.track_max("ift_err_over_tau", err / tau)
                    if not err <= tau:
                        _viol(rec, "%s|slot=%d|%s" % (ename, s, "cotangent-mismatch" if fin else "nonfinite"), cid,
                              {"observed": obs, "expected": exp, "tau": tau, "cotangent": r, "via": "jax.grad", "x_ref": xs,
                               "p0": p0, "p1": p1r, "p2": p2, "p4": p4r, "c4": c4})
                        rec.case(cid, nontrivial=True, outcome="violating")
                    else:
                        rec.case(cid, nontrivial=bool(onp.max(onp.abs(exp)) > 100 * tau), outcome="ok")


# ---------------------------------------------------------------------------------------------------
# (b) load-step chains
def _chain_actions(d):
    """with_state: (label, bc increment, time increment, state-update kind applied after the solve)."""
    k0 = d["k0"]
    e0 = onp.zeros(k0); e0[0] = 1.0
    el = onp.zeros(k0); el[-1] = 2.0
    return [("A", e0, 0.3, "T"), ("B", -0.5 * onp.ones(k0), 0.0, "L"), ("C", el, 1.0, "Q")]


def _jax_state_update(kind, Mj, x, s):
    import jax.numpy as jnp
    mx = Mj @ x
    if kind == "T":
        return jnp.tanh(mx) + 0.5 * s
    if kind == "L":
        return 0.8 * s + 0.3 * mx
    return s + 0.1 * mx ** 2 - 0.2 * s ** 2


def _jax_design_update(kind, x, q):
    import jax.numpy as jnp
    if kind == "T":
        return q + 0.1 * jnp.tanh(x)
    if kind == "Q":
        return q + 0.05 * x ** 2
    return 0.9 * q + 0.02


def _chain_depth(tier):
    return 3 if tier == "quick" else 4


def _run_chain(g, tier, seed, rec):
    import jax
    import jax.numpy as jnp
    from optimism import Objective, EquationSolver as ES
    from optimism.inverse import NonlinearSolve as NS
    from mc.ref import sens_ref as SR

    n, entry = g["n"], g["entry"]
    ename = "nonlinear_solve" if entry == "ns" else "nonlinear_solve_with_state"
    d0 = _data(n, seed)
    f = _raw_energy(d0)
    pts = _slot_points(d0)
    Mj = jnp.array(d0["M"])
    acts = _chain_actions(d0)
    dkinds = ["T", "Q", "N"]
    st = _settings(ES, False)
    base = Objective.Params(jnp.array(pts[0]["a"]), jnp.array(pts[1]["a"]), jnp.array(pts[2]["a"]), 0.0, jnp.array(pts[4]["a"]))
    with _quiet():
        obj = Objective.Objective(f, jnp.zeros(n), base)       # ONCE per group
    maxd = _chain_depth(tier)
    seqs = [s for L in range(1, maxd + 1) for s in itertools.product(range(3), repeat=L)]
    starts = ["aaaa"] if tier == "quick" else ["aaaa", "bbab"]
    for start in starts:
        p0, p1, p2, p4 = [pts[s][l] for s, l in zip((0, 1, 2, 4), start)]
        for c4 in (0.0, 1.0):
            d = dict(d0, c4=c4)
            for seq in seqs:
                L = len(seq)
                sl = "".join(acts[a][0] for a in seq) if entry == "ws" else "".join(dkinds[a] for a in seq)
                base_cid = "chain;n=%d;entry=%s;start=%s;c4=%d;seq=%s" % (n, entry, start, int(c4), sl)
                cids = ["%s;v=e%d" % (base_cid, i) for i in range(n)]
                if not any(rec.want(c) for c in cids):
                    continue
                if entry == "ws":
                    steps = [(acts[a][1], acts[a][2], acts[a][3]) for a in seq]
                    xs, J, scale, kappa, final = SR.chain_with_state((p0, p1, p2, p4), steps, d)

                    def fn(q0, q1, q2, q4, steps=steps, c4=c4):
                        x = jnp.zeros(n)
                        s, bc, t = q1, q0, q4
                        for dbc, dt, kind in steps:
                            bc = bc + jnp.array(dbc)
                            t = t + dt
                            x = NS.nonlinear_solve_with_state(obj, st, x, Objective.Params(bc, s, q2, c4, t))
                            s = _jax_state_update(kind, Mj, x, s)
                        return x
                    args = (jnp.array(p0), jnp.array(p1), jnp.array(p2), jnp.array(p4))
                else:
                    kinds = [dkinds[a] for a in seq]
                    xs, J, scale, kappa, final = SR.chain_design(p2, (p0, p1, p4), kinds, d)

                    def fn(q2, kinds=kinds):
                        x = jnp.zeros(n)
                        q = q2
                        for kind in kinds:
                            x = NS.nonlinear_solve(obj, st, x, q)
                            q = _jax_design_update(kind, x, q)
                        return x
                    args = (jnp.array(p2),)
                obj.p = Objective.Params(jnp.array(p0), jnp.array(p1), jnp.array(p2), c4, jnp.array(p4))
                rec.track_max("chain_cond_H", kappa)
                try:
                    with _quiet(), horizon(HORIZON_S):
                        obj.update_precond(jnp.zeros(n))
                        xlib, pull = jax.vjp(fn, *args)
                except HorizonExceeded:
                    for cid in cids:
                        if rec.want(cid):
                            rec.noverdict(cid, "horizon")
                    continue
                except Exception as e:  # noqa
                    sig, where = _lib_exc(e)
                    for cid in cids:
                        if rec.want(cid):
                            _viol(rec, "%s|chain|forward-under-vjp|%s" % (ename, sig), cid, {"error": repr(e)[:400], "where": where})
                            rec.case(cid, outcome="exception-forward", steps=L)
                    continue
                rec.transition(L)
                rec.depth(L)
                xlib = onp.array(xlib, dtype=float)
                # canonical end state of the history: last solution and carried path-dependent data, on a 1e-8 grid
                rec.state("C07|chain|%d|%s|%s|%d|%s|%s" % (n, entry, start, int(c4), onp.round(xs[-1], 8).tolist(),
                                                          [onp.round(onp.atleast_1d(z), 8).tolist() for z in (final if entry == "ws" else (final,))]))
                ferr = float(onp.linalg.norm(xlib - xs[-1]))
                rec.track_max("chain_forward_error", ferr)
                if not ferr <= 1e-6:
                    for cid in cids:
                        if rec.want(cid):
                            rec.noverdict(cid, "forward-chain-not-at-reference-solution")
                    continue
                tau = TAU_IFT * L * max(scale, 1.0) + 1e-14
                for i, cid in enumerate(cids):
                    if not rec.want(cid):
                        continue
                    v = onp.zeros(n)
                    v[i] = 1.0
                    try:
                        with _quiet(), horizon(HORIZON_S):
                            ct = pull(jnp.array(v))
                    except HorizonExceeded:
                        rec.noverdict(cid, "horizon")
                        continue
                    except Exception as e:  # noqa
                        sig, where = _lib_exc(e)
                        _viol(rec, "%s|reverse-rule|%s" % (ename, sig), cid, {"error": repr(e)[:400], "where": where, "sequence": sl})
                        rec.case(cid, outcome="exception-reverse", steps=0)
                        rec.branch("chain-reverse-rule:exception")
                        continue
                    rec.branch("chain-reverse-rule:returned")
                    obs = onp.concatenate([onp.array(c, dtype=float).reshape(-1) for c in ct])
                    exp = v @ J
                    fin = bool(onp.all(onp.isfinite(obs)))
                    err = float(onp.max(onp.abs(obs - exp))) if fin else float("nan")
                    rec.track_max("chain_err_over_tau", err / tau)
                    nontriv = bool(L > 1 and onp.max(onp.abs(exp)) > 100 * tau)
                    if not err <= tau:
                        _viol(rec, "%s|chain|%s" % (ename, "total-derivative-mismatch" if fin else "nonfinite"), cid,
                              {"observed": obs, "expected": exp, "tau": tau, "sequence": sl, "x_last_ref": xs[-1], "x_last_lib": xlib,
                               "theta": [p0, p1, p2, p4], "c4": c4})
                        rec.case(cid, nontrivial=nontriv, outcome="violating", steps=0)
                    else:
                        rec.case(cid, nontrivial=nontriv, outcome="ok-chain", steps=0,
                                 sample=({"case": cid, "observed": obs, "expected": exp, "tau": tau} if stable_hash(cid) % 60 == 0 else None))


# ---------------------------------------------------------------------------------------------------
# (c) helper VJPs and the adjoint function space
def _fe_setup(order, seed, nx=2, ny=2):
    """Generic (seed) straight-sided mesh of the unit square: nx x ny nodes -> 2(nx-1)(ny-1) triangles, raised to `order`."""
    import jax.numpy as jnp
    from optimism import Mesh, QuadratureRule, Interpolants
    coords, conns = Mesh.create_structured_mesh_data(nx, ny, [0.5, 1.5], [0.0, 1.0])
    rng = onp.random.default_rng(900 + seed)
    coords = onp.array(coords) + 0.08 * rng.uniform(-1, 1, size=onp.array(coords).shape)
    blocks = {"block_0": jnp.arange(onp.array(conns).shape[0])}
    mesh = Mesh.construct_mesh_from_basic_data(jnp.array(coords), conns, blocks)
    mesh = Mesh.create_higher_order_mesh_from_simplex_mesh(mesh, order)
    nodeSets = {"fix": jnp.array([0]), "roll": jnp.array([1])}
    mesh = Mesh.mesh_with_nodesets(mesh, nodeSets)
    quad = QuadratureRule.create_quadrature_rule_on_triangle(degree=1 if order == 1 else 2)
    shapeOnRef = Interpolants.compute_shapes(mesh.parentElement, quad.xigauss)
    return mesh, quad, shapeOnRef


def _material(name):
    if name == "neohookean":
        from optimism.material import Neohookean
        mu, kappa = 0.855, 85.5
        E = 9.0 * kappa * mu / (3.0 * kappa + mu)
        nu = (3.0 * kappa - 2.0 * mu) / 2.0 / (3.0 * kappa + mu)
        return Neohookean.create_material_model_functions({"elastic modulus": E, "poisson ratio": nu, "version": "coupled"})
    if name == "hypervisco":
        # one Prony branch, relaxation time 0.8: dt/tau = 0.3125 and 12.5 on the time-step axis
        from optimism.material import HyperViscoelastic
        return HyperViscoelastic.create_material_model_functions({
            "equilibrium bulk modulus": 50.0, "equilibrium shear modulus": 5.0,
            "non equilibrium shear modulus": 7.0, "relaxation time": 0.8})
    from optimism.material import J2Plastic
    if name == "j2-rate-small":
        # power-law rate sensitivity: overstress S (epsdot/epsdot0)^(1/m); for an eqps increment of 0.1 it is ~20 at
        # dt=0.25 and ~3 at dt=10 (yield strength 30), so the time step is visible in every yielding Jacobian
        return J2Plastic.create_material_model_functions({
            "elastic modulus": 100.0, "poisson ratio": 0.321, "yield strength": 30.0,
            "kinematics": "small deformations", "hardening model": "linear", "hardening modulus": 1.0,
            "rate sensitivity": "power law", "rate sensitivity stress": 10.0, "rate sensitivity exponent": 2.0,
            "reference plastic strain rate": 0.1})
    return J2Plastic.create_material_model_functions({
        "elastic modulus": 100.0, "poisson ratio": 0.321, "yield strength": 30.0,
        "kinematics": "small deformations" if name == "j2-small" else "large deformations",
        "hardening model": "linear", "hardening modulus": 1.0})


def _independent_fe(mesh, quad, shapeOnRef, mat, isUnknown):
    """The oracle's own composition of the finite-element maps from jax.numpy primitives: explicit inverse of the affine
    element map, einsum for the displacement gradient, explicit scatter of the unknowns. Only the material's point
    functions and the parent-element shape table are taken from the library. Geometry convention of the library:
    straight-sided elements (the affine map of the three vertex nodes)."""
    import jax
    import jax.numpy as jnp
    conns = onp.array(mesh.conns)
    vert = onp.array(mesh.parentElement.vertexNodes)
    dN = jnp.array(onp.array(shapeOnRef.gradients))          # (nq, npe, 2)
    wq = jnp.array(onp.array(quad.wgauss))
    nn = int(onp.array(mesh.coords).shape[0])
    flat_unknown = onp.flatnonzero(onp.array(isUnknown).reshape(-1))
    flat_bc = onp.flatnonzero(~onp.array(isUnknown).reshape(-1))

    def geometry(X):
        Xe = X[conns]                                          # (ne, npe, 2)
        v0, v1, v2 = Xe[:, vert[0], :], Xe[:, vert[1], :], Xe[:, vert[2], :]
        a, b = v0 - v2, v1 - v2                                # columns of the element Jacobian
        det = a[:, 0] * b[:, 1] - a[:, 1] * b[:, 0]
        Jinv = jnp.stack([jnp.stack([b[:, 1], -b[:, 0]], axis=-1),
                          jnp.stack([-a[:, 1], a[:, 0]], axis=-1)], axis=-2) / det[:, None, None]
        G = jnp.einsum("qak,ekj->eqaj", dN, Jinv)              # dN_a/dX_j at every quadrature point
        return G, det

    def disp_grads(U, X):
        G, det = geometry(X)
        H2 = jnp.einsum("eai,eqaj->eqij", U[conns], G)
        H3 = jnp.zeros(H2.shape[:2] + (3, 3)).at[:, :, :2, :2].set(H2)
        return H3, det

    def field(Uu, Ubc):
        return jnp.zeros(2 * nn).at[flat_unknown].set(Uu).at[flat_bc].set(Ubc).reshape(nn, 2)

    # dt: the time step handed to the material's point functions (the same for every quadrature point). The groups
    # without a time-step axis call these without dt (the constant 0.0, as before).
    def energy(Uu, Ubc, ivs, X, dt=0.0):
        H3, det = disp_grads(field(Uu, Ubc), X)
        W = jax.vmap(jax.vmap(lambda h, q: mat.compute_energy_density(h, q, dt)))(H3, ivs)
        return jnp.sum(W * wq[None, :] * det[:, None])

    def update(U, ivs, X, dt=0.0):
        H3, _ = disp_grads(U, X)
        return jax.vmap(jax.vmap(lambda h, q: mat.compute_state_new(h, q, dt)))(H3, ivs)

    return energy, update, field


def _helper_fields(coords, kind):
    G = onp.array([[0.4, -0.2], [-0.04, 0.68]])
    x, y = coords[:, 0] - 1.0, coords[:, 1] - 0.5
    bump = onp.stack([x * y, x * x - y], axis=1)
    scale = {"small": 0.01, "medium": 0.45, "large": 1.0}[kind]
    return scale * ((coords - onp.array([1.0, 0.5])) @ G.T + 0.15 * bump)


def _run_helpers(g, tier, seed, rec):
    import jax
    import jax.numpy as jnp
    from optimism import FunctionSpace, Mechanics, Objective
    from optimism.inverse import MechanicsInverse as MI, AdjointFunctionSpace as AFS

    order, matn = g["order"], g["mat"]
    dts = g.get("dts")              # None: group without a time-step axis (helpers called without dt, oracle at the constant 0.0)
    rate = dts is not None
    dlabels = dts if rate else [None]
    hasState = matn != "neohookean"
    isJ2 = matn.startswith("j2")
    mesh, quad, shapeOnRef = _fe_setup(order, seed)
    mat = _material(matn)
    fs = FunctionSpace.construct_function_space(mesh, quad)
    ebcs = [FunctionSpace.EssentialBC("fix", 0), FunctionSpace.EssentialBC("fix", 1), FunctionSpace.EssentialBC("roll", 1)]
    dm = FunctionSpace.DofManager(fs, 2, ebcs)
    coords0 = onp.array(mesh.coords, dtype=float)
    nn = coords0.shape[0]
    ne, nq = int(onp.array(mesh.conns).shape[0]), len(quad)
    rngX = onp.random.default_rng(31 + seed)
    Xs = {"mesh": coords0, "moved": coords0 + 0.03 * rngX.uniform(-1, 1, size=coords0.shape)}

    # the caller-composed energy, the way optimism/inverse/test composes it
    def energy_all(U, ivs, X, dt=None):
        afs = AFS.construct_function_space_for_adjoint(X, shapeOnRef, mesh, quad)
        mf = Mechanics.create_mechanics_functions(afs, mode2D="plane strain", materialModel=mat)
        return mf.compute_strain_energy(U, ivs) if dt is None else mf.compute_strain_energy(U, ivs, dt)

    def energy_pd(Uu, p, ivs, X):
        # time-step axis: the residual helpers have no dt parameter, the caller's energy carries the time step (here in the
        # app_data slot of the parameter set that is handed through the helper)
        return energy_all(dm.create_field(Uu, p.bc_data), ivs, X, p.app_data if rate else None)

    def energy_pi(Uu, p, X):
        return energy_all(dm.create_field(Uu, p.bc_data), p.state_data, X)

    lib = {}
    try:
        with _quiet():
            if hasState:
                rf = MI.create_path_dependent_residual_inverse_functions(energy_pd)
                lib["R-coords"] = lambda Uu, p, ivs, X, v: rf.residual_jac_coords_vjp(Uu, p, ivs, X, v)
                lib["R-ivs"] = lambda Uu, p, ivs, X, v: rf.residual_jac_ivs_prev_vjp(Uu, p, ivs, X, v)
            else:
                rf = MI.create_residual_inverse_functions(energy_pi)
                lib["R-coords"] = lambda Uu, p, ivs, X, v: rf.residual_jac_coords_vjp(Uu, p, X, v)
            uf = MI.create_ivs_update_inverse_functions(fs, "plane strain", mat)
    except Exception as e:  # noqa
        sig, where = _lib_exc(e)
        _viol(rec, "MechanicsInverse|create|mat=%s|%s" % (matn, sig), "helper;mat=%s;p=%d;create" % (matn, order), {"error": repr(e)[:400], "where": where})
        rec.case("helper;mat=%s;p=%d;create" % (matn, order), outcome="exception")
        return

    def dtx(dl):
        """trailing time-step argument of the oracle maps (none for the groups without a time-step axis)"""
        return () if dl is None else (jnp.array(_DT_VALUES[dl]),)

    def libcall(fn, args, dl):
        """the helper with the time step handed over the way the label says"""
        if dl is None or dl == "default":
            return fn(*args)
        if dl.endswith("kw"):
            return fn(*args, dt=_DT_VALUES[dl])
        return fn(*args, _DT_VALUES[dl])

    def dtclass(h, dl):
        if h.startswith("R-"):
            return "via-energy"
        return "default" if dl == "default" else ("keyword" if dl.endswith("kw") else "positional")

    o_energy, o_update, o_field = _independent_fe(mesh, quad, shapeOnRef, mat, onp.array(dm.isUnknown))
    o_res = jax.grad(o_energy, 0)
    dense = {
        "R-coords": jax.jit(jax.jacfwd(o_res, 3)),
        "R-ivs": jax.jit(jax.jacfwd(o_res, 2)),
        "U-ivs": jax.jit(jax.jacfwd(o_update, 1)),
        "U-disp": jax.jit(jax.jacfwd(o_update, 0)),
        "U-coords": jax.jit(jax.jacfwd(o_update, 2)),
    }
    o_update_j = jax.jit(o_update)

    ns = int(onp.array(mat.compute_initial_state()).reshape(-1).shape[0])
    virgin = onp.tile(onp.array(mat.compute_initial_state(), dtype=float).reshape(-1), (ne, nq, 1))
    states = {"virgin": virgin}
    if hasState:
        # evolved previous state: one load step to the medium field (time step 0.5 where there is a time-step axis). For the
        # viscoelastic material it is partly relaxed towards the medium field, so it keeps relaxing under every test field
        evolved = "hardened" if isJ2 else "relaxing"
        states[evolved] = onp.array(o_update_j(jnp.array(_helper_fields(coords0, "medium")), jnp.array(virgin), jnp.array(coords0),
                                               *((jnp.array(0.5),) if rate else ())))
        configs = [("small", "virgin"), ("large", "virgin"), ("large", evolved), ("small", evolved)]
    else:
        configs = [("small", "virgin"), ("large", "virgin")]

    for ul, sl in configs:
        U = _helper_fields(coords0, ul)
        ivs = states[sl]
        Uj, ivsj = jnp.array(U), jnp.array(ivs)
        Uu = onp.array(U).reshape(-1)[onp.flatnonzero(onp.array(dm.isUnknown).reshape(-1))]
        Ubc = onp.array(U).reshape(-1)[onp.flatnonzero(~onp.array(dm.isUnknown).reshape(-1))]
        nu = Uu.shape[0]
        # measured classification, per time step. J2: which quadrature points yield, and is the pattern away from the switch;
        # viscoelastic: does the internal state move in this step
        clss = {}
        for dl in dlabels:
            dcid = "" if dl is None else ";dt=%s" % dl
            if isJ2:
                pats = []
                for fac in (1.0, 1.0 - 1e-3, 1.0 + 1e-3):
                    newS = onp.array(o_update_j(jnp.array(fac * U), ivsj, jnp.array(coords0), *dtx(dl)))
                    pats.append(tuple((newS[:, :, 0] - ivs[:, :, 0] > 0).reshape(-1).tolist()))
                if len(set(pats)) != 1:
                    rec.noverdict("helper;mat=%s;p=%d;U=%s;state=%s%s" % (matn, order, ul, sl, dcid), "configuration-straddles-yield-switch")
                    continue
                nyield = sum(pats[0])
                cls = "yielding" if nyield == len(pats[0]) else ("elastic" if nyield == 0 else "mixed")
            elif hasState:
                newS = onp.array(o_update_j(Uj, ivsj, jnp.array(coords0), *dtx(dl)))
                cls = "evolving" if float(onp.max(onp.abs(newS - ivs))) > 1e-6 else "frozen"
            else:
                cls = "hyperelastic"
            clss[dl] = cls
            rec.branch("helper-config:%s" % cls)
        for xl in ("mesh", "moved"):
            X = Xs[xl]
            Xj = jnp.array(X)
            hs = (["R-coords"] + (["R-ivs"] if hasState else [])) + ["U-coords"] + (["U-ivs", "U-disp"] if xl == "mesh" else [])
            hs = [h for h in hs if h[0] in g.get("parts", "RU")]
            for h in hs:
                ncot = nu if h.startswith("R-") else ne * nq * ns
                if ncot == 0:
                    # material without internal variables: the update maps have an empty range; the products must be
                    # zero fields of the right shape (one case, no basis cotangent exists)
                    base_cid = "helper;mat=%s;p=%d;U=%s;state=%s;X=%s;h=%s" % (matn, order, ul, sl, xl, h)
                    cid = base_cid + ";v=none"
                    if not rec.want(cid):
                        continue
                    try:
                        with _quiet():
                            if h == "U-ivs":
                                got = onp.array(uf.ivs_update_jac_ivs_prev(Uj, ivsj))
                                ok = got.shape == (ne, nq, 0, 0)
                            elif h == "U-disp":
                                got = onp.array(uf.ivs_update_jac_disp_vjp(Uj, ivsj, jnp.zeros((ne, nq, 0))))
                                ok = got.shape == U.shape and not onp.any(got)
                            else:
                                got = onp.array(uf.ivs_update_jac_coords_vjp(Uj, ivsj, Xj, jnp.zeros((ne, nq, 0))))
                                ok = got.shape == X.shape and not onp.any(got)
                    except Exception as e:  # noqa
                        sig, where = _lib_exc(e)
                        _viol(rec, "MechanicsInverse.%s|mat=%s|empty-state|%s" % (h, matn, sig), cid, {"error": repr(e)[:400], "where": where})
                        rec.case(cid, outcome="exception")
                        continue
                    if not ok:
                        _viol(rec, "MechanicsInverse.%s|mat=%s|empty-state|wrong-result" % (h, matn), cid, {"observed": got})
                    rec.case(cid, nontrivial=False, outcome="ok-empty-state" if ok else "violating")
                    continue
                # time-step labels of this helper: the residual helpers take no dt (no default call to make; the energy of the
                # rate-dependent materials is 0/0 at dt=0), and a keyword cannot be told from a positional dt in the caller's energy
                dls = [dl for dl in dlabels
                       if dl in clss and not (rate and h.startswith("R-") and (dl == "default" or dl.endswith("kw")))]
                allcids = {dl: ["helper;mat=%s;p=%d;U=%s;state=%s;X=%s%s;h=%s;v=e%d" % (matn, order, ul, sl, xl, "" if dl is None else ";dt=%s" % dl, h, i)
                                for i in range(ncot)] for dl in dls}
                if not any(rec.want(c) for dl in dls for c in allcids[dl]):
                    continue
                # dense Jacobians of the independently composed map, for every time step of the axis
                Jval = {}
                for dl in dls:
                    key = None if dl is None else _DT_VALUES[dl]
                    if key in Jval:
                        continue
                    if h.startswith("R-"):
                        Jd = onp.array(dense[h](jnp.array(Uu), jnp.array(Ubc), ivsj, Xj, *dtx(dl)))
                    else:
                        Jd = onp.array(dense[h](Uj, ivsj, Xj if h == "U-coords" else jnp.array(coords0), *dtx(dl)))
                    Jval[key] = Jd.reshape((ncot,) + Jd.shape[(1 if h.startswith("R-") else 3):])
                for dl in dls:
                    cids = allcids[dl]
                    if not any(rec.want(c) for c in cids):
                        continue
                    cls = clss[dl]
                    Jd = Jval[None if dl is None else _DT_VALUES[dl]]
                    others = [] if dl is None else [J for k, J in Jval.items() if k != _DT_VALUES[dl]]
                    jmax = float(onp.max(onp.abs(Jd)))
                    tau = TAU_HELPER * max(jmax, 1e-300)
                    p = Objective.Params(bc_data=jnp.array(Ubc), state_data=ivsj, app_data=(jnp.array(_DT_VALUES[dl]) if rate else None))
                    kdt = "|dt=%s" % dtclass(h, dl) if rate else ""
                    dense_lib = None
                    if h == "U-ivs":
                        try:
                            with _quiet():
                                dense_lib = onp.array(libcall(uf.ivs_update_jac_ivs_prev, (Uj, ivsj), dl))
                        except Exception as e:  # noqa
                            sig, where = _lib_exc(e)
                            for cid in cids:
                                if rec.want(cid):
                                    _viol(rec, "MechanicsInverse.%s|mat=%s%s|%s" % (h, matn, kdt, sig), cid, {"error": repr(e)[:400], "where": where})
                                    rec.case(cid, outcome="exception")
                            continue
                    for i, cid in enumerate(cids):
                        if not rec.want(cid):
                            continue
                        exp = Jd[i]
                        try:
                            with _quiet():
                                if h.startswith("R-"):
                                    v = onp.zeros(nu)
                                    v[i] = 1.0
                                    obs = onp.array(lib[h](jnp.array(Uu), p, ivsj, Xj, jnp.array(v)))
                                else:
                                    v = onp.zeros(ne * nq * ns)
                                    v[i] = 1.0
                                    av = jnp.array(v.reshape(ne, nq, ns))
                                    if h == "U-disp":
                                        obs = onp.array(libcall(uf.ivs_update_jac_disp_vjp, (Uj, ivsj, av), dl))
                                    elif h == "U-coords":
                                        obs = onp.array(libcall(uf.ivs_update_jac_coords_vjp, (Uj, ivsj, Xj, av), dl))
                                    else:
                                        # the way the adjoint loop of the library's own tests contracts it
                                        obs = onp.einsum("ijk,ijkn->ijn", v.reshape(ne, nq, ns), dense_lib)
                        except Exception as e:  # noqa
                            sig, where = _lib_exc(e)
                            _viol(rec, "MechanicsInverse.%s|mat=%s%s|%s" % (h, matn, kdt, sig), cid, {"error": repr(e)[:400], "where": where})
                            rec.case(cid, outcome="exception")
                            continue
                        if obs.shape != exp.shape:
                            _viol(rec, "MechanicsInverse.%s|mat=%s%s|shape" % (h, matn, kdt), cid, {"observed_shape": list(obs.shape), "expected_shape": list(exp.shape)})
                            rec.case(cid, outcome="violating")
                            continue
                        fin = bool(onp.all(onp.isfinite(obs)))
                        err = float(onp.max(onp.abs(obs - exp))) if fin else float("nan")
                        if jmax > 0:
                            rec.track_max(("helper_dt_err_over_tau[%s]" if rate else "helper_err_over_tau[%s]") % h, err / tau)
                        nontriv = bool(onp.max(onp.abs(exp)) > 1e-6 * jmax > 0) and cls != "elastic-trivial"
                        # measured: would another time step of the axis (for the update helpers of the viscoelastic material
                        # including the helper's default 0.0) give a visibly different row
                        dtdep = bool(others) and all(float(onp.max(onp.abs(exp - Jo[i]))) > 100.0 * tau for Jo in others)
                        if rate and dl != "default":
                            rowzero = not nontriv
                            nontriv = nontriv and dtdep
                        if not err <= tau:
                            detail = {"observed": obs, "expected": exp, "tau": tau, "config": cls, "cotangent_index": i, "U": U, "ivs": ivs, "X": X}
                            if rate:
                                detail.update({"dt": _DT_VALUES[dl], "dt_passed": dtclass(h, dl), "row_depends_on_dt": dtdep})
                            _viol(rec, "MechanicsInverse.%s|mat=%s%s|%s" % (h, matn, kdt, "vjp-mismatch" if fin else "nonfinite"), cid, detail)
                            rec.case(cid, nontrivial=nontriv, outcome="violating")
                        else:
                            if nontriv:
                                oc = "ok-%s" % cls
                            elif rate and dl != "default" and not rowzero:
                                oc = "ok-dt-independent-row"
                            else:
                                oc = "ok-zero-row"
                            rec.case(cid, nontrivial=nontriv, outcome=oc,
                                     sample=({"case": cid, "max_abs_expected": float(onp.max(onp.abs(exp))), "err": err, "tau": tau}
                                             if stable_hash(cid) % 500 == 0 else None))
                    rec.branch("helper:%s:%s" % (h, cls))
                    if rate:
                        rec.branch("helper-dt:%s:%s" % (h, dtclass(h, dl)))


def _run_fs(g, tier, seed, rec):
    import jax.numpy as jnp
    from optimism import FunctionSpace, Mesh
    from optimism.inverse import AdjointFunctionSpace as AFS

    order, mode = g["order"], g["mode"]
    import jax
    sizes = [(2, 2), (3, 2)] if tier == "quick" else [(2, 2), (3, 2), (3, 3)]
    for nx, ny in sizes:
        mesh, quad, shapeOnRef = _fe_setup(order, seed, nx, ny)
        coords0 = onp.array(mesh.coords, dtype=float)
        with _quiet():
            fs0 = FunctionSpace.construct_function_space(mesh, quad, mode2D=mode)

        # the adjoint constructor is meant to be traced (coordinates are the differentiated argument): also run it compiled
        @jax.jit
        def adjoint_jit(Xt, mesh=mesh, quad=quad, shapeOnRef=shapeOnRef):
            t = AFS.construct_function_space_for_adjoint(Xt, shapeOnRef, mesh, quad, mode2D=mode)
            return t.shapes, t.vols, t.shapeGrads
        verts = set(onp.array(mesh.conns)[:, onp.array(mesh.parentElement.vertexNodes)].reshape(-1).tolist())
        for node in range(coords0.shape[0]):
            for comp in (0, 1):
                for dl, delta in (("+1e-3", 1e-3), ("-1e-3", -1e-3), ("+0.1", 0.1), ("-0.1", -0.1)):
                    cid = "fs;mesh=%dx%d;p=%d;mode=%s;node=%d;comp=%d;d=%s" % (nx, ny, order, mode, node, comp, dl)
                    if not rec.want(cid):
                        continue
                    X = coords0.copy()
                    X[node, comp] += delta
                    Xj = jnp.array(X)
                    try:
                        with _quiet():
                            a = AFS.construct_function_space_for_adjoint(Xj, shapeOnRef, mesh, quad, mode2D=mode)
                            b = FunctionSpace.construct_function_space(Mesh.mesh_with_coords(mesh, Xj), quad, mode2D=mode)
                    except Exception as e:  # noqa
                        sig, where = _lib_exc(e)
                        _viol(rec, "construct_function_space_for_adjoint|mode=%s|%s" % (mode, sig), cid, {"error": repr(e)[:400], "where": where})
                        rec.case(cid, outcome="exception")
                        continue
                    sigs = []
                    worst = 0.0
                    try:
                        with _quiet():
                            jitted = adjoint_jit(Xj)
                    except Exception as e:  # noqa
                        sig, where = _lib_exc(e)
                        _viol(rec, "construct_function_space_for_adjoint|mode=%s|jit|%s" % (mode, sig), cid, {"error": repr(e)[:400], "where": where})
                        rec.case(cid, outcome="exception")
                        continue
                    for k, name in enumerate(("shapes", "vols", "shapeGrads")):
                        bb = onp.array(getattr(b, name), dtype=float)
                        for ex, aa in (("eager", onp.array(getattr(a, name), dtype=float)), ("jit", onp.array(jitted[k], dtype=float))):
                            if aa.shape != bb.shape:
                                sigs.append(("%s-shape|%s" % (name, ex), {"a": list(aa.shape), "b": list(bb.shape)}))
                                continue
                            scale = max(1.0, float(onp.max(onp.abs(bb))))
                            err = float(onp.max(onp.abs(aa - bb))) / scale if onp.all(onp.isfinite(aa)) else float("nan")
                            worst = max(worst, err) if err == err else float("nan")
                            rec.track_max("fs_rel_diff[%s]" % ex, err)
                            if not err <= (TAU_FS if ex == "eager" else TAU_FS_JIT):
                                sigs.append(("%s-differs|%s" % (name, ex), {"adjoint": aa, "direct": bb, "err": err}))
                    if not onp.array_equal(onp.array(a.mesh.coords), X) or not onp.array_equal(onp.array(b.mesh.coords), X):
                        sigs.append(("mesh-coords-not-the-given-coords", {}))
                    if not onp.array_equal(onp.array(a.mesh.conns), onp.array(b.mesh.conns)):
                        sigs.append(("conns-differ", {}))
                    if not onp.array_equal(onp.array(a.mesh.simplexNodesOrdinals), onp.array(b.mesh.simplexNodesOrdinals)):
                        sigs.append(("simplex-ordinals-differ", {}))
                    if a.isAxisymmetric != b.isAxisymmetric or a.isAxisymmetric != (mode == "axisymmetric"):
                        sigs.append(("axisymmetric-flag", {}))
                    if a.mesh.parentElement is not b.mesh.parentElement or a.quadratureRule is not b.quadratureRule:
                        sigs.append(("parent-element-or-rule-not-shared", {}))
                    for fld in ("blocks", "nodeSets", "sideSets"):
                        da, db = getattr(a.mesh, fld), getattr(b.mesh, fld)
                        same = (da is None and db is None) or (da is not None and db is not None and sorted(da) == sorted(db)
                                                               and all(onp.array_equal(onp.array(da[k]), onp.array(db[k])) for k in da))
                        if not same:
                            sigs.append((fld + "-differ", {}))
                    for sname, extra in sigs:
                        _viol(rec, "construct_function_space_for_adjoint|mode=%s|%s" % (mode, sname), cid,
                              dict({"node": node, "comp": comp, "delta": delta, "coords": X}, **extra))
                    moved = bool(onp.max(onp.abs(onp.array(b.vols) - onp.array(fs0.vols))) > 0
                                 or onp.max(onp.abs(onp.array(b.shapeGrads) - onp.array(fs0.shapeGrads))) > 0)
                    rec.branch("fs:%s:%s" % ("vertex" if node in verts else "non-vertex-node", "changes-fs" if moved else "no-effect"))
                    rec.case(cid, nontrivial=moved, outcome=("ok" if moved else "ok-no-effect") if not sigs else "violating",
                             sample=({"case": cid, "max_rel_diff": worst} if stable_hash(cid) % 40 == 0 else None))
