"""C19 -- load stepping: warm start is the exact linear predictor; scaling is transparent; after a
load step the objective carries the requested parameters and the flag refers to them.

E-PROD for WarmStart.warm_start_increment and for ScaledObjective solves; E-BFS over load-step
sequences through the four real drivers (nonlinear_equation_solve, TrustRegionSPG.solve,
augmented_lagrange_solve, bound_constrained_solve).
"""
import contextlib
import io
import itertools

import numpy as onp

from mc.core import horizon, HorizonExceeded, stable_hash

ID = "C19"
TITLE = "warm_start_increment = -H^-1 (d grad/dp) dp; ScaledObjective solve = unscaled solution; objective.p and flag refer to the requested parameters"
LEVEL = "model_checking"
RULE = ("E-PROD (warm start): dimension x Hessian spectrum x parameter slot {bc slot 0, design slot 2} x every basis direction of "
        "the parameter x magnitude {1e-3,1,10} x current point {exact solution for the old parameters, perturbed} x "
        "preconditioner {exact, stale, identity}. E-PROD (scaling): spectrum x diagonal scaling spread x start. "
        "E-BFS (load steps): all sequences of length <= depth over 12 actions (3 parameter changes x warm start on/off x "
        "preconditioner refresh on/off) through each of the four drivers, replayed from the initial state. Non-trivial = the "
        "parameter change is non-zero and (warm start) the increment is non-zero / (load step) the solution moved; measured.")
ASSUMPTIONS = [
    "sksparse stand-in in /verif/shim",
    "energies: E(x;p) = 1/2 x'(A+diag(p2))x + 1/4 c4 sum x^4 - ((B p0)*(1+p2/2)).x with SPD A+diag(p2) on the alphabet (the property's premise)",
    "warm-start tolerance is the one its linear solve states: scipy cg default rtol=1e-5 on ||H dx - b||; the reference forms "
    "H and b = (d grad/dp)(p_old - p_new) densely in numpy",
    "augmented-Lagrangian drivers return no flag; for them a normal return must satisfy the KKT bounds of C04 under the requested parameters",
]
TOLERANCES = {"warm start": "||H_ref dx - b_ref|| <= 1.05e-5 ||b_ref|| + 1e-14",
              "scaled solve": "||x - x*|| <= 10 tol sqrt(cond) / sqrt(lambda_min) (unscaled gradient bound through the scaling)",
              "flag": "||grad_ref(x; p_requested)|| < tol (1+1e-6) + 1e-13"}
HORIZON_S = 60.0


def _depth(tier, driver):
    if tier == "quick":
        return {"nes": 4, "spg": 3, "al": 3, "bcs": 3}[driver]
    return {"nes": 4, "spg": 3, "al": 3, "bcs": 3}[driver]     # thorough adds the 'wide' spectrum and n=5, not depth (12^d growth)


def bounds(tier):
    return {"depth": {d: _depth(tier, d) for d in ("nes", "spg", "al", "bcs")}, "actions": 12,
            "warm_start_dims": [2, 3] if tier == "quick" else [2, 3, 5]}


def groups(tier, seed):
    gs = []
    dims = [2, 3] if tier == "quick" else [2, 3, 5]
    for n in dims:
        for spec in ("spd1", "spd100", "wide"):
            gs.append({"name": "ws-n%d-%s" % (n, spec), "kind": "ws", "n": n, "spec": spec})
    for spec in ("spd100", "wide", "quartic"):
        gs.append({"name": "scaled-%s" % spec, "kind": "scaled", "n": 3, "spec": spec})
    for drv in ("al", "bcs", "spg", "nes"):
        for spec in (("spd100", "quartic") if tier == "quick" else ("spd100", "quartic", "wide")):
            for first in range(12):
                gs.append({"name": "steps-%s-%s-a%02d" % (drv, spec, first), "kind": "steps", "driver": drv, "n": 2,
                           "spec": spec, "first": first})
    return gs


def _data(n, spec, seed):
    from mc.ref.objectives import generic_orthogonal
    lam = {"spd1": onp.ones(n), "spd100": onp.logspace(0, 2, n), "wide": onp.logspace(-3, 3, n),
           "quartic": onp.logspace(0, 1, n)}[spec]
    Q = generic_orthogonal(n, seed)
    A = (Q * lam) @ Q.T
    A = 0.5 * (A + A.T)
    k = n + 1
    rng = onp.random.default_rng(77 + seed)
    B = onp.eye(n, k) + 0.3 * rng.uniform(-1, 1, size=(n, k))
    c4 = 1.0 if spec == "quartic" else 0.0
    return {"A": A, "B": B, "c4": c4, "lam": lam, "n": n, "k": k}


def _load(p0, p2, d):
    """load vector; depends on the bc slot AND (through a factor) on the design slot, so that the bc-slot Jacobian of
    the gradient depends on another slot (added after a seeded change that froze the other slots went undetected)"""
    return (d["B"] @ p0) * (1.0 + 0.5 * p2)


def _ref_grad(x, p0, p2, d):
    return (d["A"] + onp.diag(p2)) @ x + d["c4"] * x ** 3 - _load(p0, p2, d)


def _ref_hess(x, p2, d):
    return d["A"] + onp.diag(p2) + 3 * d["c4"] * onp.diag(x ** 2)


def _ref_solve(p0, p2, d, x0=None):
    x = onp.linalg.solve(d["A"] + onp.diag(p2), _load(p0, p2, d)) if x0 is None else onp.array(x0, dtype=float)
    for _ in range(100):
        g = _ref_grad(x, p0, p2, d)
        if onp.linalg.norm(g) < 1e-15 * (1 + onp.linalg.norm(_load(p0, p2, d))):
            break
        x = x - onp.linalg.solve(_ref_hess(x, p2, d), g)
    return x


def _make(d):
    import jax.numpy as jnp
    from optimism import Objective
    A, B, c4 = jnp.array(d["A"]), jnp.array(d["B"]), d["c4"]

    def f(x, p):
        return 0.5 * x @ ((A + jnp.diag(p[2])) @ x) + 0.25 * c4 * jnp.sum(x ** 4) - ((B @ p[0]) * (1.0 + 0.5 * p[2])) @ x

    def params(p0, p2):
        return Objective.Params(bc_data=jnp.array(p0), design_data=jnp.array(p2))
    return f, params


def run_group(g, tier, seed, rec):
    if g["kind"] == "ws":
        return _run_ws(g, tier, seed, rec)
    if g["kind"] == "scaled":
        return _run_scaled(g, tier, seed, rec)
    return _run_steps(g, tier, seed, rec)


def _run_ws(g, tier, seed, rec):
    import jax.numpy as jnp
    from optimism import Objective, WarmStart
    import sksparse.cholmod as shim
    from mc.runner import exception_key
    n = g["n"]
    d = _data(n, g["spec"], seed)
    f, params = _make(d)
    k = d["k"]
    p0 = onp.linspace(0.5, 1.5, k)
    obj = Objective.Objective(f, jnp.zeros(n), params(p0, onp.linspace(0.1, 0.4, n)))
    for p2l, p2 in (("a", onp.linspace(0.1, 0.4, n)), ("b", onp.linspace(0.9, 0.3, n))):
      xsol = _ref_solve(p0, p2, d)
      for slot in (0, 2):
          m = k if slot == 0 else n
          for j in range(m):
              for mag_l, mag in (("1e-3", 1e-3), ("1", 1.0), ("10", 10.0)):
                  for sgn in (1.0, -1.0):
                      for xl, x in (("exact", xsol), ("perturbed", xsol + 0.1 * onp.cos(onp.arange(n) + 1.0))):
                          for pc in ("exact", "stale", "identity"):
                              cid = "ws;n=%d;spec=%s;p2=%s;slot=%d;dir=%d;mag=%s%s;x=%s;pc=%s" % (
                                  n, g["spec"], p2l, slot, j, "+" if sgn > 0 else "-", mag_l, xl, pc)
                              if not rec.want(cid):
                                  continue
                              dp = onp.zeros(m)
                              dp[j] = sgn * mag
                              q0, q2 = (p0 + dp, p2) if slot == 0 else (p0, p2 + dp)
                              if slot == 2 and onp.min(onp.linalg.eigvalsh(d["A"] + onp.diag(q2))) <= 1e-6:
                                  rec.branch("skipped:new-hessian-not-spd")
                                  continue
                              pnew = params(q0, q2)
                              obj.p = params(p0, p2)
                              shim.FAIL_ALWAYS[0] = (pc == "identity")
                              try:
                                  with contextlib.redirect_stdout(io.StringIO()):
                                      obj.update_precond(jnp.array(x + (2.0 if pc == "stale" else 0.0)))
                                      dx = WarmStart.warm_start_increment(obj, jnp.array(x), pnew, index=slot)
                              except Exception as e:  # noqa
                                  ek = exception_key(e)
                                  if ek.endswith("@harness"):
                                      raise
                                  rec.violation("warm_start_increment|slot=%d|%s" % (slot, ek), cid, {"error": repr(e)})
                                  rec.case(cid, outcome="exception")
                                  continue
                              finally:
                                  shim.FAIL_ALWAYS[0] = False
                              dx = onp.array(dx, dtype=float)
                              H = _ref_hess(x, p2, d)
                              # b = (d grad / dp)(p_old - p_new): finite difference is exact because grad is affine in p0
                              # and in p2 (diag(p2) x)
                              bref = _ref_grad(x, p0, p2, d) - _ref_grad(x, q0, q2, d)
                              res = float(onp.linalg.norm(H @ dx - bref))
                              bn = float(onp.linalg.norm(bref))
                              rec.track_max("warm_start_residual_over_rtol_b", res / (1e-5 * bn) if bn > 0 else 0.0)
                              sigs = []
                              if not res <= 1.05e-5 * bn + 1e-14:
                                  sigs.append("not-the-linear-predictor")
                              if xl == "exact" and d["c4"] == 0.0 and slot == 0:
                                  gnew = float(onp.linalg.norm(_ref_grad(x + dx, q0, q2, d)))
                                  if not gnew <= 1.05e-5 * bn + 1e-12:
                                      sigs.append("does-not-land-on-new-solution")
                              if not onp.array_equal(onp.asarray(obj.p[slot]), (p0, None, p2)[slot]):
                                  sigs.append("objective.p-modified-by-warm-start")
                              for s in sigs:
                                  rec.violation("warm_start_increment|slot=%d|%s" % (slot, s), cid,
                                                {"dx": dx, "expected": onp.linalg.solve(H, bref), "x": x, "dp": dp, "pc": pc,
                                                 "residual": res, "b_norm": bn})
                              rec.branch("slot%d:%s" % (slot, pc))
                              rec.case(cid, nontrivial=bool(onp.linalg.norm(dx) > 0), outcome="ok" if not sigs else "violating",
                                       sample=({"case": cid, "dx": dx, "residual": res} if stable_hash(cid) % 300 == 0 else None))


def _run_scaled(g, tier, seed, rec):
    import jax.numpy as jnp
    from scipy.sparse import csc_matrix
    from optimism import Objective, EquationSolver as ES
    from optimism import WarmStart as WS
    from mc.runner import exception_key
    n = g["n"]
    d = _data(n, g["spec"], seed)
    f, params = _make(d)
    p0 = onp.linspace(0.5, 1.5, d["k"])
    for spread_l, spread in (("1", 0.0), ("1e3", 1.5), ("1e6", 3.0)):
        # an additional diagonal stiffness spread through the design slot: diag(p2) spanning 10^(-spread..spread)
        p2 = 10.0 ** onp.linspace(-spread, spread, n) - (1.0 if spread == 0 else 0.0) * 0.9
        for sl, x0 in (("zero", onp.zeros(n)), ("far", 5.0 * onp.cos(onp.arange(n) + 2.0))):
            for ws in (True, False):
                cid = "scaled;spec=%s;spread=%s;start=%s;ws=%s" % (g["spec"], spread_l, sl, ws)
                if not rec.want(cid):
                    continue
                pold = params(0.5 * p0, p2)
                pnew = params(p0, p2)
                ps = Objective.PrecondStrategy(lambda x, p: csc_matrix(onp.array(d["A"]) + onp.diag(onp.array(p[2]))
                                                                      + 3 * d["c4"] * onp.diag(onp.array(x) ** 2)))
                settings = ES.get_settings(tol=1e-10)
                captured = []
                _orig_ws = WS.warm_start_increment

                def _spy(objective, xarg, pN, index=0):
                    dxb = _orig_ws(objective, xarg, pN, index)
                    captured.append((onp.array(xarg, dtype=float), onp.array(dxb, dtype=float)))
                    return dxb
                try:
                    with contextlib.redirect_stdout(io.StringIO()), horizon(HORIZON_S):
                        sobj = Objective.ScaledObjective(f, jnp.array(x0), pold, precondStrategy=ps)
                        WS.warm_start_increment = _spy      # observation only: records the argument and the result
                        try:
                            x, ok = ES.nonlinear_equation_solve(sobj, jnp.array(x0), pnew, settings, useWarmStart=ws)
                        finally:
                            WS.warm_start_increment = _orig_ws
                        pobj = Objective.Objective(f, jnp.array(x0), pold, precondStrategy=ps)
                        xp, okp = ES.nonlinear_equation_solve(pobj, jnp.array(x0), pnew, settings, useWarmStart=ws)
                except HorizonExceeded:
                    rec.noverdict(cid, "horizon")
                    continue
                except Exception as e:  # noqa
                    ek = exception_key(e)
                    if ek.endswith("@harness"):
                        raise
                    rec.violation("ScaledObjective|solve|%s" % ek, cid, {"error": repr(e)})
                    rec.case(cid, outcome="exception")
                    continue
                x, xp = onp.array(x, dtype=float), onp.array(xp, dtype=float)
                xs = _ref_solve(p0, p2, d)
                H = _ref_hess(xs, p2, d)
                S = onp.sqrt(onp.diag(_ref_hess(x0, p2, d)))
                sigs = []
                if not onp.allclose(onp.array(sobj.scaling), S, rtol=1e-12):
                    sigs.append(("scaling-not-sqrt-of-stiffness-diagonal", {"scaling": onp.array(sobj.scaling), "expected": S}))
                # solver stops on the *scaled* gradient: ||S^-1 grad|| < tol  =>  ||grad|| < max(S) tol
                w = onp.linalg.eigvalsh(H)
                bound = 10 * 1e-10 * float(onp.max(S)) / float(w[0])
                err = float(onp.linalg.norm(x - xs))
                rec.track_max("scaled_solution_error_over_bound", err / bound)
                # the warm start inside the scaled solve must be the linear predictor AT THE START POINT, expressed in the
                # scaled variables: Hbar dxbar = bbar with Hbar = S^-1 H(x0) S^-1, bbar = S^-1 (g(x0;p_old) - g(x0;p_new))
                if ws:
                    if len(captured) != 1:
                        sigs.append(("warm-start-not-called-exactly-once", {"calls": len(captured)}))
                    else:
                        xarg, dxb = captured[0]
                        Hs = _ref_hess(x0, p2, d) / onp.outer(S, S)
                        bs = (_ref_grad(x0, 0.5 * p0, p2, d) - _ref_grad(x0, p0, p2, d)) / S
                        resid = float(onp.linalg.norm(Hs @ dxb - bs))
                        bn = float(onp.linalg.norm(bs))
                        rec.track_max("scaled_warm_start_residual_over_rtol_b", resid / (1e-5 * bn) if bn > 0 else 0.0)
                        if not resid <= 1.05e-5 * bn + 1e-13:
                            sigs.append(("scaled-warm-start-not-the-linear-predictor-at-the-start-point",
                                         {"dxbar": dxb, "x_argument": xarg, "expected_x_argument": S * x0,
                                          "residual": resid, "b_norm": bn}))
                if not ok:
                    sigs.append(("scaled-solve-failed-on-spd-problem", {}))
                elif not err <= bound:
                    sigs.append(("scaled-solution-not-the-unscaled-solution", {"got": x, "expected": xs, "plain": xp}))
                if okp and not onp.linalg.norm(xp - xs) <= 10 * 1e-10 / float(w[0]):
                    sigs.append(("plain-solution-wrong", {"got": xp, "expected": xs}))
                if not onp.array_equal(onp.asarray(sobj.p[0]), p0):
                    sigs.append(("objective.p-not-requested", {}))
                # the same scaled objective through the bound-constrained driver with ACTIVE finite bounds given in
                # physical units (quadratic energies only: exact box-QP reference by active-set enumeration)
                if d["c4"] == 0.0:
                    from optimism import TrustRegionSPG as SPG
                    from mc.props.c05 import _box_qp
                    Aq = d["A"] + onp.diag(p2)
                    bq = _load(p0, p2, d)
                    ub = xs - 0.3 * onp.abs(xs) - 0.1
                    lb = onp.where(onp.arange(n) % 2 == 0, -onp.inf, xs - 5.0 - onp.abs(xs))
                    xb_ref = _box_qp(Aq, bq, lb, ub)
                    try:
                        with contextlib.redirect_stdout(io.StringIO()), horizon(HORIZON_S):
                            sobj2 = Objective.ScaledObjective(f, jnp.array(x0), pold, precondStrategy=ps)
                            xstart = jnp.array(onp.clip(x0, lb, ub))
                            xb, okb = SPG.solve(sobj2, xstart, pnew, jnp.array(lb), jnp.array(ub),
                                                SPG.get_settings(tol=1e-10), useWarmStart=False)
                        xb = onp.array(xb, dtype=float)
                        wq = onp.linalg.eigvalsh(Aq)
                        bnd = 10 * 1e-10 * float(onp.max(S)) * (1 + float(wq[-1])) / float(wq[0])
                        errb = float(onp.linalg.norm(xb - xb_ref))
                        rec.track_max("scaled_spg_solution_error_over_bound", errb / bnd)
                        rec.branch("scaled-spg:%s" % bool(okb))
                        if bool(okb) and not errb <= bnd:
                            sigs.append(("scaled-bound-constrained-solution-not-the-unscaled-solution",
                                         {"got": xb, "expected": xb_ref, "lb": lb, "ub": ub}))
                        if onp.any(xb > ub + 1e-9 * (1 + onp.abs(ub))) or onp.any(xb < lb - 1e-9 * (1 + onp.abs(lb))):
                            sigs.append(("scaled-bound-constrained-solution-outside-physical-bounds",
                                         {"got": xb, "lb": lb, "ub": ub}))
                    except HorizonExceeded:
                        rec.branch("scaled-spg:horizon")
                    except RuntimeError as e:
                        if "No acceptable Cauchy point" not in str(e):
                            raise
                        rec.branch("scaled-spg:cauchy-runtime-error")
                for s, extra in sigs:
                    rec.violation("ScaledObjective|%s" % s, cid, dict({"x0": x0, "p2": p2}, **extra))
                rec.case(cid, nontrivial=spread > 0, outcome="ok" if not sigs else "violating",
                         sample={"case": cid, "x": x, "expected": xs, "scaling": S})


def _run_steps(g, tier, seed, rec):
    import jax.numpy as jnp
    from optimism import Objective, EquationSolver as ES, TrustRegionSPG as SPG, AlSolver, BoundConstrainedSolver
    from optimism.ConstrainedObjective import ConstrainedObjective
    from optimism.BoundConstrainedObjective import BoundConstrainedObjective
    from mc.props.c04 import _kkt
    from mc.runner import exception_key
    n, drv = g["n"], g["driver"]
    d = _data(n, g["spec"], seed)
    f, params = _make(d)
    k = d["k"]
    p0_init = onp.linspace(0.5, 1.5, k)
    p2 = onp.linspace(0.1, 0.4, n)
    dps = [onp.eye(k)[0] * 1.0, -0.5 * onp.ones(k), onp.eye(k)[k - 1] * 10.0]
    actions = [(i, ws, upd) for i in range(3) for ws in (True, False) for upd in (True, False)]
    depth = _depth(tier, drv)
    tol = 1e-8
    big = 1e3

    x0_init = _ref_solve(p0_init, p2, d)
    pinit = params(p0_init, p2)
    if drv in ("nes", "spg"):
        O = Objective.Objective(f, jnp.array(x0_init), pinit)
    elif drv == "al":
        # one linear constraint, inactive over the whole reachable set: x_0 + big >= 0
        O = ConstrainedObjective(f, lambda x, p: jnp.array([x[0] + big]), jnp.array(x0_init), pinit,
                                 jnp.zeros(1), jnp.ones(1))
    else:
        # variables shifted so that x >= 0 is inactive: E_s(y) = E(y - big)
        O = BoundConstrainedObjective(lambda y, p: f(y - big, p), jnp.array(x0_init + big), pinit, jnp.array([0, 1]))

    def fresh():
        """The compiled objective is reused; all of its mutable state is reset (p, multipliers, penalties, preconditioner)."""
        O.p = pinit
        if drv == "al":
            O.lam = jnp.zeros(1)
            O.kappa = jnp.ones(1)
        elif drv == "bcs":
            O.lam = jnp.zeros(2)
            O.reset_kappa()
        xs = x0_init + (big if drv == "bcs" else 0.0)
        O.update_precond(jnp.array(xs))
        return O, xs

    def step(o, x, p0, act):
        i, ws, upd = act
        q0 = p0 + dps[i]
        pnew = params(q0, p2)
        flag = None
        if drv == "nes":
            x, flag = ES.nonlinear_equation_solve(o, jnp.array(x), pnew, ES.get_settings(tol=tol), useWarmStart=ws, updatePrecond=upd)
        elif drv == "spg":
            x, flag = SPG.solve(o, jnp.array(x), pnew, jnp.full(n, -big), jnp.full(n, big), SPG.get_settings(tol=tol),
                                useWarmStart=ws, updatePrecond=upd)
        elif drv == "al":
            x = AlSolver.augmented_lagrange_solve(o, jnp.array(x), pnew, AlSolver.get_settings(tol=tol), ES.get_settings(tol=tol),
                                                  useWarmStart=ws, updatePrecond=upd)
        else:
            x = BoundConstrainedSolver.bound_constrained_solve(o, jnp.array(x), pnew, AlSolver.get_settings(tol=tol),
                                                               ES.get_settings(tol=tol), useWarmStart=ws, updatePrecond=upd)
        return onp.array(x, dtype=float), flag, q0

    seqs = []
    for L in range(1, depth + 1):
        for rest in itertools.product(range(12), repeat=L - 1):
            seqs.append((g["first"],) + rest)
    seen_states = set()
    for seq in seqs:
        cid = "steps;driver=%s;spec=%s;seq=%s" % (drv, g["spec"], ",".join(
            "dp%d%s%s" % (actions[a][0], "w" if actions[a][1] else "-", "u" if actions[a][2] else "-") for a in seq))
        if not rec.want(cid):
            continue
        try:
            with contextlib.redirect_stdout(io.StringIO()), horizon(HORIZON_S):
                o, x = fresh()
                p0 = p0_init.copy()
                sigs = []
                for si, a in enumerate(seq):
                    xprev = x
                    x, flag, p0 = step(o, x, p0, actions[a])
                    rec.transition()
                    last = si == len(seq) - 1
                    if not last:
                        continue        # prefixes are judged when they are the whole sequence
                    if not (onp.array_equal(onp.asarray(o.p[0]), p0) and onp.array_equal(onp.asarray(o.p[2]), p2)):
                        sigs.append(("objective.p-not-requested", {"objective.p0": onp.asarray(o.p[0]), "requested": p0}))
                    xs = x - (big if drv == "bcs" else 0.0)
                    gr = _ref_grad(xs, p0, p2, d)
                    gn = float(onp.linalg.norm(gr))
                    if flag is not None:
                        rec.branch("flag:%s" % bool(flag))
                        if bool(flag) and not gn < tol * (1 + 1e-6) + 1e-13:
                            sigs.append(("success-flag-refers-to-other-parameters", {"gradnorm_under_requested_p": gn}))
                        if not bool(flag):
                            sigs.append(("solver-failed-on-spd-load-step", {"gradnorm": gn}))
                    else:
                        lam = onp.array(o.lam, dtype=float)
                        kap = onp.array(o.kappa, dtype=float)
                        if drv == "al":
                            ks = _kkt(rec, x, lam, kap, onp.ones(1), tol, gr, onp.array([x[0] + big]), onp.array([[1.0, 0.0]]))
                        else:
                            ks = _kkt(rec, x, lam, kap, onp.full(2, 0.25), tol, gr, x[:2], onp.eye(2))
                        sigs += [("normal-return-not-kkt-under-requested-p:" + s, e) for s, e in ks]
                    rec.track_max("gradnorm_under_requested_p_over_tol", gn / tol)
                    rec.state("C19|%s|%s|%s" % (drv, g["spec"], onp.round(xs, 6).tolist()))
                    moved = bool(onp.linalg.norm(x - xprev) > 1e-6)
        except HorizonExceeded:
            rec.noverdict(cid, "horizon")
            continue
        except NameError:
            rec.branch("al-not-converged")
            rec.case(cid, outcome="al-not-converged", steps=0)
            continue
        except Exception as e:  # noqa
            ek = exception_key(e)
            if ek.endswith("@harness"):
                raise
            rec.violation("load-step|driver=%s|%s" % (drv, ek), cid, {"error": repr(e)})
            rec.case(cid, outcome="exception", steps=0)
            continue
        for s, extra in sigs:
            rec.violation("load-step|driver=%s|%s" % (drv, s), cid, dict({"x": x, "p0": p0}, **extra))
        rec.depth(len(seq))
        rec.case(cid, nontrivial=moved, outcome="ok" if not sigs else "violating", steps=0,
                 sample=({"case": cid, "x": x, "p0": p0} if stable_hash(cid) % 200 == 0 else None))
