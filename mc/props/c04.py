"""C04 -- augmented-Lagrangian solve returns a KKT point with non-negative multipliers.

E-DEV x E-PROD on the real AlSolver.augmented_lagrange_solve (ConstrainedObjective) and
BoundConstrainedSolver.bound_constrained_solve (BoundConstrainedObjective), with a monitor on every
outer iteration (callback) and a KKT oracle recomputed from scratch in numpy at every normal return.
"""
import contextlib
import io
import itertools
import math

import numpy as onp

from mc.core import Axis, deviations, horizon, HorizonExceeded, stable_hash

ID = "C04"
TITLE = "augmented_lagrange_solve / bound_constrained_solve: KKT at return, lambda>=0 and kappa monotone at every outer iteration"
LEVEL = "model_checking"
RULE = ("E-DEV x E-PROD: (objective) x (constraint set: every activity pattern in {inactive, active, weakly active, "
        "duplicated, parallel pair} for m=1,2 linear constraints; a nonlinear disk; bound constraints on index subsets "
        "with/without variable scaling) x (start: feasible, infeasible, on the boundary) x every configuration with at most "
        "k non-default axes (10 axes: multiplier update order, low-order iterations, penalty growth, target decrease, tol, "
        "sub-solver iteration cap, warm start, initial multipliers, initial penalties, sub-solver radius). Non-trivial = at "
        "least one constraint is active or weakly active at the solution, or the start is infeasible (measured from the "
        "reference solution and the start).")
ASSUMPTIONS = [
    "sksparse stand-in in /verif/shim",
    "KKT tolerances are derived from the solver's own stopping rule ||[grad L_A; FischerBurmeister(c,lam,kappa0)]|| < tol "
    "with the bound |phi(a,b)| >= (2-sqrt2)|min(a,b)|: c_i >= -1.71 tol/kappa0_i, lam_i >= 0 exactly, "
    "|lam_i c_i| <= 1.71 tol max(|c_i|, lam_i/kappa0_i), ||grad f - J^T lam|| <= tol (1 + 1.71 sum ||grad c_i|| max(1, kappa_i/kappa0_i)); "
    "all quantities recomputed in numpy from the returned x and objective.lam / objective.kappa",
    "'whenever it returns normally': the NameError raised after max_al_iters and other exceptional exits are counted, not violations",
    "convex oracle: unique minimiser of the QP by enumerating all 2^m active sets (linear constraints, SPD quadratic); disk by a 1-D secular equation",
]
TOLERANCES = {"kkt": "see assumptions (x1.05 safety, + 1e-12 absolute)",
              "convex minimiser": "||x-x*|| <= 1e3 * tol * (1+||x*||) * max(1,kappa/kappa0) / min(lambda_min,1)"}
HORIZON_S = 60.0
FB = 1.0 / (2.0 - math.sqrt(2.0))


def _axes():
    return [
        Axis("so", [("T", True), ("F", False)]),
        Axis("nlow", [("3", 3), ("0", 0)]),
        Axis("pscale", [("4", 4.0), ("1", 1.0), ("10", 10.0)]),
        Axis("tdec", [("0.75", 0.75), ("0.1", 0.1)]),
        Axis("tol", [("1e-8", 1e-8), ("1e-5", 1e-5)]),
        Axis("submax", [("100", 100), ("2", 2)]),
        Axis("ws", [("T", True), ("F", False)]),
        # "near": the exact multipliers of the reference solution + 4e-7 (a nearly exact warm start of the multipliers makes
        # the total residual small during the first, loosely solved, outer iterations; added after a seeded change that
        # compared it with the ramped sub-problem tolerance went undetected)
        Axis("lam0", [("0", 0.0), ("1", 1.0), ("10", 10.0), ("near", "near")]),
        Axis("kap0", [("1", 1.0), ("0.25", 0.25), ("100", 100.0)]),
        Axis("tr", [("2", 2.0), ("1e-2", 1e-2)]),
        # updatePrecond=False: the caller manages the preconditioner (the harness assembles it at the start point before
        # the call).  The objective always still carries the PREVIOUS load step's parameters on entry (added after a
        # seeded change that stored the requested parameters only on the warm-start / preconditioner-update paths went
        # undetected: the problem solved was the previous step's)
        Axis("up", [("T", True), ("F", False)]),
    ]


def _k(tier, objlabel):
    if tier == "quick":
        return 2 if objlabel == "spd1" else 1
    return 3 if objlabel == "spd1" else 2


def bounds(tier):
    from mc.core import n_deviations
    ax = _axes()
    return {"axes": {a.name: a.labels for a in ax},
            "k": {o: _k(tier, o) for o in ("spd1", "spd100", "indef")},
            "configs_by_k": {str(k): n_deviations(ax, k) for k in (1, 2, 3)}, "horizon_s": HORIZON_S}


PATTERNS = {
    1: [("inactive",), ("active",), ("weak",)],
    2: [("inactive", "inactive"), ("active", "inactive"), ("active", "active"), ("weak", "inactive"),
        ("dup", "dup"), ("active", "parallel")],
}


def groups(tier, seed):
    gs = []
    for o in ("spd1", "spd100", "indef"):
        for m in (1, 2):
            for pat in PATTERNS[m]:
                gs.append({"name": "lin-%s-m%d-%s" % (o, m, "+".join(pat)), "kind": "lin", "obj": o, "m": m, "pat": list(pat)})
    gs.append({"name": "disk-spd1", "kind": "disk", "obj": "spd1"})
    gs.append({"name": "disk-indef", "kind": "disk", "obj": "indef"})
    for sc in ("noscale", "scaled"):
        for o in ("spd1", "spd100"):
            gs.append({"name": "bound-%s-%s" % (o, sc), "kind": "bound", "obj": o, "scaled": sc == "scaled", "css": 1.0})
    # constraintStiffnessScaling != 1 (the scaling of the constrained dofs then differs from sqrt(diag K)); added after
    # a seeded change that was only visible with this option went undetected
    for css in (0.05, 8.0):
        gs.append({"name": "bound-spd100-scaled-css%g" % css, "kind": "bound", "obj": "spd100", "scaled": True, "css": css})
    # heaviest first
    gs.sort(key=lambda g: (0 if g["obj"] == "spd1" else 1, g["name"]))
    return gs


def _objective_data(o, seed, n=2):
    from mc.ref import objectives as R
    spec, basis = {"spd1": ("spd1", "I"), "spd100": ("spd100", "G"), "indef": ("indef", "G")}[o]
    return R.quartic_data(n, spec, basis, seed)


def _lin_constraints(d, pat, xstar):
    """G, h relative to the unconstrained minimiser xstar; returns (G, h)."""
    g1 = onp.array([1.0, 0.5])
    g2 = onp.array([-0.3, 1.0])
    G, h = [], []
    for i, kind in enumerate(pat):
        g = g1 if i == 0 else g2
        if kind == "inactive":
            G.append(g); h.append(g @ xstar - 1.0)
        elif kind == "active":
            G.append(g); h.append(g @ xstar + 0.5)
        elif kind == "weak":
            G.append(g); h.append(g @ xstar)
        elif kind == "dup":
            G.append(g1); h.append(g1 @ xstar + 0.5)
        elif kind == "parallel":
            G.append(2.0 * g1); h.append(2.0 * (g1 @ xstar) - 1.0)
    return onp.array(G), onp.array(h)


def _qp_min(A, b, G, h, with_multipliers=False):
    """Exact minimiser of 1/2x'Ax-b'x s.t. Gx-h>=0 by active-set enumeration."""
    m, n = G.shape
    best, bestv, bestlam = None, onp.inf, onp.zeros(m)
    for act in itertools.product((0, 1), repeat=m):
        idx = [i for i in range(m) if act[i]]
        if idx:
            Ga = G[idx]
            if onp.linalg.matrix_rank(Ga) < len(idx):
                continue
            K = onp.block([[A, -Ga.T], [Ga, onp.zeros((len(idx), len(idx)))]])
            sol = onp.linalg.solve(K, onp.concatenate([b, h[idx]]))
            x, lam = sol[:n], sol[n:]
            if onp.any(lam < -1e-12):
                continue
        else:
            x = onp.linalg.solve(A, b)
            lam = onp.zeros(0)
        if onp.any(G @ x - h < -1e-10):
            continue
        v = 0.5 * x @ A @ x - b @ x
        if v < bestv:
            best, bestv = x, v
            bestlam = onp.zeros(m)
            bestlam[idx] = lam
    return (best, bestlam) if with_multipliers else best


def run_group(g, tier, seed, rec):
    import jax.numpy as jnp
    from optimism import AlSolver, EquationSolver as ES, Objective
    from optimism.ConstrainedObjective import ConstrainedObjective
    from mc.ref import objectives as R
    from mc.runner import exception_key

    d = _objective_data(g["obj"], seed)
    n = 2
    xstar = R.q_minimiser(d)
    axes = _axes()
    configs = list(deviations(axes, _k(tier, g["obj"])))
    convex = g["obj"] in ("spd1", "spd100")

    def f(x, p):
        return 0.5 * x @ (p[2] @ x) - p[0] @ x + 0.25 * p[3] * jnp.sum(x ** 4)

    def P(scale_b, cdata):
        return Objective.Params(bc_data=jnp.array(scale_b * d["b"]), state_data=cdata, design_data=jnp.array(d["A"]),
                                app_data=jnp.array(d["c4"]))

    if g["kind"] == "bound":
        return _run_bound(g, tier, seed, rec, d, xstar, configs, f, P)

    if g["kind"] == "lin":
        G, h = _lin_constraints(d, g["pat"], xstar)
        m = len(h)
        cdata = (jnp.array(G), jnp.array(h))

        def cfun(x, p):
            return p[1][0] @ x - p[1][1]

        def c_ref(x):
            return G @ x - h

        def J_ref(x):
            return G
        gdir = G[0] / onp.linalg.norm(G[0])
        xb = xstar + gdir * ((h[0] - G[0] @ xstar) / (G[0] @ gdir))      # on the first constraint boundary
        starts = [("feasible", xstar + 3.0 * gdir + 3.0 * onp.array([0.1, 1.0])), ("infeasible", xstar - 2.0 * gdir),
                  ("boundary", xb)]
        # make the "feasible" start really feasible for all constraints
        s = starts[0][1]
        t = 0
        while onp.any(c_ref(s) < 0.1) and t < 50:
            s = s + G.T @ onp.maximum(0.2 - c_ref(s), 0) + 0.5 * gdir
            t += 1
        starts[0] = ("feasible", s)
        xref, lamref = _qp_min(d["A"], d["b"], G, h, with_multipliers=True) if convex else (None, None)
        label = "lin:m%d:%s" % (m, "+".join(g["pat"]))
    else:
        xc = xstar + onp.array([1.5, 0.5])
        r = 1.0
        m = 1
        cdata = (jnp.array(xc), jnp.array(r))

        def cfun(x, p):
            return jnp.array([p[1][1] ** 2 - jnp.sum((x - p[1][0]) ** 2)])

        def c_ref(x):
            return onp.array([r ** 2 - onp.sum((x - xc) ** 2)])

        def J_ref(x):
            return (-2.0 * (x - xc)).reshape(1, -1)
        starts = [("feasible", xc + onp.array([0.1, -0.2])), ("infeasible", xc + onp.array([3.0, 1.0])),
                  ("boundary", xc + onp.array([0.0, 1.0]))]
        xref = None
        lamref = None
        if convex:
            # minimise 1/2x'Ax-b'x on the disk: x(mu) = (A + mu I)^-1 (b + mu xc), find mu>=0 with |x-xc|=r
            A, b = d["A"], d["b"]
            fm = lambda mu: onp.linalg.norm(onp.linalg.solve(A + mu * onp.eye(n), b + mu * xc) - xc) - r
            if fm(0.0) <= 0:
                xref = onp.linalg.solve(A, b)
            else:
                lo, hi = 0.0, 1.0
                while fm(hi) > 0:
                    hi *= 2
                for _ in range(200):
                    mid = 0.5 * (lo + hi)
                    lo, hi = (mid, hi) if fm(mid) > 0 else (lo, mid)
                xref = onp.linalg.solve(A + hi * onp.eye(n), b + hi * xc)
        label = "disk"

    pnew, pold = P(1.0, cdata), P(0.5, cdata)
    objs = {}
    sample_budget = [2]
    for sl, x0 in starts:
        for ndev, cfgid, clab, cval in configs:
            cid = "obj=%s;cons=%s;start=%s;%s" % (g["obj"], label, sl, cfgid)
            if not rec.want(cid):
                continue
            kap0 = onp.full(m, cval["kap0"])
            if cval["lam0"] == "near":
                if lamref is None:
                    continue        # no exact reference multipliers for this constraint set
                lam0 = onp.maximum(lamref + 4e-7, 0.0)
            else:
                lam0 = onp.full(m, cval["lam0"])
            if clab["kap0"] not in objs:
                objs[clab["kap0"]] = ConstrainedObjective(f, cfun, jnp.array(x0), pold, jnp.array(lam0), jnp.array(kap0))
            obj = objs[clab["kap0"]]
            obj.lam = jnp.array(lam0)
            obj.kappa = jnp.array(kap0)
            obj.p = pold
            if not cval["up"]:
                with contextlib.redirect_stdout(io.StringIO()):
                    obj.update_precond(jnp.array(x0))
            alS = AlSolver.get_settings(penalty_scaling=cval["pscale"], target_constraint_decrease_factor=cval["tdec"],
                                        use_second_order_update=cval["so"],
                                        num_initial_low_order_iterations=cval["nlow"], tol=cval["tol"])
            subS = ES.get_settings(tol=cval["tol"], max_trust_iters=cval["submax"], tr_size=cval["tr"])
            trace = []

            def cb(x, p):
                trace.append((onp.array(x, dtype=float), onp.array(obj.lam, dtype=float), onp.array(obj.kappa, dtype=float)))
            buf = io.StringIO()
            outcome = None
            try:
                with contextlib.redirect_stdout(buf), horizon(HORIZON_S):
                    xr = AlSolver.augmented_lagrange_solve(obj, jnp.array(x0), pnew, alS, subS, callback=cb,
                                                           useWarmStart=cval["ws"], updatePrecond=cval["up"])
            except HorizonExceeded:
                rec.noverdict(cid, "horizon")
                continue
            except NameError:
                outcome = "not-converged-max-al-iters"
            except Exception as e:  # noqa
                ek = exception_key(e)
                if ek.endswith("@harness"):
                    raise
                outcome = "exceptional-exit:" + ek
            _monitor(rec, cid, trace, "AL|%s|%s" % (label, g["obj"]), clab)
            if outcome is not None:
                rec.branch("exit:" + outcome.split(":")[0])
                rec.case(cid, nontrivial=False, outcome=outcome, steps=max(1, len(trace)))
                continue
            rec.branch("exit:returned")
            out = buf.getvalue()
            for msg, nm in (("Poor progress on ncp", "penalty-increase"), ("no improvement", "second-order-linesearch-cutback"),
                            ("Total error after 2nd order update", "second-order-update"),
                            ("num warm start cg iters", "warm-start"), ("Reached the maximum number", "sub-solver-max-iters")):
                if msg in out:
                    rec.branch(nm)
            xr = onp.array(xr, dtype=float)
            lam = onp.array(obj.lam, dtype=float)
            kap = onp.array(obj.kappa, dtype=float)
            sigs = _kkt(rec, xr, lam, kap, kap0, cval["tol"], R.q_grad(xr, d), c_ref(xr), J_ref(xr))
            if xref is not None and not sigs:
                lmin = min(float(onp.min(d["lam"])), 1.0)
                bound = 1e3 * cval["tol"] * (1 + onp.linalg.norm(xref)) * max(1.0, float(onp.max(kap / kap0))) / lmin
                err = float(onp.linalg.norm(xr - xref))
                rec.track_max("convex_minimiser_error_over_bound", err / bound)
                if not err <= bound:
                    sigs.append(("not-the-constrained-minimiser", {"error": err, "expected": xref}))
            same_p = onp.array_equal(onp.asarray(obj.p[0]), onp.asarray(pnew[0]))
            if not same_p:
                sigs.append(("objective.p-not-requested", {}))
            for sig, extra in sigs:
                rec.violation("AL|%s|%s|start=%s|%s" % (label, g["obj"], sl, sig), cid,
                              dict({"labels": dict(clab), "x0": x0, "returned": xr, "lam": lam, "kappa": kap,
                                    "c": c_ref(xr), "outer_iterations": len(trace)}, **extra))
            cs = c_ref(xr)
            active = bool(onp.any(cs < 1e-6)) or sl == "infeasible"
            samp = None
            if sample_budget[0] > 0 and stable_hash(cid + str(seed)) % 30 == 0:
                sample_budget[0] -= 1
                samp = {"case": cid, "returned": xr, "lam": lam, "kappa": kap, "c": cs, "outer_iterations": len(trace)}
            rec.case(cid, nontrivial=active, outcome="returned:%s" % ("ok" if not sigs else "violating"), sample=samp,
                     steps=max(1, len(trace)))


def _monitor(rec, cid, trace, keyprefix, clab):
    for i, (x, lam, kap) in enumerate(trace):
        rec.state("%s|it=%d|nact=%d|kgrow=%d" % (keyprefix, min(i, 20), int(onp.sum(lam > 0)),
                                                 int(onp.sum(kap > trace[0][2]))))
        if onp.any(lam < 0) or onp.any(lam != lam):
            rec.violation(keyprefix + "|monitor|negative-or-nan-multiplier", cid, {"iteration": i, "lam": lam, "labels": dict(clab)})
            break
        if i > 0 and onp.any(kap < trace[i - 1][2]):
            rec.violation(keyprefix + "|monitor|penalty-decreased", cid,
                          {"iteration": i, "kappa": kap, "previous": trace[i - 1][2], "labels": dict(clab)})
            break


def _kkt(rec, x, lam, kap, kap0, tol, gradf, c, J, scale=None):
    """Returns list of (signature, extra). All inputs numpy; gradf/c/J from the reference side."""
    sigs = []
    sf = 1.05
    if not onp.all(onp.isfinite(x)):
        return [("non-finite-return", {})]
    if onp.any(lam < 0):
        sigs.append(("negative-multiplier", {}))
    cb = -FB * tol / kap0 * sf - 1e-12
    rec.track_max("kkt_feasibility_over_bound", float(onp.max(-c / (FB * tol / kap0))))
    if onp.any(c < cb):
        sigs.append(("constraint-violated", {"c": c, "bound": cb}))
    compl = onp.abs(lam * c)
    cbnd = FB * tol * onp.maximum(onp.abs(c), lam / kap0) * sf + 1e-12
    rec.track_max("kkt_complementarity_over_bound", float(onp.max(compl / cbnd)))
    if onp.any(compl > cbnd):
        sigs.append(("complementarity-violated", {"lam*c": compl, "bound": cbnd}))
    r = gradf - J.T @ lam
    gn = onp.linalg.norm(J, axis=1)
    rb = tol * (1 + FB * float(onp.sum(gn * onp.maximum(1.0, kap / kap0)))) * sf + 1e-12
    rec.track_max("kkt_stationarity_over_bound", float(onp.linalg.norm(r) / rb))
    if not onp.linalg.norm(r) <= rb:
        sigs.append(("lagrangian-gradient-not-zero", {"norm": float(onp.linalg.norm(r)), "bound": rb}))
    return sigs


def _run_bound(g, tier, seed, rec, d, xstar, configs, f, P):
    """Bound-constrained front end: x[idx] >= 0, with and without variable scaling (precondStrategy)."""
    import jax.numpy as jnp
    from scipy.sparse import csc_matrix
    from optimism import AlSolver, EquationSolver as ES, Objective, BoundConstrainedSolver
    from optimism.BoundConstrainedObjective import BoundConstrainedObjective
    from mc.ref import objectives as R
    from mc.runner import exception_key
    n = 2
    A, b = d["A"], d["b"]
    # shift variables so that the unconstrained minimiser sits at a chosen place relative to the bound x_i >= 0:
    # f_s(x) = f(x + t) has minimiser xstar - t
    placements = {"inactive": xstar - onp.array([1.0, 1.5]), "active": xstar + onp.array([0.7, 0.4]),
                  "weak": xstar.copy(), "mixed": xstar + onp.array([0.7, -1.0])}
    idxsets = {"i0": [0], "i01": [0, 1]}
    css = float(g.get("css", 1.0))
    # only deviations of axes that exist for this front end (lam0/kap0 are fixed by the library here)
    configs = [c for c in configs if c[2]["lam0"] == "0" and c[2]["kap0"] == "1"]   # (library fixes lam0/kap0 here)

    def fs(x, p):
        return f(x + p[1], p)

    sample_budget = [2]
    for pl, t in placements.items():
        for il, idx in idxsets.items():
            idxa = onp.array(idx)
            # reference: minimise shifted QP subject to x[idx] >= 0
            G = onp.eye(n)[idx]
            bs = b - A @ t
            xref = _box_ref(A, bs, idx)
            for sl, x0 in (("feasible", onp.array([1.0, 2.0])), ("boundary", onp.array([0.0, 1.0])),
                           ("infeasible", onp.array([-1.0, -0.5]))):
                pnew = P(1.0, jnp.array(t))
                pold = P(0.5, jnp.array(t))
                ps = None
                if g["scaled"]:
                    ps = Objective.PrecondStrategy(lambda x, p: csc_matrix(onp.array(d["A"]) + 3.0 * d["c4"] * onp.diag(onp.array(x + p[1]) ** 2)))
                try:
                    obj = BoundConstrainedObjective(fs, jnp.array(x0), pold, jnp.array(idxa),
                                                    constraintStiffnessScaling=css, precondStrategy=ps)
                except Exception as e:  # noqa
                    ek = exception_key(e)
                    if ek.endswith("@harness"):
                        raise
                    rec.violation("BCS|%s|construct|%s" % ("scaled" if g["scaled"] else "noscale", ek),
                                  "obj=%s;place=%s;idx=%s;start=%s" % (g["obj"], pl, il, sl), {"error": repr(e)})
                    continue
                for ndev, cfgid, clab, cval in configs:
                    cid = "obj=%s;cons=bound:%s%s:%s:%s;start=%s;%s" % (g["obj"], "scaled" if g["scaled"] else "noscale",
                                                                        "" if css == 1.0 else "-css%g" % css, pl, il, sl, cfgid)
                    if not rec.want(cid):
                        continue
                    obj.p = pold
                    obj.lam = jnp.zeros(len(idx))
                    obj.reset_kappa()
                    if not cval["up"]:
                        with contextlib.redirect_stdout(io.StringIO()):
                            obj.update_precond(obj.scaling * jnp.array(x0))
                    alS = AlSolver.get_settings(penalty_scaling=cval["pscale"], target_constraint_decrease_factor=cval["tdec"],
                                                use_second_order_update=cval["so"],
                                                num_initial_low_order_iterations=cval["nlow"], tol=cval["tol"])
                    subS = ES.get_settings(tol=cval["tol"], max_trust_iters=cval["submax"], tr_size=cval["tr"])
                    trace = []

                    def cb(x, p):
                        trace.append((onp.array(x, dtype=float), onp.array(obj.lam, dtype=float), onp.array(obj.kappa, dtype=float)))
                    outcome = None
                    buf = io.StringIO()
                    try:
                        with contextlib.redirect_stdout(buf), horizon(HORIZON_S):
                            xr = BoundConstrainedSolver.bound_constrained_solve(obj, jnp.array(x0), pnew, alS, subS,
                                                                                callback=cb, useWarmStart=cval["ws"],
                                                                                updatePrecond=cval["up"])
                    except HorizonExceeded:
                        rec.noverdict(cid, "horizon")
                        continue
                    except NameError:
                        outcome = "not-converged-max-al-iters"
                    except Exception as e:  # noqa
                        ek = exception_key(e)
                        if ek.endswith("@harness"):
                            raise
                        outcome = "exceptional-exit:" + ek
                    kp = "BCS|%s|%s" % ("scaled" if g["scaled"] else "noscale", g["obj"])
                    _monitor(rec, cid, trace, kp, clab)
                    if outcome is not None:
                        rec.branch("exit:" + outcome.split(":")[0])
                        rec.case(cid, nontrivial=False, outcome=outcome, steps=max(1, len(trace)))
                        continue
                    rec.branch("exit:returned")
                    xr = onp.array(xr, dtype=float)
                    S = onp.array(obj.scaling, dtype=float) * onp.ones(n)
                    # independent scaling: sqrt(diag K0) at x0 under the parameters at construction
                    Sref = onp.sqrt(onp.diag(R.q_hess(x0 + t, d))) if g["scaled"] else onp.ones(n)
                    if g["scaled"]:
                        Sref[idxa] = Sref[idxa] / css      # documented: constrained dofs are scaled by 1/constraintStiffnessScaling more
                    sigs = []
                    if not onp.allclose(S, Sref, rtol=1e-12, atol=0):
                        sigs.append(("scaling-not-sqrt-of-stiffness-diagonal", {"scaling": S, "expected": Sref}))
                    lam = onp.array(obj.lam, dtype=float)
                    kap = onp.array(obj.kappa, dtype=float)
                    kap0 = onp.full(len(idx), 0.25)
                    xbar = Sref * xr
                    gradbar = R.q_grad(xr + t, d) / Sref          # gradient of the scaled objective w.r.t. xbar
                    sigs += _kkt(rec, xbar, lam, kap, kap0, cval["tol"], gradbar, xbar[idxa], onp.eye(n)[idx])
                    mult = onp.array(obj.get_multipliers(), dtype=float)
                    if not onp.allclose(mult, lam * Sref[idxa], rtol=1e-12, atol=0):
                        sigs.append(("get_multipliers-not-unscaled", {"got": mult, "expected": lam * Sref[idxa]}))
                    if xref is not None and not [s for s in sigs if s[0] != "scaling-not-sqrt-of-stiffness-diagonal"]:
                        lmin = min(float(onp.min(d["lam"])), 1.0)
                        bound = 1e3 * cval["tol"] * (1 + onp.linalg.norm(xref)) * max(1.0, float(onp.max(kap / kap0))) \
                            * float(onp.max(Sref) / onp.min(Sref)) / lmin
                        err = float(onp.linalg.norm(xr - xref))
                        rec.track_max("bound_minimiser_error_over_bound", err / bound)
                        if not err <= bound:
                            sigs.append(("not-the-constrained-minimiser", {"error": err, "expected": xref}))
                    for sig, extra in sigs:
                        rec.violation("%s|place=%s|start=%s|%s" % (kp, pl, sl, sig), cid,
                                      dict({"labels": dict(clab), "x0": x0, "returned": xr, "lam": lam, "kappa": kap,
                                            "shift": t, "idx": idx}, **extra))
                    samp = None
                    if sample_budget[0] > 0 and stable_hash(cid + str(seed)) % 30 == 0:
                        sample_budget[0] -= 1
                        samp = {"case": cid, "returned": xr, "lam": lam, "kappa": kap, "expected": xref}
                    rec.case(cid, nontrivial=(pl != "inactive" or sl == "infeasible"),
                             outcome="returned:%s" % ("ok" if not sigs else "violating"), sample=samp,
                             steps=max(1, len(trace)))


def _box_ref(A, b, idx):
    n = b.size
    best, bestv = None, onp.inf
    for act in itertools.product((0, 1), repeat=len(idx)):
        fixed = [i for i, a in zip(idx, act) if a]
        free = [i for i in range(n) if i not in fixed]
        x = onp.zeros(n)
        if free:
            x[free] = onp.linalg.solve(A[onp.ix_(free, free)], b[free])
        if any(x[i] < -1e-12 for i in idx):
            continue
        v = 0.5 * x @ A @ x - b @ x
        if v < bestv:
            best, bestv = x, v
    return best
