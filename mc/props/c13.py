"""C13 -- mesh construction / merging / reading / order elevation keep meshes valid.

E-BFS over mesh operations on the real code (optimism/Mesh.py, ReadExodusMesh.py, ReadMesh.py,
Interpolants.py). A state is a mesh together with the history that reached it; meshes are immutable
values, so the live mesh is carried along (stateless in the sense that a history determines its
state and `--replay` re-walks exactly that history). States are de-duplicated on a canonical key
of the property-relevant content. The oracle is mc/ref/mesh_ref.py (python sets, a brute-force edge
dictionary, O(n^2) distance checks; no optimism import).

Three families share one explorer and differ only in their initial states and action alphabets:

A  rotation family: every structured size, Delaunay(seed), meshes with a hole, each with ALL 3^ne
   cyclic vertex rotations (ne <= 4) or a fixed pattern set; actions elevate / create_nodesets_from_
   sidesets; create_edges is evaluated in every reached state.
B  merge family: a small alphabet of degree-1 meshes (a plain structured mesh, a decorated rotated
   Delaunay mesh, a mesh read from a harness-written Exodus file, ...); actions merge(partner, naming
   mode), elevate, create_nodesets_from_sidesets, to depth 3.
F/J file family: harness-written Exodus (tri3 / tri6) and JSON files; actions read, then elevate etc.
"""
import hashlib
import itertools
import json
import os
import shutil
import tempfile

import numpy as onp

ID = "C13"
TITLE = "Mesh generator / order elevation / combine_mesh / file readers / create_edges keep meshes valid and lose nothing"
LEVEL = "model_checking"
RULE = ("E-BFS over histories of mesh operations, depth <= 3, complete for the stated alphabets, de-duplicated on "
        "canon = hash(element type, degree, coordinates rounded to 1e-12, connectivity, blocks, node sets, side sets). "
        "Initial states: construct_structured_mesh(Nx,Ny) for all 2<=Nx,Ny<=4 (thorough: also 2x5, 5x5), "
        "Delaunay(seed) of 6..9 points (thorough: a second seeded family), meshes with a hole; each with all 3^ne cyclic "
        "vertex rotations of the elements when ne<=4 and four (thorough: six) rotation patterns otherwise, with "
        "harness-attached node sets / side sets / two blocks and, unrotated, also exactly as the library generates it; "
        "harness-written Exodus files (tri3/tri6 x 1..3 blocks x named/unnamed/mixed x sets present/absent x node "
        "numbering x container variant) and JSON files. Actions: elevate(p in 2..5, bubble, copyNodeSets, "
        "createNodeSetsFromSideSets): all 32 variants on initial meshes (quick tier: on exhaustive rotations other than "
        "the four named patterns the 8-variant sub-alphabet that covers every (p, bubble) once and every flag pair "
        "twice), the 8-variant sub-alphabet on states of depth >= 1; merge(partner in the merge alphabet, names "
        "disjoint / equal / absent); read(file); create_nodesets_from_sidesets; create_edges is called on the vertex "
        "connectivity of every distinct reached mesh. A case = one distinct reached mesh (case id = the history that "
        "first reached it). Non-trivial = reached by at least one library operation after construction AND the mesh has "
        "at least one interior edge AND (degree >= 2 or a non-empty node/side set or a non-identity vertex rotation) "
        "-- all measured on the reached mesh.")
ASSUMPTIONS = [
    "reference model mc/ref/mesh_ref.py: python sets, brute-force edge dictionary keyed by vertex pairs, O(n^2) node "
    "distance check; never imports optimism",
    "the reference-element nodes are the ones the returned mesh itself carries (mesh.parentElement.coordinates / "
    ".vertexNodes); side nodes are identified geometrically (zero barycentric coordinate), not through the library's "
    "face table",
    "merging is explored inside a small merge alphabet: combine_mesh never looks at the vertex order inside an "
    "element, so the exhaustive rotation family adds nothing to it; partners are translated so bodies do not overlap "
    "(otherwise coincident nodes would be legitimate)",
    "combine_mesh requires degree 1 and at least one block per mesh, create_higher_order_mesh_from_simplex_mesh "
    "requires a degree-1 input, createNodeSetsFromSideSets requires sideSets not None: inadmissible combinations are "
    "not executed (counted as skipped branches); read_json_mesh returns blocks=None, so JSON meshes are not merged",
    "entities are identified across merge / read through exact coordinates (inputs have no coincident nodes)",
    "empty side sets enter only through the merge mode equal-emptyss (a zero-length netCDF dimension cannot be written, so files never carry them)",
    "violating states are not expanded (one defect -> one key); a lossy merge is a transition failure and its "
    "result, if valid, is still expanded",
]
TOLERANCES = {
    "affine image of reference-element nodes": "1e-13 * max(element diameter, largest |coordinate| of its vertices)",
    "no two nodes coincide": "distance > 1e-9 * bounding-box size",
    "counter-clockwise": "signed area > 0 exactly",
    "index sets, edge table, set inclusion, node counts, coordinates on read/merge": "exact",
}

XEXT = [0.0, 1.5]
YEXT = [-0.5, 0.75]
ORDERS = (2, 3, 4, 5)
ELEV_FULL = [(p, b, c, n) for p in ORDERS for b in (0, 1) for c in (0, 1) for n in (0, 1)]
ELEV_SUB = [(p, b, i % 2, (i // 2) % 2) for i, (p, b) in enumerate((p, b) for p in ORDERS for b in (0, 1))]
# equal-emptyss: as "equal", but the partner's first side set (which then shares its name with a populated set of the
# first mesh) is EMPTY, as Surface.create_edges returns when nothing matches (added after a seeded change that let an
# empty second set overwrite the first mesh's members went undetected)
# asis: the partner is handed over exactly as its producer returned it (a mesh read from an Exodus file carries its sets
# as plain numpy arrays, the generators as jax arrays), only translated with Mesh.mesh_with_coords, and the same two
# objects are merged twice (added after a seeded change that offset the second mesh's numpy sets IN PLACE went
# undetected: the first merge is right, the input mesh and every later merge that uses it are not)
MODES = ("disjoint", "equal", "absent", "equal-emptyss", "asis")
MAXD = 3
CHUNK = 21
CONTAINERS = {
    "c0": ("NETCDF3_64BIT_OFFSET", 256, "map", "upper"),
    "c1": ("NETCDF4", 33, "nomap", "short"),
    "c2": ("NETCDF4_CLASSIC", 256, "nomap", "upper"),
    "c3": ("NETCDF3_CLASSIC", 33, "map", "lower"),
}
BFILE = "x:ring6:mix:tri3:b2:mixed:both:natural:c0"
SMOKE = ("A-s2x2-0", "B-0-1", "F-ring8-tri6", "J-ring8")


# ----------------------------------------------------------------------------------------- enumeration
def _geoms(tier):
    g = ["s%dx%d" % (nx, ny) for nx in range(2, 5) for ny in range(2, 5)]
    g += ["d6", "d7", "d8", "d9", "ring6", "ring8"]
    if tier != "quick":
        g += ["s2x5", "s5x5", "e7", "e9", "grid4h"]
    return g


def _harness_geometry(geom, seed):
    from mc.ref import mesh_ref as R
    if geom[0] == "d":
        return R.delaunay_mesh(int(geom[1:]), seed)
    if geom[0] == "e":
        return R.delaunay_mesh(int(geom[1:]), seed + 57)
    if geom[0] == "g" and geom != "grid4h":
        nx, ny = int(geom[1]), int(geom[3])
        return R.grid_mesh(nx, ny)
    return R.ring_mesh(geom)


def _ne(geom, seed):
    if geom[0] == "s":
        return 2 * (int(geom[1]) - 1) * (int(geom[3]) - 1)
    return len(_harness_geometry(geom, seed)[1])


def _pattern(label, ne, seed):
    if label == "id":
        return [0] * ne
    if label == "all1":
        return [1] * ne
    if label == "all2":
        return [2] * ne
    if label == "mix":
        return [(e + e // 3) % 3 for e in range(ne)]
    if label == "mix2":
        return [(2 * e + 1) % 3 for e in range(ne)]
    if label == "gen":
        rng = onp.random.default_rng(7919 * int(seed) + ne)
        pat = [int(x) for x in rng.integers(0, 3, ne)]
        if len(set(pat)) == 1:
            pat[0] = (pat[0] + 1) % 3
        return pat
    assert label[0] == "r" and len(label) == ne + 1, (label, ne)
    return [int(ch) for ch in label[1:]]


def _rot_labels(ne, tier):
    if ne <= 4:
        return ["r" + "".join(map(str, t)) for t in itertools.product(range(3), repeat=ne)]
    return ["id", "all1", "all2", "mix"] + ([] if tier == "quick" else ["mix2", "gen"])


def _a_inits(geom, tier, seed):
    ne = _ne(geom, seed)
    out = ["%s:%s:sets" % (geom, r) for r in _rot_labels(ne, tier)]
    out.append("%s:%s:plain" % (geom, "r" + "0" * ne if ne <= 4 else "id"))
    return out


def _bmembers(tier):
    return ["s2x2:r00:plain", "d6:mix:sets", BFILE]


def _fgeoms(tier):
    return ["g3x3", "d7", "ring8"]


def _file_specs(geom, etype, nblk, tier):
    out = []
    for rot in ["mix"]:
        for naming in ("named", "unnamed", "mixed"):
            for presence in ("both", "nsonly", "ssonly", "none"):
                for numbering in ("natural", "reversed"):
                    for cont in sorted(CONTAINERS):
                        out.append("x:%s:%s:%s:b%d:%s:%s:%s:%s" % (geom, rot, etype, nblk, naming, presence, numbering, cont))
    return out


def _json_specs(geom, tier):
    rots = ["id", "mix"] if tier == "quick" else ["id", "mix", "gen"]
    return ["j:%s:%s:%s" % (geom, rot, sets) for rot in rots for sets in ("both", "empty")]


def bounds(tier):
    return {"depth": MAXD, "structured_sizes": "all 2..4 x 2..4" + ("" if tier == "quick" else " + 2x5, 5x5"),
            "geometries": _geoms(tier), "rotations": "all 3^ne for ne<=4, else %d patterns" % (4 if tier == "quick" else 6),
            "elevate_variants": {"depth0": ("%d (8 on exhaustive rotations other than id/all1/all2/mix)" % len(ELEV_FULL))
                                 if tier == "quick" else len(ELEV_FULL), "deeper": len(ELEV_SUB)},
            "merge_alphabet": _bmembers(tier), "merge_modes": list(MODES),
            "file_geometries": _fgeoms(tier), "file_axes": {"etype": 2, "blocks": 3, "naming": 3, "presence": 4,
                                                            "numbering": 2, "container": len(CONTAINERS)}}


def groups(tier, seed):
    gs = []
    B = _bmembers(tier)
    for i in range(len(B)):
        for j in range(len(B)):
            gs.append({"name": "B-%d-%d" % (i, j), "fam": "B", "i": i, "j": j})
    heavy, light = [], []
    for geom in _geoms(tier):
        inits = _a_inits(geom, tier, seed)
        chunks = [inits[k:k + CHUNK] for k in range(0, len(inits), CHUNK)]
        for k, ch in enumerate(chunks):
            g = {"name": "A-%s-%d" % (geom, k), "fam": "A", "inits": ch}
            (heavy if len(ch) > 8 else light).append(g)
    gs += heavy
    for geom in _fgeoms(tier):
        for nblk in (1, 2, 3):
            gs.append({"name": "F-%s-tri3-b%d" % (geom, nblk), "fam": "F", "specs": _file_specs(geom, "tri3", nblk, tier)})
    for geom in _fgeoms(tier):
        gs.append({"name": "J-%s" % geom, "fam": "F", "specs": _json_specs(geom, tier)})
    gs += light
    for geom in _fgeoms(tier):
        gs.append({"name": "F-%s-tri6" % geom, "fam": "F",
                   "specs": [s for nblk in (1, 2, 3) for s in _file_specs(geom, "tri6", nblk, tier)]})
    for g in gs:      # `--group smoke` selects a three-group subset touching every routine (development aid)
        if g["name"] in SMOKE:
            g["name"] += "~smoke"
    return gs


# ----------------------------------------------------------------------------------------- harness-side files
def _decorate(vtris, nn):
    """harness-attached sets for a degree-1 mesh (geometric rules through the reference edge dictionary)."""
    from mc.ref import mesh_ref as R
    ne = len(vtris)
    bs = R.boundary_sides(vtris)
    bnodes = sorted({int(vtris[e][s]) for e, s in bs} | {int(vtris[e][(s + 1) % 3]) for e, s in bs})
    nodeSets = {"ns_bnd": bnodes, "ns_two": [nn - 1, 0]}
    sideSets = {"ss_bnd": [list(x) for x in bs], "ss_two": [[0, 0], [ne - 1, 2]]}
    h = (ne + 1) // 2
    blocks = {"blk_a": list(range(h)), "blk_b": list(range(h, ne))} if ne >= 2 else {"blk_a": [0]}
    return blocks, nodeSets, sideSets


def _file_mesh(spec, seed):
    """The abstract mesh a file spec stands for: returns (W, Wpm). W holds what is written (1-based, file
    order), Wpm the same content as a plain mesh (0-based) for the nothing-lost oracle."""
    from mc.ref import mesh_ref as R
    f = spec.split(":")
    kind, geom, rot = f[0], f[1], f[2]
    pts, tris = _harness_geometry(geom, seed)
    tris = R.rotate(tris, _pattern(rot, len(tris), seed))
    assert not R.input_topology_problems(tris)
    ne = len(tris)
    if kind == "j":
        blocks, nodeSets, sideSets = _decorate(tris, len(pts))
        if f[3] == "empty":
            nodeSets, sideSets = {}, {}
        Wpm = {"coords": onp.asarray(pts, dtype=float), "elems": [tuple(t) for t in tris],
               "vtris": [tuple(t) for t in tris], "blocks": None, "nodeSets": nodeSets,
               "sideSets": {k: [tuple(x) for x in v] for k, v in sideSets.items()}}
        return {"kind": "json", "etype": "tri3"}, Wpm
    etype, nblk, naming, presence, numbering, cont = f[3], int(f[4][1:]), f[5], f[6], f[7], f[8]
    # file element order: blocks striped over the element list
    owner = [e % nblk for e in range(ne)]
    order = [e for b in range(nblk) for e in range(ne) if owner[e] == b]
    tris_f = [tris[e] for e in order]
    if etype == "tri6":
        coords, elems = R.make_tri6(pts, tris_f)
    else:
        coords, elems = onp.asarray(pts, dtype=float), [tuple(int(v) for v in t) for t in tris_f]
    vtris = [tuple(el[:3]) for el in elems]
    nn = coords.shape[0]
    bs = R.boundary_sides(vtris)
    bn = set()
    for e, s in bs:
        bn.update((elems[e][s], elems[e][(s + 1) % 3]))
        if etype == "tri6":
            bn.add(elems[e][3 + s])
    ns = [sorted(bn), [elems[-1][-1], elems[0][0]]]
    ss = [[tuple(x) for x in bs], [(0, 0), (ne - 1, 2), (ne // 2, 1)]]
    if numbering == "reversed":
        new_of_old = onp.arange(nn)[::-1].copy()
        coords, elems, _ = R.renumber_nodes(coords, elems, None, new_of_old)
        vtris = [tuple(el[:3]) for el in elems]
        ns = [[int(new_of_old[i]) for i in s_] for s_ in ns]
    names = {"named": (["blk1", "blk2", "blk3"], ["ns_bnd", "ns_two"], ["ss_bnd", "ss_two"]),
             "unnamed": (["", "", ""], ["", ""], ["", ""]),
             "mixed": (["", "blk2", ""], ["ns_bnd", ""], ["", "ss_two"])}[naming]
    counts = [owner.count(b) for b in range(nblk)]
    starts = [sum(counts[:b]) for b in range(nblk)]
    fblocks = [(names[0][b], list(range(starts[b], starts[b] + counts[b]))) for b in range(nblk)]
    has_ns = presence in ("both", "nsonly")
    has_ss = presence in ("both", "ssonly")
    W = {"kind": "exodus", "etype": etype, "coords": coords, "elems": elems, "blocks": fblocks,
         "nodeSets": list(zip(names[1], ns)) if has_ns else None,
         "sideSets": list(zip(names[2], ss)) if has_ss else None, "container": CONTAINERS[cont]}

    def keyed(lst):
        return {(nm if nm else ("unnamed", i)): mem for i, (nm, mem) in enumerate(lst)}
    Wpm = {"coords": coords, "elems": elems, "vtris": vtris, "blocks": keyed(fblocks),
           "nodeSets": keyed(W["nodeSets"]) if has_ns else None,
           "sideSets": keyed(W["sideSets"]) if has_ss else None}
    return W, Wpm


def _put_names(ds, var, dim, names):
    v = ds.createVariable(var, "S1", (dim, "len_name"), fill_value=b"\x00")
    for i, nm in enumerate(names):
        for j, ch in enumerate(nm):
            v[i, j] = ch.encode()


def _write_exodus(path, W):
    import netCDF4
    fmt, len_name, mapmode, style = W["container"]
    et = {"tri3": {"upper": "TRI3", "short": "tri", "lower": "tri3"},
          "tri6": {"upper": "TRI6", "short": "tri6", "lower": "Tri6"}}[W["etype"]][style]
    coords, elems = W["coords"], W["elems"]
    ds = netCDF4.Dataset(path, "w", format=fmt)
    try:
        ds.setncattr("api_version", onp.float32(8.25))
        ds.setncattr("version", onp.float32(8.25))
        ds.setncattr("floating_point_word_size", onp.int32(8))
        ds.setncattr("file_size", onp.int32(1))
        ds.setncattr("maximum_name_length", onp.int32(32))
        ds.setncattr("int64_status", onp.int32(0))
        ds.setncattr("title", "verif C13 harness")
        ds.createDimension("len_name", len_name)
        ds.createDimension("time_step", None)
        ds.createDimension("num_dim", 2)
        ds.createDimension("num_nodes", coords.shape[0])
        ds.createDimension("num_elem", len(elems))
        ds.createDimension("num_el_blk", len(W["blocks"]))
        ds.createVariable("time_whole", "f8", ("time_step",))
        ds.createVariable("eb_status", "i4", ("num_el_blk",))[:] = 1
        v = ds.createVariable("eb_prop1", "i4", ("num_el_blk",))
        v.setncattr("name", "ID")
        v[:] = onp.arange(1, len(W["blocks"]) + 1)
        ds.createVariable("coordx", "f8", ("num_nodes",))[:] = coords[:, 0]
        ds.createVariable("coordy", "f8", ("num_nodes",))[:] = coords[:, 1]
        _put_names(ds, "eb_names", "num_el_blk", [b[0] for b in W["blocks"]])
        _put_names(ds, "coor_names", "num_dim", ["x", "y"])
        npe = len(elems[0])
        for i, (_, mem) in enumerate(W["blocks"]):
            ds.createDimension("num_el_in_blk%d" % (i + 1), len(mem))
            ds.createDimension("num_nod_per_el%d" % (i + 1), npe)
            v = ds.createVariable("connect%d" % (i + 1), "i4", ("num_el_in_blk%d" % (i + 1), "num_nod_per_el%d" % (i + 1)))
            v.setncattr("elem_type", et)
            v[:] = onp.array([elems[e] for e in mem], dtype=onp.int32) + 1
        if W["nodeSets"] is not None:
            ds.createDimension("num_node_sets", len(W["nodeSets"]))
            ds.createVariable("ns_status", "i4", ("num_node_sets",))[:] = 1
            v = ds.createVariable("ns_prop1", "i4", ("num_node_sets",))
            v.setncattr("name", "ID")
            v[:] = onp.arange(1, len(W["nodeSets"]) + 1)
            _put_names(ds, "ns_names", "num_node_sets", [s[0] for s in W["nodeSets"]])
            for i, (_, mem) in enumerate(W["nodeSets"]):
                ds.createDimension("num_nod_ns%d" % (i + 1), len(mem))
                ds.createVariable("node_ns%d" % (i + 1), "i4", ("num_nod_ns%d" % (i + 1),))[:] = onp.array(mem) + 1
        if W["sideSets"] is not None:
            ds.createDimension("num_side_sets", len(W["sideSets"]))
            ds.createVariable("ss_status", "i4", ("num_side_sets",))[:] = 1
            v = ds.createVariable("ss_prop1", "i4", ("num_side_sets",))
            v.setncattr("name", "ID")
            v[:] = onp.arange(1, len(W["sideSets"]) + 1)
            _put_names(ds, "ss_names", "num_side_sets", [s[0] for s in W["sideSets"]])
            for i, (_, mem) in enumerate(W["sideSets"]):
                ds.createDimension("num_side_ss%d" % (i + 1), len(mem))
                ds.createVariable("elem_ss%d" % (i + 1), "i4", ("num_side_ss%d" % (i + 1),))[:] = \
                    onp.array([m[0] for m in mem]) + 1
                ds.createVariable("side_ss%d" % (i + 1), "i4", ("num_side_ss%d" % (i + 1),))[:] = \
                    onp.array([m[1] for m in mem]) + 1
        if mapmode == "map":
            ds.createVariable("elem_num_map", "i4", ("num_elem",))[:] = 100 + onp.arange(len(elems))[::-1]
    finally:
        ds.close()


def _write_json(path, Wpm):
    data = {"coordinates": onp.asarray(Wpm["coords"]).tolist(),
            "connectivity": [list(map(int, el)) for el in Wpm["elems"]],
            "nodeSets": {k: list(map(int, v)) for k, v in Wpm["nodeSets"].items()},
            "sideSets": {k: [[int(m[0]) for m in v], [int(m[1]) for m in v]] for k, v in Wpm["sideSets"].items()}}
    with open(path, "w", encoding="utf-8") as f:
        json.dump(data, f)


# ----------------------------------------------------------------------------------------- explorer
def run_group(g, tier, seed, rec):
    import warnings
    import jax.numpy as jnp
    from optimism import Mesh
    from mc.ref import mesh_ref as R
    from mc.runner import exception_key
    from mc.core import stable_hash

    fam = g["fam"]
    tmpd = tempfile.mkdtemp(prefix="c13_", dir="/dev/shm" if os.path.isdir("/dev/shm") else None)
    only = rec.only

    def on_path(cid):
        return only is None or only == cid or only.startswith(cid + ";")

    # ---- conversions ----------------------------------------------------------------------
    def plain(mesh):
        coords = onp.asarray(mesh.coords)
        conns = onp.asarray(mesh.conns)
        vcols = [int(i) for i in onp.asarray(mesh.parentElement.vertexNodes)]
        if conns.ndim != 2 or conns.shape[1] <= max(vcols):
            return None, ("connectivity-shape", {"shape": list(conns.shape), "vertexNodes": vcols})
        elems = [tuple(r) for r in conns.tolist()]
        vtris = [tuple(r[c] for c in vcols) for r in elems]

        def flat(d):
            return None if d is None else {k: onp.asarray(v).ravel().tolist() for k, v in d.items()}
        ss = None
        if mesh.sideSets is not None:
            ss = {}
            for k, v in mesh.sideSets.items():
                a = onp.asarray(v)
                if a.size == 0:
                    ss[k] = []
                elif a.ndim == 2 and a.shape[1] == 2:
                    ss[k] = [tuple(r) for r in a.tolist()]
                else:
                    return None, ("sideset-shape", {"set": k, "shape": list(a.shape)})
        return {"coords": coords, "elems": elems, "vtris": vtris, "blocks": flat(mesh.blocks),
                "nodeSets": flat(mesh.nodeSets), "sideSets": ss, "vcols": vcols}, None

    def canon(st):
        m = st["mesh"]
        h = hashlib.blake2b(digest_size=12)
        h.update(repr((int(m.parentElement.elementType), int(m.parentElement.degree))).encode())
        h.update(onp.round(onp.asarray(m.coords, dtype=float), 12).tobytes())
        h.update(onp.asarray(m.conns).astype(onp.int64).tobytes())
        h.update(repr(onp.asarray(m.conns).shape).encode())
        for d in (m.blocks, m.nodeSets, m.sideSets):
            if d is None:
                h.update(b"None")
            else:
                for k in sorted(d):
                    a = onp.asarray(d[k])
                    h.update(repr((k, a.shape)).encode())
                    h.update(a.astype(onp.float64).tobytes())
        return h.hexdigest()

    def lib_mesh(coords, vtris, blocks, nodeSets, sideSets):
        def J(d, two=False):
            if d is None:
                return None
            return {k: (jnp.array(onp.asarray(v, dtype=onp.int64).reshape(-1, 2)) if two
                        else jnp.array(onp.asarray(v, dtype=onp.int64))) for k, v in d.items()}
        return Mesh.construct_mesh_from_basic_data(jnp.array(onp.asarray(coords, dtype=float)),
                                                   jnp.array(onp.asarray(vtris, dtype=onp.int64)),
                                                   J(blocks), J(nodeSets), J(sideSets, True))

    # ---- initial states -------------------------------------------------------------------
    geom_cache = {}

    def base_arrays(geom):
        """(coords, vtris, library mesh or None). Structured geometries come from the real generator."""
        if geom not in geom_cache:
            if geom[0] == "s":
                m = Mesh.construct_structured_mesh(int(geom[1]), int(geom[3]), XEXT, YEXT)
                geom_cache[geom] = (onp.asarray(m.coords), [tuple(r) for r in onp.asarray(m.conns).tolist()], m)
            else:
                pts, tris = _harness_geometry(geom, seed)
                geom_cache[geom] = (onp.asarray(pts, dtype=float), [tuple(t) for t in tris], None)
        return geom_cache[geom]

    def build_constructed(label):
        geom, rot, deco = label.split(":")
        coords, vtris, libm = base_arrays(geom)
        ne = len(vtris)
        pat = _pattern(rot, ne, seed)
        rotated = any(pat)
        named = pat in [_pattern(l, ne, seed) for l in ("id", "all1", "all2", "mix")]
        if libm is not None and not rotated and deco == "plain":
            mesh = libm                                       # exactly what the generator returned
            routine = "construct_structured_mesh"
        else:
            tris = R.rotate(vtris, pat)
            if deco == "sets":
                blocks, ns, ss = _decorate(tris, coords.shape[0])
            else:
                blocks, ns, ss = {"block_0": list(range(ne))}, None, None
            mesh = lib_mesh(coords, tris, blocks, ns, ss)
            routine = "construct_mesh_from_basic_data"
        rec.branch("init:" + ("structured" if geom[0] == "s" else "delaunay" if geom[0] in "de" else "hole"))
        rec.branch("rot:" + ("identity" if not rotated else "exhaustive" if rot[0] == "r" else "pattern"))
        return {"mesh": mesh, "p": 1, "bubble": 0, "rk": routine, "rotated": rotated, "nmerge": 0, "named": named}

    def do_read(spec, cid, check=True):
        """write the file for `spec`, call the reader, check that nothing is lost. Returns state or None."""
        W, Wpm = _file_mesh(spec, seed)
        path = os.path.join(tmpd, "m.%s" % ("json" if W["kind"] == "json" else "exo"))
        if os.path.exists(path):
            os.remove(path)
        if W["kind"] == "json":
            from optimism import ReadMesh
            _write_json(path, Wpm)
            routine, call = "read_json_mesh|tri3", lambda: ReadMesh.read_json_mesh(path)
            rec.branch("read:json")
        else:
            from optimism import ReadExodusMesh
            _write_exodus(path, W)
            routine, call = "read_exodus_mesh|" + W["etype"], lambda: ReadExodusMesh.read_exodus_mesh(path)
            rec.branch("read:exodus:" + W["etype"])
            rec.branch("read:blocks=%d" % len(W["blocks"]))
            rec.branch("read:" + ("elem_num_map" if W["container"][2] == "map" else "no-elem_num_map"))
            rec.branch("read:format=" + W["container"][0])
            for kind, tag in (("nodeSets", "node-sets"), ("sideSets", "side-sets")):
                if W[kind] is None:
                    rec.branch("read:no-%s-dimension" % tag)
                elif any(not nm for nm, _ in W[kind]):
                    rec.branch("read:unnamed-%s" % tag)
            if any(not nm for nm, _ in W["blocks"]):
                rec.branch("read:unnamed-block")
        rec.transition()
        try:
            mesh = call()
        except Exception as e:  # noqa
            rec.violation("%s|%s" % (routine, exception_key(e)), cid, {"spec": spec, "error": repr(e)})
            return None
        st = {"mesh": mesh, "p": 2 if W["etype"] == "tri6" else 1, "bubble": 0, "rk": routine,
              "rotated": True, "nmerge": 0}
        if check and rec.want(cid):
            pm, bad = plain(mesh)
            if bad is not None:
                rec.violation("%s|%s" % (routine, bad[0]), cid, dict(bad[1], spec=spec))
                return None
            if not (pm["coords"].shape == Wpm["coords"].shape and onp.array_equal(pm["coords"], Wpm["coords"])):
                rec.violation("%s|coordinates-changed" % routine, cid, {"spec": spec, "read": pm["coords"],
                                                                       "written": Wpm["coords"]})
            for kind, sig, cls, detail in R.loss_problems([Wpm], pm):
                rec.violation("%s|%s|%s" % (routine, kind, sig), cid, dict(detail, spec=spec))
        return st

    # ---- actions --------------------------------------------------------------------------
    def do_elevate(st, p, b, c, n):
        rec.branch("elevate:p%d:b%d" % (p, b))
        if c:
            rec.branch("elevate:copyNodeSets")
        if n:
            rec.branch("elevate:createNodeSetsFromSideSets")
        m = Mesh.create_higher_order_mesh_from_simplex_mesh(st["mesh"], p, useBubbleElement=bool(b),
                                                            copyNodeSets=bool(c), createNodeSetsFromSideSets=bool(n))
        return dict(st, mesh=m, p=p, bubble=b, rk="create_higher_order_mesh|bubble=%d" % b)

    partner_cache = {}

    def partner_base(label):
        """(plain mesh, library mesh) of a merge-alphabet member, or None when the member itself is not a
        valid mesh (reported where it is an initial state; merging with it would only cascade)."""
        if label not in partner_cache:
            partner_cache[label] = None
            if label.startswith("x:"):
                st = do_read(label, "B/" + label, check=False)
                m = None if st is None else st["mesh"]
            else:
                m = build_constructed(label)["mesh"]
            if m is not None:
                pm, bad = plain(m)
                if bad is None and not R.validity_problems(pm):
                    partner_cache[label] = (pm, m)
            if partner_cache[label] is None:
                rec.branch("merge:partner-invalid-skipped")
        return partner_cache[label]

    def names_of(d):
        return [] if d is None else sorted(d)

    def rename(d, first_names, mode, tag):
        if d is None:
            return None
        out = {}
        for i, k in enumerate(sorted(d)):
            if mode in ("equal", "equal-emptyss") and i < len(first_names):
                out[first_names[i]] = d[k]
            else:
                out["%s_%s" % (k, tag)] = d[k]
        return out

    def do_merge(st, label, mode, cid):
        pb = partner_base(label)
        if pb is None:
            return None
        ppm, _ = pb
        m1 = st["mesh"]
        if m1.blocks is None:
            rec.branch("merge:skipped-first-has-no-blocks")
            return None
        d = st["nmerge"] + 1
        tag = "m%d" % d
        blocks = rename(ppm["blocks"], names_of(m1.blocks), mode, tag)
        if mode == "absent":
            ns, ss = None, None
        else:
            ns = rename(ppm["nodeSets"], names_of(m1.nodeSets), mode, tag)
            ss = rename(ppm["sideSets"], names_of(m1.sideSets), mode, tag)
            if mode == "equal-emptyss" and ss:
                ss[sorted(ss)[0]] = []
        coords2 = onp.asarray(ppm["coords"], dtype=float) + onp.array([4.0 * d, 0.25 * d])
        if mode == "asis":
            if label.startswith("x:"):
                fresh = do_read(label, "B/" + label, check=False)
                fresh = None if fresh is None else fresh["mesh"]
            else:
                fresh = build_constructed(label)["mesh"]
            if fresh is None:
                return None
            m2 = Mesh.mesh_with_coords(fresh, jnp.array(coords2))
            rec.branch("merge:asis:sets-are-" + ("numpy" if any(type(v).__module__ == "numpy" for dd in (m2.blocks, m2.nodeSets, m2.sideSets)
                                                                if dd for v in dd.values()) else "jax"))
        else:
            m2 = lib_mesh(coords2, ppm["vtris"], blocks, ns, ss)
        pm2_before, _bad = plain(m2)
        rec.branch("merge:mode=" + mode)
        for kind in ("nodeSets", "sideSets"):
            a, b = getattr(m1, kind), getattr(m2, kind)
            rec.branch("merge:%s:%s" % (kind, "both-none" if a is None and b is None else "first-none" if a is None
                                        else "second-none" if b is None else "both-present"))
        for kind in ("blocks", "nodeSets", "sideSets"):
            if set(names_of(getattr(m1, kind))) & set(names_of(getattr(m2, kind))):
                rec.branch("merge:name-collision:" + kind)
        pm1_before, _bad = plain(m1)
        out, _disp = Mesh.combine_mesh((m1, jnp.zeros_like(m1.coords)), (m2, jnp.ones_like(m2.coords)))
        new = dict(st, mesh=out, p=1, bubble=0, rk="combine_mesh|" + mode, nmerge=d)
        if rec.want(cid):
            pm1, bad1 = plain(m1)
            pm2, bad2 = plain(m2)
            pmo, bado = plain(out)
            assert bad1 is None and bad2 is None, (bad1, bad2)
            names = dict(first=st["hist"], partner=label, mode=mode,
                         first_names={k: names_of(getattr(m1, k)) for k in ("blocks", "nodeSets", "sideSets")},
                         partner_names={k: names_of(getattr(m2, k)) for k in ("blocks", "nodeSets", "sideSets")})
            # merging must not turn an existing (input) mesh into a different one
            for which, before, after in (("first", pm1_before, pm1), ("second", pm2_before, pm2)):
                for kind in ("blocks", "nodeSets", "sideSets"):
                    if before[kind] != after[kind]:
                        rec.violation("combine_mesh|input-mesh-modified|%s" % kind, cid,
                                      dict(names, which=which, before=before[kind], after=after[kind]))
            if bado is None:
                for kind, sig, cls, detail in R.loss_problems([pm1_before, pm2_before], pmo):
                    key = "combine_mesh|%s|%s|%s" % (cls, kind, sig) if cls != "n/a" else "combine_mesh|%s|%s" % (kind, sig)
                    rec.violation(key, cid, dict(detail, **names))
            if mode == "asis":
                # the same two mesh objects merged a second time must give the same lossless result
                rec.transition()
                out2, _d2 = Mesh.combine_mesh((m1, jnp.zeros_like(m1.coords)), (m2, jnp.ones_like(m2.coords)))
                pmo2, bado2 = plain(out2)
                if bado2 is not None:
                    rec.violation("combine_mesh|second-use-of-the-same-inputs|%s" % bado2[0], cid, dict(bado2[1], **names))
                else:
                    for kind, sig, cls, detail in R.loss_problems([pm1_before, pm2_before], pmo2):
                        rec.violation("combine_mesh|second-use-of-the-same-inputs|%s|%s" % (kind, sig), cid,
                                      dict(detail, **names))
        return new

    def do_nsfromss(st):
        rec.branch("create_nodesets_from_sidesets")
        ns = Mesh.create_nodesets_from_sidesets(st["mesh"])
        return dict(st, mesh=Mesh.mesh_with_nodesets(st["mesh"], ns), rk="create_nodesets_from_sidesets")

    def actions(st, depth):
        acts = []
        m = st["mesh"]
        if fam == "B":
            if depth == 0:
                return [("M", B[g["j"]], mode) for mode in MODES]
            if st["p"] == 1 and m.blocks is not None:
                acts += [("M", lab, mode) for lab in B for mode in MODES]
        if st["p"] == 1:
            alpha = ELEV_FULL if depth == 0 and (tier != "quick" or st.get("named", True)) else ELEV_SUB
            for (p, b, c, n) in alpha:
                if n and m.sideSets is None:
                    rec.branch("elevate:createNodeSetsFromSideSets-skipped-no-sidesets")
                    continue
                acts.append(("E", p, b, c, n))
        if m.sideSets is not None:
            acts.append(("N",))
        return acts

    def alabel(a):
        if a[0] == "E":
            return "E:p%d:b%d:c%d:n%d" % a[1:]
        if a[0] == "M":
            return "M:%s:%s" % (a[1].replace(":", "."), a[2])
        return a[0]

    # ---- invariant ------------------------------------------------------------------------
    def check_state(st, cid, depth):
        """validity predicate + higher-order oracle + create_edges oracle. Returns True if the state may be expanded."""
        mesh = st["mesh"]
        rk = st["rk"]
        pm, bad = plain(mesh)
        if bad is not None:
            rec.violation("%s|%s" % (rk, bad[0]), cid, bad[1])
            rec.case(cid, outcome="violating", steps=0)
            return False
        sigs = []
        for sig, detail in R.validity_problems(pm):
            sigs.append(sig)
            rec.violation("%s|%s" % (rk, sig), cid, dict(detail, history=st["hist"]))
        if st["p"] >= 2 and not sigs:
            probs, maxima = R.high_order_problems(pm, onp.asarray(mesh.parentElement.coordinates), pm["vcols"],
                                                  st["p"], st["bubble"])
            for k, v in maxima.items():
                rec.track_max(k, v)
            for sig, detail in probs[:1]:      # first failing clause only: one defect -> one key per mode
                sigs.append(sig)
                rec.violation("%s|%s" % (rk, sig), cid, dict(detail, history=st["hist"], order=st["p"],
                                                           further_failing_clauses=[q[0] for q in probs[1:]]))
            if int(mesh.parentElement.degree) != st["p"]:
                sigs.append("degree-label")
                rec.violation("%s|degree-label" % rk, cid, {"requested": st["p"], "label": int(mesh.parentElement.degree)})
        # create_edges on the vertex connectivity of this mesh
        ed = R.edge_dict(pm["vtris"])
        nint = sum(1 for u in ed.values() if len(u) == 2)
        nbnd = sum(1 for u in ed.values() if len(u) == 1)
        if not sigs:
            vconn = mesh.conns if st["p"] == 1 else mesh.conns[:, mesh.parentElement.vertexNodes]
            rec.transition()
            try:
                edgeConns, edges = Mesh.create_edges(vconn)
            except Exception as e:  # noqa
                sigs.append("create_edges")
                rec.violation("create_edges|%s" % exception_key(e), cid, {"history": st["hist"], "error": repr(e)})
            else:
                for sig, detail in R.edges_problems(pm["vtris"], edgeConns, edges):
                    sigs.append("create_edges:" + sig)
                    rec.violation("create_edges|%s" % sig, cid, dict(detail, history=st["hist"], conns=pm["vtris"][:40]))
                rec.branch("edges:interior" if nint else "edges:no-interior")
                if st["nmerge"]:
                    rec.branch("edges:disconnected-bodies")
                sides = Counter_sides(ed)
                if sides:
                    rec.branch("edges:interior-edge-with-different-local-sides")
        has_sets = any(len(v) for d in (pm["nodeSets"], pm["sideSets"]) if d for v in d.values())
        nontrivial = depth >= 1 and nint >= 1 and (st["p"] >= 2 or has_sets or st["rotated"])
        if st["p"] >= 2:
            rec.branch("elevated:interior-nodes" if R.n_interior(st["p"], st["bubble"]) else "elevated:no-interior-nodes")
            if nint:
                rec.branch("elevated:shared-edge-flip")
        outcome = ("violating:" + ",".join(sorted(set(sigs)))) if sigs else \
            ("deg1" if st["p"] == 1 else "p%d%s" % (st["p"], "b" if st["bubble"] else "")) + ":" + rk.split("|")[0]
        samp = None
        if stable_hash(cid + str(seed)) % 500 == 0:
            samp = {"case": cid, "nodes": int(pm["coords"].shape[0]), "elements": len(pm["elems"]),
                    "edges": nint + nbnd, "blocks": names_of(pm["blocks"]), "nodeSets": names_of(pm["nodeSets"]),
                    "sideSets": names_of(pm["sideSets"]), "problems": sigs}
        rec.case(cid, nontrivial=nontrivial, outcome=outcome, sample=samp, steps=0)
        return not sigs

    def Counter_sides(ed):
        return any(len(u) == 2 and u[0][1] != u[1][1] for u in ed.values())

    # ---- level-synchronous BFS ------------------------------------------------------------
    B = _bmembers(tier)
    try:
        with warnings.catch_warnings():
            warnings.simplefilter("ignore")
            seen = set()
            frontier = []
            if fam == "A":
                inits = [("A/" + lab, lab) for lab in g["inits"]]
            elif fam == "B":
                inits = [("B/" + B[g["i"]], B[g["i"]])]
            else:
                inits = [("F/" + s, s) for s in g["specs"]]
            for cid, lab in inits:
                if not on_path(cid):
                    continue
                if lab.startswith(("x:", "j:")):
                    if fam == "B":
                        st = do_read(lab, cid)       # checked here; counted as an initial state of the merge family
                        if st is None:
                            continue
                        d0 = 0
                    else:
                        st = do_read(lab, cid)       # the read is the first transition (depth 1)
                        if st is None:
                            continue
                        d0 = 1
                else:
                    try:
                        st = build_constructed(lab)
                    except Exception as e:  # noqa
                        rec.violation("construct|%s" % exception_key(e), cid, {"error": repr(e)})
                        continue
                    d0 = 0
                st["hist"] = (cid,)
                k = canon(st)
                if k in seen:
                    rec.branch("dedup-merged")
                    continue
                seen.add(k)
                rec.depth(d0)
                ok = check_state(st, cid, d0) if rec.want(cid) else True
                if ok:
                    frontier.append((st, d0))
            while frontier:
                nxt = []
                for st, depth in frontier:
                    if depth >= MAXD:
                        continue
                    for a in actions(st, depth):
                        hist = st["hist"] + (alabel(a),)
                        cid = ";".join(hist)
                        if not on_path(cid):
                            continue
                        rec.transition()
                        try:
                            if a[0] == "E":
                                new = do_elevate(st, *a[1:])
                            elif a[0] == "M":
                                new = do_merge(dict(st, hist=list(st["hist"])), a[1], a[2], cid)
                            else:
                                new = do_nsfromss(st)
                        except Exception as e:  # noqa
                            rk = {"E": "create_higher_order_mesh|bubble=%s" % (a[2] if a[0] == "E" else 0),
                                  "M": "combine_mesh|%s" % (a[2] if a[0] == "M" else ""),
                                  "N": "create_nodesets_from_sidesets"}[a[0]]
                            if exception_key(e).endswith("@harness"):
                                raise
                            rec.violation("%s|%s" % (rk, exception_key(e)), cid, {"history": list(hist), "error": repr(e)})
                            continue
                        if new is None:
                            continue
                        new["hist"] = hist
                        k = canon(new)
                        if k in seen:
                            rec.branch("dedup-merged")
                            continue
                        seen.add(k)
                        rec.depth(depth + 1)
                        ok = check_state(new, cid, depth + 1) if rec.want(cid) else True
                        if ok and depth + 1 < MAXD:
                            nxt.append((new, depth + 1))
                frontier = nxt
    finally:
        shutil.rmtree(tmpd, ignore_errors=True)
