"""C11 -- viscoelastic models dissipate, relax and keep viscous flow isochoric.

E-BFS over deformation / time-step histories on the REAL material models
(optimism/material/HyperViscoelastic.py, MultiBranchHyperViscoelastic.py: compute_state_new,
compute_energy_density, compute_material_qoi).  One model configuration per group; every level
(frontier states x action alphabet) is evaluated under jit(vmap) in chunks of one FIXED padded
length, so each model compiles once.  The invariants are evaluated on what the real code returns
with the numpy reference mc/ref/visco_ref.py (stored non-equilibrium energy, closed-form
equilibrium / instantaneous energies, determinants).

D11 protocol: a failure seen in the compiled batch is re-evaluated as a single jitted call for
that one case.  If the single call passes and a tensor being decomposed (C_e = Fe^T Fe of some
branch) has a (nearly) repeated eigenvalue (relative gap <= 1e-6) the case is reported under the
known key `eigen_sym33_unit|batched|near-repeated-spectrum`; anything else is a C11 violation.
"""
import numpy as onp

ID = "C11"
TITLE = ("Viscoelastic models: dissipation >= 0, det Fv = 1 per branch, stored non-equilibrium energy does not "
         "increase on hold, virgin dt->0 / dt->inf energy limits; every history up to the depth bound")
LEVEL = "model_checking"
RULE = ("E-BFS from the virgin state over ALL histories of actions (target displacement gradient incl. 'hold' = repeat "
        "the previous target) x (dt/tau_ref in {1e-6,1e-2,1,1e2,1e6}) up to the depth bound, per model configuration "
        "(branch count x moduli / relaxation-time set); successor states de-duplicated on canon = (previous target, "
        "viscous distortions rounded to 1e-10). A case = one transition (canonical source state, action), executed by "
        "the three real functions and judged with the reference model; case id = model + first-found history + "
        "action. Non-trivial = viscous flow occurred in that transition (measured: max |Fv_new - Fv_old| > 1e-10 in "
        "some branch). From the bitwise-virgin state two extra step sizes per side (dt/tau_ref 1e-9, 1e9) are "
        "executed for the limit clauses (their successors are not expanded).")
ASSUMPTIONS = [
    "reference model mc/ref/visco_ref.py (numpy eigh / det / closed-form neo-Hookean energy), no optimism import; the "
    "library's update rule is not re-implemented, invariants are evaluated on the states the real code returns",
    "stored non-equilibrium energy = sum_i G_neq,i |dev log sqrt(Fe_i^T Fe_i)|^2 with Fe_i = F Fv_i^-1 (formula read off "
    "_neq_strain_energy / _compute_elastic_logarithmic_strain); 'hold' compares it before and after the step at the "
    "same deformation gradient",
    "instantaneous energy of the virgin material = W_eq + sum_i G_neq,i |dev log U|^2, equilibrium energy = W_eq "
    "(compressible neo-Hookean of the source); limit bounds |W-W_inst| <= 10 sum_i (dt/tau_i) W_neq,i for dt/tau_ref in "
    "{1e-9,1e-6} and |W-W_eq| <= 10 sum_i (tau_i/dt) W_neq,i for dt/tau_ref in {1e6,1e9}, plus a rounding allowance",
    "dt = ratio * tau_ref, tau_ref = the relaxation time (single branch) / geometric mean of the relaxation times "
    "(three branches)",
    "canonicalisation rounds viscous distortions to 1e-10; all oracle tolerances are >= 1e-9-level in the state, so "
    "merged states have indistinguishable futures; the previous target is part of the canon because 'hold' reads it",
    "plane-strain targets with |H| <= 0.25; one generic target (rotation x stretch) is drawn from VERIF_SEED inside a "
    "bounded family, all others (incl. the rank-one in-plane rotated uniaxial strain that sits on the D11 switch) are fixed",
    "batched execution with one fixed padded chunk length (512); single compiled calls only in the D11 protocol",
]
TOLERANCES = {
    "dissipated energy": ">= -1e-14 * sum(G_neq) (finite)",
    "det Fv per branch": "|det - 1| <= 1e-9",
    "hold": "E_after <= E_before + sum_i G_i (2e-12 |dev Ee_i| + 1e-24)   (a-priori: strain error <= 1e-12 from "
            "states known to 1e-16; calibrated)",
    "virgin limits": "10 * (exact first-order bound) + 1e-12 * (K + G_eq + sum G_neq)",
    "D11 classification": "relative eigenvalue gap of C_e <= 1e-6 (min over branches)",
}

D11_KEY = "eigen_sym33_unit|batched|near-repeated-spectrum"
CHUNK = 512
RATIOS = [("1e-6", 1e-6), ("1e-2", 1e-2), ("1", 1.0), ("1e2", 1e2), ("1e6", 1e6)]
LIMIT_RATIOS = [("1e-9", 1e-9), ("1e9", 1e9)]
SMALL = {"1e-9", "1e-6"}
LARGE = {"1e6", "1e9"}
TARGET_LABELS = ["zero", "uniax+", "uniax-rot", "shear+", "shear-", "equibiax", "generic", "hold"]

TOL_DISS = 1e-14
TOL_DET = 1e-9
TOL_HOLD_LIN = 2e-12
TOL_HOLD_ABS = 1e-24
TOL_LIMIT_ROUND = 1e-12
LIMIT_FACTOR = 10.0
FLOW_EPS = 1e-10


def _depth(tier):
    # quick: all histories of depth 2 over the full 40-action alphabet, plus a third level restricted to HOLD actions
    # (3 step sizes) from every depth-2 state -- the hold clause needs a non-coaxial two-step pre-history to expose a
    # wrong flow rule (a seeded change in the three-branch model was only caught at depth 3)
    return 3


def _configs():
    """(name, nbranch, K_eq, G_eq, [(G_neq, tau), ...]); three-branch (heavier) first."""
    three = [
        ("m-test", 855.0, 0.855, [(1.0, 1.0), (2.0, 10.0), (3.0, 100.0)]),
        ("m-tau-asc", 10.0, 1.0, [(1.0, 1e-2), (2.0, 1.0), (3.0, 1e2)]),
        ("m-tau-desc", 10.0, 1.0, [(1.0, 1e2), (2.0, 1.0), (3.0, 1e-2)]),
        ("m-tau-mixed", 10.0, 1.0, [(3.0, 1.0), (1.0, 1e2), (2.0, 1e-2)]),
        ("m-tau-equal", 10.0, 1.0, [(1.0, 1.0), (2.0, 1.0), (3.0, 1.0)]),
        ("m-moduli-decades", 100.0, 1.0, [(1e-2, 1e-2), (1.0, 1.0), (1e2, 1e2)]),
        ("m-moduli-decades-rev", 100.0, 1.0, [(1e2, 1e-2), (1.0, 1.0), (1e-2, 1e2)]),
        ("m-tau-wide", 5.0, 0.5, [(2.0, 1e-3), (0.5, 1.0), (1.0, 1e3)]),
    ]
    one = [
        ("s-test", 855.0, 0.855, [(5.0, 25.0)]),
        ("s-tau1e-3", 10.0, 1.0, [(1.0, 1e-3)]),
        ("s-tau1", 10.0, 1.0, [(1.0, 1.0)]),
        ("s-tau1e3", 10.0, 1.0, [(1.0, 1e3)]),
        ("s-soft", 10.0, 1.0, [(1e-2, 1.0)]),
        ("s-stiff", 1000.0, 1.0, [(1e2, 1.0)]),
        ("s-stiff-fast", 1000.0, 1.0, [(1e2, 1e-3)]),
        ("s-soft-slow", 10.0, 1.0, [(1e-2, 1e3)]),
    ]
    return [(n, 3, K, G, br) for n, K, G, br in three] + [(n, 1, K, G, br) for n, K, G, br in one]


def bounds(tier):
    return {"depth": _depth(tier), "targets": TARGET_LABELS, "dt_over_tau_ref": [l for l, _ in RATIOS],
            "actions": len(TARGET_LABELS) * len(RATIOS), "limit_only_dt_over_tau_ref": [l for l, _ in LIMIT_RATIOS],
            "models": [c[0] for c in _configs()], "chunk": CHUNK, "canon_grid": 1e-10}


def groups(tier, seed):
    return [{"name": n, "nb": nb, "K": K, "G": G, "branches": [list(b) for b in br]}
            for n, nb, K, G, br in _configs()]


def _targets(seed):
    """label -> 3x3 plane-strain displacement gradient (hold has none)."""
    from mc.ref import visco_ref as R
    T = {}
    T["zero"] = onp.zeros((3, 3))
    T["uniax+"] = onp.diag([0.1, 0.0, 0.0])
    Rz = R.rot_z(0.3)                                   # rank-one, in-plane rotated: repeated eigenvalue, not axis aligned
    T["uniax-rot"] = Rz @ onp.diag([-0.08, 0.0, 0.0]) @ Rz.T
    H = onp.zeros((3, 3)); H[0, 1] = 0.2
    T["shear+"] = H
    H = onp.zeros((3, 3)); H[1, 0] = -0.15
    T["shear-"] = H
    T["equibiax"] = onp.diag([0.05, 0.05, 0.0])
    rng = onp.random.default_rng([int(seed), 1100])
    a = rng.uniform(0.05, 0.15); b = -rng.uniform(0.04, 0.12)
    th = rng.uniform(0.3, 1.2); ph = rng.uniform(0.2, 1.0)
    Q = R.rot_z(th)
    U = Q @ onp.diag([1.0 + a, 1.0 + b, 1.0]) @ Q.T
    T["generic"] = R.rot_z(ph) @ U - onp.eye(3)
    return T


def _props(g):
    p = {"equilibrium bulk modulus": g["K"], "equilibrium shear modulus": g["G"]}
    if g["nb"] == 1:
        p["non equilibrium shear modulus"] = g["branches"][0][0]
        p["relaxation time"] = g["branches"][0][1]
    else:
        for i, (G, t) in enumerate(g["branches"]):
            p["non equilibrium shear modulus %d" % (i + 1)] = G
            p["relaxation time %d" % (i + 1)] = t
    return p


class _State:
    __slots__ = ("hist", "prev", "fv")

    def __init__(self, hist, prev, fv):
        self.hist, self.prev, self.fv = hist, prev, fv


def _canon(prev, fv):
    return (prev,) + tuple(onp.rint(onp.asarray(fv) * 1e10).astype(onp.int64).tolist())


def _judge(R, g, H, S_old, dtv, hold, lim, S_new, W, D):
    """Vectorised invariants.  Returns (list of sets of signatures, metrics dict of arrays)."""
    nb = g["nb"]
    n = H.shape[0]
    Gs = onp.array([b[0] for b in g["branches"]])
    taus = onp.array([b[1] for b in g["branches"]])
    sumG = float(Gs.sum())
    sigs = [set() for _ in range(n)]
    Fo = S_old.reshape(n, nb, 3, 3)
    Fn = S_new.reshape(n, nb, 3, 3)
    with onp.errstate(all="ignore"):
        fin_state = onp.isfinite(S_new).all(axis=1)
        # dissipation
        okD = onp.isfinite(D)
        for i in onp.nonzero(~okD)[0]:
            sigs[i].add("dissipation-nonfinite")
        for i in onp.nonzero(okD & (D < -TOL_DISS * sumG))[0]:
            sigs[i].add("dissipation-negative")
        # isochoric flow
        for i in onp.nonzero(~fin_state)[0]:
            sigs[i].add("state-nonfinite")
        big = onp.where(fin_state, onp.abs(onp.where(onp.isfinite(S_new), S_new, 0.0)).max(axis=1), onp.inf)
        Fn_fin = onp.where(fin_state[:, None, None, None], Fn, onp.eye(3))
        deterr = onp.abs(R.det(Fn_fin) - 1.0)
        for i in onp.nonzero(fin_state & ~(deterr <= TOL_DET).all(axis=1))[0]:
            sigs[i].add("detFv-not-1")
        # states the reference model can work with (anything else has already been flagged above)
        usable = fin_state & (big <= 1e3) & (deterr <= 0.5).all(axis=1)
        Fn_safe = onp.where(usable[:, None, None, None], Fn, onp.eye(3))
        # hold: stored non-equilibrium energy does not increase
        e2b = R.branch_dev_strain_sq(H, Fo)
        e2a = R.branch_dev_strain_sq(H, Fn_safe)
        Eb = (Gs * e2b).sum(axis=1)
        Ea = (Gs * e2a).sum(axis=1)
        tolh = (Gs * (TOL_HOLD_LIN * onp.sqrt(e2b) + TOL_HOLD_ABS)).sum(axis=1)
        unit = (Gs * (onp.sqrt(e2b) + 1e-12)).sum(axis=1)
        inc = Ea - Eb
        bad = hold & usable & ~(inc <= tolh)
        for i in onp.nonzero(bad)[0]:
            sigs[i].add("hold-stored-energy-increase")
        # energy finite whenever it is used / always promised as a number
        okW = onp.isfinite(W)
        for i in onp.nonzero(~okW)[0]:
            sigs[i].add("energy-nonfinite")
        # virgin limits
        Wb = R.virgin_branch_energies(H, Gs)               # (n, nb)
        Weq = R.equilibrium_energy(H, g["K"], g["G"])
        r = dtv[:, None] / taus[None, :]
        rnd = TOL_LIMIT_ROUND * (g["K"] + g["G"] + sumG)
        b0 = (r * Wb).sum(axis=1)
        binf = (Wb / r).sum(axis=1)
        e0 = onp.abs(W - (Weq + Wb.sum(axis=1)))
        einf = onp.abs(W - Weq)
        for i in onp.nonzero((lim == 1) & okW & ~(e0 <= LIMIT_FACTOR * b0 + rnd))[0]:
            sigs[i].add("limit-dt0-energy-not-instantaneous")
        for i in onp.nonzero((lim == 2) & okW & ~(einf <= LIMIT_FACTOR * binf + rnd))[0]:
            sigs[i].add("limit-dtinf-energy-not-equilibrium")
        flow = onp.where(usable, onp.abs(Fn_safe - Fo).reshape(n, -1).max(axis=1), onp.inf)
        gap = R.rel_gap_sym(R.right_cauchy_green_elastic(H[:, None, :, :], Fo)).min(axis=1)
    met = {"D": D, "deterr": deterr.max(axis=1), "inc": inc, "inc_unit": unit, "Eb": Eb, "Ea": Ea, "tolh": tolh,
           "e0": e0, "b0": b0, "einf": einf, "binf": binf, "rnd_unit": (g["K"] + g["G"] + sumG) * onp.ones(n),
           "flow": flow, "gap": gap, "usable": usable, "r": r, "W": W, "Weq": Weq, "Wneq0": Wb.sum(axis=1)}
    return sigs, met


def run_group(g, tier, seed, rec):
    import jax
    import jax.numpy as jnp
    from mc.ref import visco_ref as R
    from mc.runner import exception_key
    from mc.core import stable_hash

    nb = g["nb"]
    routine = "HyperViscoelastic" if nb == 1 else "MultiBranchHyperViscoelastic"
    taus = [b[1] for b in g["branches"]]
    tau_ref = float(onp.exp(onp.mean(onp.log(taus))))
    T = _targets(seed)
    maxd = _depth(tier)
    model_cid = "model=%s" % g["name"]

    # ---- build the real model (library prints its properties: keep quiet unless verbose) -----------------
    try:
        if nb == 1:
            from optimism.material import HyperViscoelastic as M
        else:
            from optimism.material import MultiBranchHyperViscoelastic as M
        mat = M.create_material_model_functions(_props(g))
        s0 = onp.asarray(mat.compute_initial_state(), dtype=float)
    except Exception as e:  # noqa
        rec.violation("%s|construct|%s" % (routine, exception_key(e)), model_cid, {"error": repr(e)[:500]})
        return
    if s0.shape != (9 * nb,):
        rec.violation("%s|construct|initial-state-shape" % routine, model_cid, {"shape": list(s0.shape)})
        return
    fnames = ("compute_state_new", "compute_energy_density", "compute_material_qoi")
    fb = [jax.jit(jax.vmap(getattr(mat, f))) for f in fnames]
    f1 = {}

    def eval_batched(H, S, dtv):
        n = H.shape[0]
        npad = (-n) % CHUNK
        if npad:
            H = onp.concatenate([H, onp.zeros((npad, 3, 3))])
            S = onp.concatenate([S, onp.tile(s0, (npad, 1))])
            dtv = onp.concatenate([dtv, onp.full(npad, tau_ref)])
        outs = [[], [], []]
        for k in range(0, H.shape[0], CHUNK):
            a = (jnp.asarray(H[k:k + CHUNK]), jnp.asarray(S[k:k + CHUNK]), jnp.asarray(dtv[k:k + CHUNK]))
            for j in range(3):
                outs[j].append(onp.asarray(fb[j](*a)))
            rec.branch("batched-chunks")
        return [onp.concatenate(o)[:n] for o in outs]

    def eval_single(H, S, dt):
        if not f1:
            for f in fnames:
                f1[f] = jax.jit(getattr(mat, f))
        a = (jnp.asarray(H), jnp.asarray(S), jnp.asarray(dt))
        return [onp.asarray(f1[f](*a)) for f in fnames]

    # ---- replay filter: explore only along the recorded history ------------------------------------------
    only_hist = None
    if rec.only is not None:
        if not rec.only.startswith(model_cid + ";hist="):
            return
        only_hist = rec.only.split(";hist=", 1)[1].split(">")

    def action_list(depth, virgin_exact):
        if tier == "quick" and depth == 3:
            return [("hold", rl, rv, False) for rl, rv in RATIOS if rl in ("1e-2", "1", "1e2")]
        acts = [(t, rl, rv, False) for t in TARGET_LABELS for rl, rv in RATIOS]
        if virgin_exact:
            acts += [(t, rl, rv, True) for t in TARGET_LABELS for rl, rv in LIMIT_RATIOS]
        return acts

    frontier = [_State((), "zero", s0.copy())]
    seen = {_canon("zero", s0)}
    rec.state(repr((g["name"],) + _canon("zero", s0)))
    s0_is_identity = bool(onp.array_equal(s0, onp.tile(onp.eye(3).ravel(), nb)))
    if not s0_is_identity:
        rec.violation("%s|construct|initial-state-not-identity" % routine, model_cid, {"state": s0})
        return

    for depth in range(1, maxd + 1):
        # ---- enumerate all (state, action) of this level ------------------------------------------------
        cases = []   # (state index, target label, ratio label, ratio, limit_only)
        for si, st in enumerate(frontier):
            virgin = bool(onp.array_equal(st.fv, s0))
            for (t, rl, rv, lim_only) in action_list(depth, virgin):
                alabel = "%s@%s" % (t, rl)
                if only_hist is not None:
                    if len(only_hist) < depth or list(st.hist) != only_hist[:depth - 1] or alabel != only_hist[depth - 1]:
                        continue
                cases.append((si, t, rl, rv, lim_only, virgin))
        if not cases:
            break
        n = len(cases)
        H = onp.zeros((n, 3, 3)); S = onp.zeros((n, 9 * nb)); dtv = onp.zeros(n)
        hold = onp.zeros(n, dtype=bool); lim = onp.zeros(n, dtype=int)
        for i, (si, t, rl, rv, lim_only, virgin) in enumerate(cases):
            st = frontier[si]
            H[i] = T[st.prev] if t == "hold" else T[t]
            S[i] = st.fv
            dtv[i] = rv * tau_ref
            hold[i] = (t == "hold")
            if virgin:
                lim[i] = 1 if rl in SMALL else (2 if rl in LARGE else 0)
        try:
            S_new, W, D = eval_batched(H, S, dtv)
        except Exception as e:  # noqa
            rec.violation("%s|batched|%s" % (routine, exception_key(e)), "%s;level=%d" % (model_cid, depth),
                          {"error": repr(e)[:800]})
            return
        sigs, met = _judge(R, g, H, S, dtv, hold, lim, S_new, W, D)

        # ---- D11 protocol: re-evaluate batched failures as single compiled calls ---------------------------
        final = [None] * n          # None = ok; else (key, detail)
        usable_final = met["usable"].copy()
        for i in range(n):
            if not sigs[i]:
                continue
            try:
                s1, w1, d1 = eval_single(H[i], S[i], dtv[i])
            except Exception as e:  # noqa
                final[i] = ("%s|single|%s" % (routine, exception_key(e)), {"error": repr(e)[:800]})
                continue
            ssig, smet = _judge(R, g, H[i:i + 1], S[i:i + 1], dtv[i:i + 1], hold[i:i + 1], lim[i:i + 1],
                                s1[None, :], onp.atleast_1d(w1), onp.atleast_1d(d1))
            gap = float(met["gap"][i])
            det = {"model": g["name"], "properties": _props(g), "dispGrad": H[i], "state_old": S[i], "dt": float(dtv[i]),
                   "hold": bool(hold[i]), "virgin_limit": int(lim[i]), "batched_signatures": sorted(sigs[i]),
                   "single_signatures": sorted(ssig[0]), "relative_gap_Ce": gap,
                   "batched": {"state_new": S_new[i], "energy": float(W[i]), "dissipated": float(D[i])},
                   "single": {"state_new": s1, "energy": float(w1), "dissipated": float(d1)},
                   "stored_neq_before": float(met["Eb"][i]), "stored_neq_after_batched": float(met["Ea"][i]),
                   "stored_neq_after_single": float(smet["Ea"][0]),
                   "W_equilibrium_ref": float(met["Weq"][i]), "W_neq_virgin_ref": float(met["Wneq0"][i])}
            if not ssig[0]:
                if gap <= 1e-6:
                    final[i] = (D11_KEY, det)
                    rec.branch("protocol:batched-fail/single-pass/near-repeated -> D11")
                else:
                    final[i] = ("%s|batched-only|%s" % (routine, "+".join(sorted(sigs[i]))), det)
                    rec.branch("protocol:batched-fail/single-pass/separated -> violation")
                # continue the exploration from the sound (single-call) successor
                S_new[i] = s1
                usable_final[i] = bool(smet["usable"][0])
            else:
                final[i] = ("%s|single+batched|%s" % (routine, "+".join(sorted(ssig[0]))), det)
                rec.branch("protocol:single-fail -> violation")

        # ---- record cases, successors ----------------------------------------------------------------------
        nxt = []
        r_all = met["r"]
        for i, (si, t, rl, rv, lim_only, virgin) in enumerate(cases):
            st = frontier[si]
            alabel = "%s@%s" % (t, rl)
            hist = st.hist + (alabel,)
            cid = "%s;hist=%s" % (model_cid, ">".join(hist))
            flowed = bool(met["flow"][i] > FLOW_EPS)
            if rec.want(cid):
                if final[i] is not None:
                    rec.violation(final[i][0], cid, final[i][1])
                    outcome = "d11" if final[i][0] == D11_KEY else "fail:" + final[i][0].split("|", 2)[2]
                else:
                    kind = "hold" if hold[i] else "move"
                    outcome = "%s:%s%s" % (kind, "flow" if flowed else "no-flow",
                                           {0: "", 1: ":limit-dt0", 2: ":limit-dtinf"}[int(lim[i])])
                    # calibration numbers (only from passing cases; failing ones are reported)
                    rec.track_max("dissipation: -min(D)/sumG", -float(D[i]) / float(met["rnd_unit"][i]))
                    rec.track_max("|det Fv - 1|", float(met["deterr"][i]))
                    if hold[i]:
                        rec.track_max("hold: (E_after-E_before)/sum G_i(|dev Ee_i|+1e-12)",
                                      float(met["inc"][i] / met["inc_unit"][i]))
                        rec.branch("hold:strict-decrease" if met["inc"][i] < 0 else "hold:no-change-or-rounding")
                    if lim[i] == 1:
                        rec.track_max("limit dt->0: |W-W_inst| / sum r_i W_neq,i (exact constant 1)",
                                      float(met["e0"][i] / met["b0"][i]) if met["b0"][i] > 1e-30 else 0.0)
                        rec.track_max("limit dt->0: rounding part (|W-W_inst| - first-order bound)/(K+G+sum G_neq)",
                                      float((met["e0"][i] - met["b0"][i]) / met["rnd_unit"][i]))
                        rec.branch("limit:dt->0 checked" + (":deformed" if met["Wneq0"][i] > 0 else ":undeformed"))
                    if lim[i] == 2:
                        rec.track_max("limit dt->inf: |W-W_eq| / sum W_neq,i/r_i (exact constant 1)",
                                      float(met["einf"][i] / met["binf"][i]) if met["binf"][i] > 1e-30 else 0.0)
                        rec.track_max("limit dt->inf: rounding part (|W-W_eq| - first-order bound)/(K+G+sum G_neq)",
                                      float((met["einf"][i] - met["binf"][i]) / met["rnd_unit"][i]))
                        rec.branch("limit:dt->inf checked" + (":deformed" if met["Wneq0"][i] > 0 else ":undeformed"))
                rec.branch("action:" + ("hold" if hold[i] else "move"))
                rec.branch("source:" + ("virgin" if virgin else "evolved"))
                ri = r_all[i]
                reg = ("all dt<<tau" if ri.max() <= 1e-3 else "all dt>>tau" if ri.min() >= 1e3 else
                       "all dt~tau" if (ri.min() > 1e-3 and ri.max() < 1e3) else "mixed across branches")
                rec.branch("regime:" + reg)
                rec.branch("spectrum Ce:" + ("near-repeated (gap<=1e-6)" if met["gap"][i] <= 1e-6 else "separated"))
                rec.branch("flow:" + ("yes" if flowed else "no"))
                samp = None
                if stable_hash("%d|%s" % (seed, cid)) % 997 == 0:
                    samp = {"case": cid, "dispGrad": H[i], "dt": float(dtv[i]), "dissipated": float(D[i]),
                            "energy": float(W[i]), "max|detFv-1|": float(met["deterr"][i]),
                            "stored_neq_before": float(met["Eb"][i]), "stored_neq_after": float(met["Ea"][i])}
                rec.case(cid, nontrivial=flowed, outcome=outcome, sample=samp, steps=1)
            # successors (limit-only step sizes are not part of the alphabet: not expanded)
            if lim_only:
                continue
            if not usable_final[i]:
                rec.branch("successor-dropped:inadmissible-state")
                continue
            prev = st.prev if t == "hold" else t
            k = _canon(prev, S_new[i])
            if k in seen:
                rec.branch("dedup-merged")
                continue
            seen.add(k)
            rec.state(repr((g["name"],) + k))
            rec.depth(depth)
            if depth < maxd:
                nxt.append(_State(hist, prev, S_new[i].copy()))
        frontier = nxt
        if not frontier:
            break
    rec.notes["states:" + g["name"]] = len(seen)
