"""C06 -- trust-region subproblem solvers: radius, Cauchy decrease, boundary/interior claims, dogleg path,
global optimality of the eigenvalue-based solver (hard case included).

E-PROD on the real routines with synthetic dense operators handed in as closures:

  trmin    EquationSolver.solve_trust_region_minimization   (both inner-product modes)
  cg       EquationSolverSubspace.trust_region_cg            (Euclidean ball only -- that is what it implements)
  dogleg   EquationSolver.dogleg_step (+ preconditioned_project_to_boundary)
  treigen  treigen.solve
  subspace EquationSolverSubspace.ModelProblem (add_vector / setup_system / solve)

Reference models: mc/ref/trs_ref.py (numpy only).

Finding keys (discrete labels only):
  <routine>|mode=<euclid|precond>|type=<returned step type>|<signature>          truncated-CG routines
  solve_trust_region_minimization|mode=precond|pre=<preconditioner class>|recurrence-norm-off
                                  (radius / boundary claim in the recurrence-tracked M-norm off by > 1e-5)
  dogleg_step|norm=<identity|matrix>|class=<pair class>|<signature>
  treigen.solve|<interior|boundary|hard-case>|eigenbasis=<identity|generic>|<signature>
  treigen.solve|hard-case|pz=0|nonfinite                                         (division by sign(0))
  treigen.solve|zero-matrix|<signature>                                          (A == 0 exactly)
  ModelProblem.solve|<interior|boundary|hard-case|zero-matrix>|<signature>  /  ...|hard-case|pz=0|nonfinite
"eigenbasis=generic" in a key means "not the identity" (permutation / Householder / seeded rotation; the exact
axis label is in the case id); "hard-case" means the reference multiplier sits on the pole -sig_min
(lam + sig_min <= 1e-10 mean|sig|), which contains every input for which treigen takes its hard-case branch.

treigen.solve's secular-equation loop has no iteration bound; an execution that has not left it after
NEWTON_BUDGET iterations (counted through the module-level helper it calls once per iteration -- deterministic, no
wall clock) is recorded as no-verdict, never as a violation (DESIGN 2.1 "Horizon").
"""
import math

import numpy as onp

from mc.core import pick

ID = "C06"
TITLE = ("Trust-region subproblem steps respect the radius, beat the Cauchy step, honour boundary/interior claims; "
         "dogleg stays on its path; eigenvalue-based solver is globally optimal (hard case included)")
LEVEL = "model_checking"
RULE = ("E-PROD: full Cartesian product dimension x spectrum pattern x eigenbasis x gradient class x radius decade "
        "x SPD preconditioner x inner-product mode x (iteration cap, tolerance) for the two truncated-CG routines; "
        "dimension x spectrum x eigenbasis x gradient x radius for treigen.solve; the same x 5 subspace patterns for "
        "ModelProblem; dimension x norm x pair class x direction pair x radius for dogleg_step. One case = one call of "
        "the real routine, compared with the numpy reference. Non-trivial (measured per case): truncated CG -- the "
        "returned type is boundary / neg curve / iteration-capped, or interior after >= 2 iterations; treigen / "
        "ModelProblem -- the reference solution is not the interior Newton point; dogleg -- the reference branch is "
        "not 'newton point returned'.")
ASSUMPTIONS = [
    "operators are dense symmetric matrices H = Q diag(sig) Q^T handed to the routines as closures v -> H@v, "
    "preconditioners as v -> P@v with P = M^-1 built from the same spectral data as M (so P M = I to rounding)",
    "'norm the solver is configured to use': Euclidean when use_preconditioned_inner_product_for_cg is False, "
    "z^T M z with M = P^-1 when True; trust_region_cg has no switch and always uses the Euclidean ball",
    "Cauchy step = minimiser of the model along -P g inside the ball of the configured norm (the first CG direction)",
    "the Cauchy-decrease clause is conditional on |g|^2 >= cgTolSquared: when the gradient is already below the "
    "routine's stated tolerance it returns the zero step as 'interior' after 0 iterations (model change exactly 0), "
    "which is checked against the interior-convergence clause only",
    "'converged in the interior to the stated tolerance': ||H z + g||^2 < max(cg_tol^2, (cg_inexact_solve_ratio |g|)^2), "
    "recomputed by the reference, plus a rounding allowance proportional to ||H|| |z| + |g| (the routine tests its "
    "recurrence residual, not the true one)",
    "iteration-capped exits ('interior_') only claim ball membership and Cauchy decrease",
    "preconditioned-inner-product mode tracks z.M.z by recurrences that are exact only for exact CG; the radius and "
    "boundary claims in that mode are checked to 1e-5 whenever CG stopped within n iterations and are not checked when "
    "it ran longer (in exact arithmetic it cannot; the orthogonality the recurrences rest on is then lost) -- those "
    "executions are counted in branch_coverage and their discrepancies are listed in observed_maxima",
    "ModelProblem is given linearly independent vectors (smallest singular value of the normalised set >= 1e-3); "
    "dependent sets are inadmissible for its one-pass Gram-Schmidt and are counted, not executed",
    "radii 1e-6..1e6; spectra with |sig| in [1e-8, 1e3]; gradients of norm 1 (1e-12 for the 'tiny' class)",
    "treigen.solve / ModelProblem.solve executions whose unguarded secular-equation loop is still running after 500 "
    "iterations give no verdict (the property constrains what is returned); they are listed in no_verdict and make "
    "the run non-exhaustive",
    "reference solutions are themselves checked against the More-Sorensen optimality conditions in every case "
    "(a failing certificate aborts the run as a harness error)",
]
TOLERANCES = {
    "ball_euclid": "z.z <= Delta^2 (1 + 1e-9)  [a-priori: a few ulps; observed see observed_maxima]",
    "ball_precond": "z.M.z <= Delta^2 (1 + 1e-5) when iterations <= n  [recurrence drift; observed over both tiers: "
                    "<= 3.2e-8 with the identity / exact / scaled / diagonal preconditioners on non-singular H, so 1e-5 "
                    ">= 100x; a wrong recurrence gives >= 0.1. With the poor (cond 1e4, unrelated) preconditioner the "
                    "drift reaches 3.8e-6 (n<=8) and 5.9e-5 (n=40): above 1e-5 it is reported as a finding]; "
                    "not checked when CG ran more than n iterations (observed up to 0.73: orthogonality lost)",
    "on_boundary": "| ||z||_N / Delta - 1 | <= 1e-9 (Euclid) / 1e-5 (preconditioned recurrences, iterations <= n)",
    "cauchy": "model(z) <= model(cauchy) + 1e-10 (|g| L + ||H|| L^2), L = max(|z|,|z_cauchy|); and model(z) <= 0 + the same allowance "
              "(H itself is only known to 1e-16 ||H||, so z.H.z carries an error ~1e-16 ||H|| L^2)",
    "interior_residual": "||H z + g|| <= sqrt(cgTolSquared) + 1e-9 (||H|| |z| + |g|)",
    "dogleg": "x.N.x <= Delta^2 (1+1e-9); distance to polyline 0->cp->newtonP <= 1e-10 max(|cp|,|newtonP|)",
    "treigen_ball": "|s| <= Delta (1 + 1e-7)   [the routine's own stopping rule is 1e-9 relative; observed 9.2e-10]",
    "treigen_optimal": "model(s) <= model(s_ref) + 1e-7 (|b| Delta + ||A|| Delta^2)  [stopping rule implies <= 1e-9 scale]",
    "reference_certificate": "stationarity/feasibility/complementarity/psd defects of s_ref <= 1e-9 else harness error",
}

SPECTRA = ["posdistinct", "posrepeated", "onezero", "oneneg", "severalneg", "allneg", "tiny", "kappa1e6"]
BASES = ["identity", "permutation", "householder", "generic"]
GRADS = ["generic", "lowest", "hard", "zeros", "tiny"]
PRECONDS = ["identity", "exact", "diag", "poor", "scaled"]
MODES = ["euclid", "precond"]
CGSETS = ["cap50", "cap1", "cap2", "capn", "cap50tight"]
SUBSPACES = ["g", "g+Pg", "g+Pg+w", "g+q0", "g+Pg+q0"]
DOGLEG_CLASSES = ["both-inside", "cp-outside", "newton-outside", "cp-longer", "collinear", "collinear-outside",
                  "equal-inside", "equal-outside", "zero-newton", "zero-cp", "cp-on-boundary", "newton-on-boundary",
                  "opposite"]
DOGLEG_DIRS = ["axes", "generic"]

TAU_BALL = {"euclid": 1e-9, "precond": 1e-5}
COND_WELL = 1e8          # cond(H) * cond(M): label for the calibration table only (observed_maxima)
TAU_CAUCHY = 1e-10
TAU_RES = 1e-9
TAU_DOGLEG_PATH = 1e-10
TAU_TREIGEN_BALL = 1e-7
TAU_TREIGEN_OPT = 1e-7
TAU_CERT = 1e-9


def _dims(tier):
    return [1, 2, 3, 5, 8] + ([13, 21, 40] if tier == "thorough" else [])


def _radii(tier):
    exps = range(-6, 7, 1) if tier == "thorough" else range(-6, 7, 2)
    return [("1e%+03d" % e, 10.0 ** e) for e in exps]


def bounds(tier):
    return {
        "dimensions": _dims(tier), "spectra": SPECTRA, "eigenbases": BASES, "gradients": GRADS,
        "radii": [l for l, _ in _radii(tier)], "preconditioners": PRECONDS, "modes": MODES,
        "cg_settings": CGSETS, "subspace_patterns": SUBSPACES, "dogleg_pair_classes": DOGLEG_CLASSES,
        "dogleg_directions": DOGLEG_DIRS,
        "product_sizes": {
            "trmin": len(_dims(tier)) * len(SPECTRA) * len(BASES) * len(GRADS) * len(_radii(tier)) * len(PRECONDS)
                     * len(MODES) * len(CGSETS),
            "cg": len(_dims(tier)) * len(SPECTRA) * len(BASES) * len(GRADS) * len(_radii(tier)) * len(PRECONDS)
                  * len(CGSETS),
            "treigen": len(_dims(tier)) * len(SPECTRA) * len(BASES) * len(GRADS) * len(_radii(tier)),
            "subspace": len(_dims(tier)) * len(SPECTRA) * len(BASES) * len(GRADS) * len(_radii(tier)) * len(SUBSPACES),
            "dogleg": len(_dims(tier)) * len(PRECONDS) * len(DOGLEG_CLASSES) * len(DOGLEG_DIRS) * len(_radii(tier)),
        },
        "horizon_s": 20, "treigen_newton_iteration_budget": 500,
    }


def groups(tier, seed):
    gs = []
    dims = sorted(_dims(tier), reverse=True)
    for n in dims:                      # heaviest first
        for spec in SPECTRA:
            gs.append({"name": "trmin-n%02d-%s" % (n, spec), "routine": "trmin", "n": n, "spec": spec})
    for n in dims:
        for spec in SPECTRA:
            gs.append({"name": "cg-n%02d-%s" % (n, spec), "routine": "cg", "n": n, "spec": spec})
    for n in dims:
        for half in (0, 1):
            gs.append({"name": "subspace-n%02d-h%d" % (n, half), "routine": "subspace", "n": n,
                       "specs": SPECTRA[half * 4:(half + 1) * 4]})
    for n in dims:
        gs.append({"name": "treigen-n%02d" % n, "routine": "treigen", "n": n, "specs": SPECTRA})
    gs.append({"name": "dogleg", "routine": "dogleg"})
    return gs


# ------------------------------------------------------------------------------------------------
# alphabets (numpy only; nothing here imports the library)
# ------------------------------------------------------------------------------------------------
def _lin(a, b, m):
    return onp.linspace(a, b, m) if m > 0 else onp.zeros(0)


def spectrum(label, n):
    if label == "posdistinct":
        s = _lin(1.0, 2.0, n) if n > 1 else onp.array([1.0])
    elif label == "posrepeated":
        k = (n + 1) // 2
        s = onp.concatenate([onp.full(k, 1.0), onp.full(n - k, 3.0)])
    elif label == "onezero":
        s = onp.concatenate([[0.0], _lin(1.0, 2.0, n - 1)])
    elif label == "oneneg":
        s = onp.concatenate([[-1.0], _lin(1.0, 2.0, n - 1)])
    elif label == "severalneg":           # repeated lowest negative eigenvalue, one more negative when n >= 4
        if n == 1:
            s = onp.array([-1.0])
        elif n < 4:
            s = onp.concatenate([[-1.0, -1.0], _lin(1.0, 2.0, n - 2)])
        else:
            s = onp.concatenate([[-1.0, -1.0, -0.5], _lin(1.0, 2.0, n - 3)])
    elif label == "allneg":
        s = -_lin(1.0, 2.0, n)[::-1] if n > 1 else onp.array([-2.0])
    elif label == "tiny":
        s = onp.concatenate([[1e-8], _lin(1.0, 2.0, n - 1)])
    elif label == "kappa1e6":
        s = onp.geomspace(1e-3, 1e3, n) if n > 1 else onp.array([1.0])
    else:
        raise ValueError(label)
    s = onp.asarray(s, dtype=float)
    assert s.shape == (n,) and onp.all(onp.diff(s) >= 0)
    return s


def _rotation(n, seed, salt):
    rng = onp.random.default_rng([int(seed), int(n), int(salt)])
    Q, R = onp.linalg.qr(rng.standard_normal((n, n)))
    return Q * onp.sign(onp.diag(R))


def basis(label, n, seed):
    if label == "identity":
        return onp.eye(n)
    if label == "permutation":            # cyclic shift (not symmetric for n >= 3)
        return onp.eye(n)[:, onp.roll(onp.arange(n), 1)]
    if label == "householder":            # symmetric orthogonal matrix
        u = onp.arange(1.0, n + 1.0)
        u /= onp.linalg.norm(u)
        return onp.eye(n) - 2.0 * onp.outer(u, u)
    if label == "generic":
        return _rotation(n, seed, 1)
    raise ValueError(label)


def _generic_coeffs(n):
    c = onp.array([(-1.0) ** i * (1.0 + 0.37 * ((3 * i) % 5)) for i in range(n)])
    return c / onp.linalg.norm(c)


def gradient(label, n, sig, Q):
    c = _generic_coeffs(n)
    if label == "generic":
        return Q @ c
    if label == "lowest":
        return Q[:, 0].copy()
    if label == "hard":                   # no component in the lowest eigenspace
        c = c.copy()
        c[sig == sig[0]] = 0.0
        nc = onp.linalg.norm(c)
        return Q @ (c / nc if nc > 0 else c)
    if label == "zeros":                  # exact zero components in coordinates (even indices)
        g = _generic_coeffs(n)
        g[0::2] = 0.0
        ng = onp.linalg.norm(g)
        return g / ng if ng > 0 else g
    if label == "tiny":
        return 1e-12 * (Q @ c)
    raise ValueError(label)


def precond(label, n, H, sig, Q, seed):
    """returns (P, M) dense with P = M^-1, M SPD; (None, None) for the identity."""
    eps = 1e-4 * max(float(onp.max(onp.abs(sig))), 1.0)       # > 0 also for the zero matrix (n=1, 'onezero')
    if label == "identity":
        return None, None
    if label in ("exact", "scaled"):
        m = onp.abs(sig) + eps
        f = 1e3 if label == "scaled" else 1.0
        M = (Q * (f * m)) @ Q.T
        P = (Q * (1.0 / (f * m))) @ Q.T
    elif label == "diag":
        m = onp.abs(onp.diag(H)) + eps
        M, P = onp.diag(m), onp.diag(1.0 / m)
    elif label == "poor":
        R = _rotation(n, seed, 2)
        m = onp.geomspace(1.0, 1e4, n) if n > 1 else onp.array([3.0])
        M = (R * m) @ R.T
        P = (R * (1.0 / m)) @ R.T
    else:
        raise ValueError(label)
    return 0.5 * (P + P.T), 0.5 * (M + M.T)


def make_H(sig, Q):
    H = (Q * sig) @ Q.T
    return 0.5 * (H + H.T)


def cg_setting(label, n):
    cap = {"cap50": 50, "cap1": 1, "cap2": 2, "capn": n, "cap50tight": 50}[label]
    if label == "cap50tight":
        return cap, 1e-14, 1e-12
    return cap, 2e-9, 1e-5                # library defaults: cg_tol = 0.2 tol, cg_inexact_solve_ratio


# ------------------------------------------------------------------------------------------------
def run_group(g, tier, seed, rec):
    r = g["routine"]
    if r in ("trmin", "cg"):
        _run_truncated_cg(g, tier, seed, rec)
    elif r == "treigen":
        _run_treigen(g, tier, seed, rec)
    elif r == "subspace":
        _run_subspace(g, tier, seed, rec)
    elif r == "dogleg":
        _run_dogleg(g, tier, seed, rec)
    else:
        raise ValueError(r)


def _finite(a):
    return bool(onp.all(onp.isfinite(onp.asarray(a, dtype=float))))


# ------------------------------------------------------------------------------------------------
# truncated CG: solve_trust_region_minimization and trust_region_cg
# ------------------------------------------------------------------------------------------------
def _run_truncated_cg(g, tier, seed, rec):
    import jax.numpy as jnp
    from optimism import EquationSolver as ES
    from optimism import EquationSolverSubspace as ESS
    from mc.ref import trs_ref as ref
    from mc.runner import exception_key

    routine = g["routine"]
    rname = "solve_trust_region_minimization" if routine == "trmin" else "trust_region_cg"
    n, spec = g["n"], g["spec"]
    sig = spectrum(spec, n)
    hnorm = float(onp.max(onp.abs(sig)))
    smin = float(onp.min(onp.abs(sig)))
    kH = hnorm / smin if smin > 0 else float("inf")
    radii = _radii(tier)
    modes = MODES if routine == "trmin" else ["euclid"]
    ncases = len(BASES) * len(GRADS) * len(radii) * len(PRECONDS) * len(modes) * len(CGSETS)
    sample_ids = set(pick(range(ncases), seed, 2))
    x0 = jnp.zeros(n)
    idx = -1
    for bl in BASES:
        Q = basis(bl, n, seed)
        H = make_H(sig, Q)
        Hj = jnp.array(H)
        hv = lambda v, Hj=Hj: Hj @ v
        for gl in GRADS:
            gv = gradient(gl, n, sig, Q)
            gnorm = float(onp.linalg.norm(gv))
            for rl, Delta in radii:
                for pl in PRECONDS:
                    P, M = precond(pl, n, H, sig, Q, seed)
                    if P is None:
                        pre = lambda v: v
                    else:
                        Pj = jnp.array(P)
                        pre = lambda v, Pj=Pj: Pj @ v
                    kM = 1.0 if M is None else float(onp.linalg.cond(M))
                    cond = "well" if kH * kM <= COND_WELL else "ill"
                    for ml in modes:
                        N = M if ml == "precond" else None
                        cau = ref.cauchy_point(H, gv, P, N, Delta)
                        for cl in CGSETS:
                            idx += 1
                            cid = "r=%s;n=%d;spec=%s;basis=%s;grad=%s;rad=%s;pre=%s;mode=%s;cg=%s" % (
                                routine, n, spec, bl, gl, rl, pl, ml, cl)
                            if not rec.want(cid):
                                continue
                            cap, cgtol, ratio = cg_setting(cl, n)
                            st = ES.get_settings(max_cg_iters=cap, cg_tol=cgtol, cg_inexact_solve_ratio=ratio,
                                                 use_preconditioned_inner_product_for_cg=(ml == "precond"),
                                                 debug_info=False)

                            def fail(sig_, stype, detail):
                                d = {"H": H, "g": gv, "Delta": Delta, "P": P, "mode": ml, "max_cg_iters": cap,
                                     "cg_tol": cgtol, "cg_inexact_solve_ratio": ratio}
                                d.update(detail)
                                rec.violation("%s|mode=%s|type=%s|%s" % (rname, ml, stype, sig_), cid, d)

                            try:
                                if routine == "trmin":
                                    z, cauchyP, stype, iters = ES.solve_trust_region_minimization(
                                        x0, jnp.array(gv), hv, pre, Delta, st)
                                else:
                                    rj = jnp.array(gv)
                                    Prj = pre(rj)
                                    z, stype, iters = ESS.trust_region_cg(x0, rj, Prj, hv(Prj), hv, pre, Delta, st)
                            except Exception as e:  # noqa
                                fail(exception_key(e), "none", {"error": repr(e)})
                                rec.case(cid, nontrivial=False, outcome=routine + ":exception")
                                continue
                            z = onp.asarray(z, dtype=float)
                            iters = int(iters)
                            stype = str(stype)
                            if stype not in ("interior", "interior_", "boundary", "neg curve"):
                                fail("unknown-type", stype, {"z": z})
                            itc = "0" if iters == 0 else ("1" if iters == 1 else ">1")
                            rec.branch("%s:exit:%s:iters%s" % (routine, stype, itc))
                            rec.branch("%s:cauchy-kind:%s" % (routine, cau["kind"]))
                            nontrivial = stype != "interior" or iters >= 2
                            if not _finite(z):
                                fail("nonfinite", stype, {"z": z, "iters": iters})
                                rec.case(cid, nontrivial=nontrivial, outcome="%s:%s:nonfinite" % (routine, stype),
                                         steps=max(iters, 1))
                                continue
                            # (a) inside the ball of the configured norm
                            if ml == "euclid":
                                tauN, regime = TAU_BALL["euclid"], "euclid"
                            else:
                                regime = "precond:pre=%s:cond-%s:%s" % (pl, cond, "iters<=n" if iters <= n else "iters>n")
                                tauN = TAU_BALL["precond"]
                                if iters > n:
                                    # CG continued past the dimension of the space: in exact arithmetic it has
                                    # terminated, the CG orthogonality relations the norm recurrences rest on are
                                    # lost (a-priori error O(1)); no norm claim is checked (clause (b) still is).
                                    # The discrepancies stay visible in observed_maxima.
                                    tauN = None
                                    rec.branch("%s:precond-norm-claims-not-checked(iters>n)" % routine)
                            nn = ref.nnorm_sq(z, N)
                            ratio_n = math.sqrt(nn) / Delta
                            rec.track_max("%s:%s:ball_excess(||z||_N/Delta-1)" % (routine, regime), ratio_n - 1.0)
                            norm_off = None
                            if tauN is not None and nn > Delta * Delta * (1.0 + tauN):
                                norm_off = "outside-ball"
                            # (b) Cauchy decrease, never an increase
                            mz = ref.model(H, gv, z)
                            L = max(float(onp.linalg.norm(z)), float(onp.linalg.norm(cau["z"])))
                            sc = gnorm * L + hnorm * L * L
                            tol2 = ref.cg_tol_squared(gv, cgtol, ratio)
                            # gradient already below the routine's stated tolerance and no step taken: the routine
                            # reports "converged at z = 0"; the Cauchy comparison is conditional on |g|^2 >= cgTolSquared
                            converged_at_entry = float(gv @ gv) < tol2 and not onp.any(z != 0.0)
                            if converged_at_entry:
                                rec.branch("%s:gradient-below-stated-tolerance:zero-step" % routine)
                            elif sc > 0:
                                rec.track_max("%s:%s:cauchy_gap/(|g|L+|H|L^2)" % (routine, ml), (mz - cau["value"]) / sc)
                            if not converged_at_entry and mz > cau["value"] + TAU_CAUCHY * sc:
                                fail("worse-than-cauchy", stype, {"z": z, "model_z": mz, "model_cauchy": cau["value"],
                                                                   "cauchy_point": cau["z"], "iters": iters})
                            if mz > TAU_CAUCHY * sc:
                                fail("model-increase", stype, {"z": z, "model_z": mz, "iters": iters})
                            # (c) boundary claims
                            if stype in ("boundary", "neg curve"):
                                rec.track_max("%s:%s:boundary_defect|ratio-1|" % (routine, regime), abs(ratio_n - 1.0))
                                if tauN is not None and abs(ratio_n - 1.0) > tauN:
                                    norm_off = norm_off or "off-boundary"
                            if norm_off is not None:
                                if ml == "euclid":
                                    fail(norm_off, stype, {"z": z, "norm_over_Delta": ratio_n, "iters": iters})
                                else:
                                    # recurrence-tracked norm: one key per preconditioner class (type and
                                    # outside/off-boundary are in the detail)
                                    rec.violation("%s|mode=precond|pre=%s|recurrence-norm-off" % (rname, pl), cid,
                                                  {"H": H, "g": gv, "Delta": Delta, "P": P, "M": M, "max_cg_iters": cap,
                                                   "cg_tol": cgtol, "cg_inexact_solve_ratio": ratio, "z": z,
                                                   "type": stype, "what": norm_off, "norm_over_Delta": ratio_n,
                                                   "iters": iters, "n": n})
                            # (d) interior claim: Newton system solved to the stated tolerance
                            if stype == "interior":
                                res = float(onp.linalg.norm(H @ z + gv))
                                drift = hnorm * float(onp.linalg.norm(z)) + gnorm
                                if drift > 0 and iters > 0:
                                    rec.track_max("%s:%s:interior_residual_excess/(|H||z|+|g|)" % (routine, ml),
                                                  (res - math.sqrt(tol2)) / drift)
                                if res > math.sqrt(tol2) + TAU_RES * drift:
                                    fail("residual-above-tolerance", stype,
                                         {"z": z, "residual": res, "sqrt_cgTolSquared": math.sqrt(tol2), "iters": iters})
                            rec.case(cid, nontrivial=nontrivial,
                                     outcome="%s:%s:iters%s:cauchy-%s" % (routine, stype, itc, cau["kind"]),
                                     steps=max(iters, 1),
                                     sample=({"case": cid, "type": stype, "iters": iters, "norm_over_Delta": ratio_n,
                                              "model_z": mz, "model_cauchy": cau["value"]}
                                             if idx in sample_ids else None))


# ------------------------------------------------------------------------------------------------
# treigen.solve
# ------------------------------------------------------------------------------------------------
def _ref_class(sol):
    """zero-matrix / interior / boundary / hard-case.  'hard-case' = the lowest eigenvalue is <= 0 up to rounding
    (sig_min <= 1e-10 mean|sig|) and the reference multiplier sits on the pole -sig_min (analytic hard case, or
    lam + sig_min <= 1e-10 mean|sig|, or a numerically singular PSD matrix whose minimum-norm stationary point is
    inside the ball).  It contains every input on which treigen.solve can take its hard-case branch."""
    sig = sol["sig"]
    sc = float(onp.mean(onp.abs(sig)))
    if sc == 0.0:
        return "zero-matrix"
    if sig[0] > 1e-10 * sc:
        return "interior" if sol["kind"] == "interior" else "boundary"
    if sol["kind"] in ("hard", "interior") or sol["mu"] <= 1e-10 * sc:
        return "hard-case"
    return "boundary"


def _lib_pz_zero(A, b, Delta):
    """Label only (never a verdict): does p.z vanish *exactly* in treigen's hard-case formula, for either reading of
    'lowest eigenvector' (row v[0] or column v[:,0]) of the eigenvector matrix jax's eigh returns for this input?"""
    import jax.numpy as jnp
    sig, v = jnp.linalg.eigh(jnp.asarray(A))
    sig, v = onp.asarray(sig), onp.asarray(v)
    eps = 1e-12 * float(onp.mean(onp.abs(sig)))
    lam = -sig[0] + eps if sig[0] < eps else 0.0
    with onp.errstate(all="ignore"):
        p = -v @ ((v.T @ onp.asarray(b)) / (sig + lam))
        return bool(float(p @ v[0]) == 0.0 or float(p @ v[:, 0]) == 0.0)


def _check_certificate(ref, A, b, Delta, sol, rec, tag):
    cert = ref.certificate(A, b, Delta, sol)
    for k, v in cert.items():
        rec.track_max("%s:reference_certificate:%s" % (tag, k), v)
    if max(cert.values()) > TAU_CERT:
        raise AssertionError("reference solution fails its own optimality certificate: %r" % (cert,))


NEWTON_BUDGET = 500
STALL_KEY = "treigen.solve|secular-equation-loop-does-not-terminate"


class _NewtonBudget:
    """Deterministic horizon for treigen.solve's unguarded secular-equation loop: counts the loop's calls of the
    module-level helper qnorm_squared (one per iteration) and raises HorizonExceeded beyond NEWTON_BUDGET.
    Coverage / no-verdict accounting only -- never a verdict."""

    def __init__(self, treigen):
        self.t = treigen
        self.orig = treigen.qnorm_squared
        self.count = 0
        self.maxcount = 0

    def __enter__(self):
        from mc.core import HorizonExceeded
        self.count = 0

        def counted(bvv, sig):
            self.count += 1
            if self.count > NEWTON_BUDGET:
                raise HorizonExceeded()
            return self.orig(bvv, sig)
        self.t.qnorm_squared = counted
        return self

    def __exit__(self, *a):
        self.t.qnorm_squared = self.orig
        self.maxcount = max(self.maxcount, min(self.count, NEWTON_BUDGET))
        return False


def _run_treigen(g, tier, seed, rec):
    import jax.numpy as jnp
    from optimism.treigen import treigen
    from mc.core import horizon, HorizonExceeded
    from mc.ref import trs_ref as ref
    from mc.runner import exception_key

    n = g["n"]
    radii = _radii(tier)
    ncases = len(g["specs"]) * len(BASES) * len(GRADS) * len(radii)
    sample_ids = set(pick(range(ncases), seed, 2))
    budget = _NewtonBudget(treigen)
    treigen.solve(jnp.eye(n), jnp.ones(n), 0.5)        # compile eigh for this size outside any horizon
    idx = -1
    for spec in g["specs"]:
        sig = spectrum(spec, n)
        hnorm = float(onp.max(onp.abs(sig)))
        for bl in BASES:
            Q = basis(bl, n, seed)
            A = make_H(sig, Q)
            Aj = jnp.array(A)
            bclass = "identity" if bl == "identity" else "generic"
            for gl in GRADS:
                b = gradient(gl, n, sig, Q)
                bnorm = float(onp.linalg.norm(b))
                for rl, Delta in radii:
                    idx += 1
                    cid = "r=treigen;n=%d;spec=%s;basis=%s;grad=%s;rad=%s" % (n, spec, bl, gl, rl)
                    if not rec.want(cid):
                        continue
                    sol = ref.more_sorensen(A, b, Delta)
                    _check_certificate(ref, A, b, Delta, sol, rec, "treigen")
                    cls = _ref_class(sol)
                    rec.branch("treigen:ref-class:" + cls)
                    nontrivial = cls != "interior"

                    def fail(sig_, detail, pz=False):
                        d = {"A": A, "b": b, "Delta": Delta, "reference_step": sol["s"],
                             "reference_model": sol["value"], "reference_lambda": sol["lam"]}
                        d.update(detail)
                        if pz:
                            key = "treigen.solve|%s|pz=0|%s" % (cls, sig_)
                        else:
                            key = ("treigen.solve|zero-matrix|%s" % sig_) if cls == "zero-matrix" else \
                                  ("treigen.solve|%s|eigenbasis=%s|%s" % (cls, bclass, sig_))
                        rec.violation(key, cid, d)

                    try:
                        with horizon(20), budget:
                            s = treigen.solve(Aj, jnp.array(b), Delta)
                            s = onp.asarray(s, dtype=float)
                    except HorizonExceeded:
                        stalled = budget.count > NEWTON_BUDGET
                        rec.branch("treigen:newton-stalled" if stalled else "treigen:wall-horizon")
                        if stalled:
                            # the secular-equation loop has no exit: once the update of lambda falls below its floating
                            # point spacing the iteration is a fixed point with |error| > 1e-9 and never returns
                            rec.violation(STALL_KEY, cid, {"A": A, "b": b, "Delta": Delta, "iterations": ">%d" % NEWTON_BUDGET,
                                                           "reference_class": cls})
                            rec.case(cid, nontrivial=nontrivial, outcome="treigen:does-not-terminate")
                        else:
                            rec.noverdict(cid, "horizon")
                        continue
                    except Exception as e:  # noqa
                        fail(exception_key(e), {"error": repr(e)})
                        rec.case(cid, nontrivial=nontrivial, outcome="treigen:exception")
                        continue
                    rec.branch("treigen:newton-iterations:%s" % ("0" if budget.count == 0 else
                                                                  ("1-9" if budget.count < 10 else ">=10")))
                    if not _finite(s):
                        fail("nonfinite", {"step": s}, pz=(cls == "hard-case" and _lib_pz_zero(A, b, Delta)))
                        rec.case(cid, nontrivial=nontrivial, outcome="treigen:%s:nonfinite" % cls)
                        continue
                    sn = float(onp.linalg.norm(s))
                    rec.track_max("treigen:ball_excess(|s|/Delta-1)", sn / Delta - 1.0)
                    if sn > Delta * (1.0 + TAU_TREIGEN_BALL):
                        fail("outside-ball", {"step": s, "norm_over_Delta": sn / Delta})
                    ms = ref.model(A, b, s)
                    sc = bnorm * Delta + hnorm * Delta * Delta
                    if sc > 0 and ms <= sol["value"] + TAU_TREIGEN_OPT * sc:
                        rec.track_max("treigen:optimality_gap/(|b|Delta+|A|Delta^2) [passing cases]",
                                      (ms - sol["value"]) / sc)
                    if ms > sol["value"] + TAU_TREIGEN_OPT * sc:
                        fail("suboptimal", {"step": s, "model_step": ms, "gap_over_scale": (ms - sol["value"]) / sc})
                    rec.case(cid, nontrivial=nontrivial, outcome="treigen:" + cls,
                             sample=({"case": cid, "class": cls, "model_step": ms, "model_reference": sol["value"],
                                      "norm_over_Delta": sn / Delta} if idx in sample_ids else None))


# ------------------------------------------------------------------------------------------------
# ModelProblem (subspace wrapper around treigen.solve)
# ------------------------------------------------------------------------------------------------
def _run_subspace(g, tier, seed, rec):
    import jax.numpy as jnp
    from optimism import EquationSolverSubspace as ESS
    from mc.core import horizon, HorizonExceeded
    from mc.ref import trs_ref as ref
    from mc.runner import exception_key

    n = g["n"]
    radii = _radii(tier)
    ncases = len(g["specs"]) * len(BASES) * len(GRADS) * len(radii) * len(SUBSPACES)
    sample_ids = set(pick(range(ncases), seed, 2))
    budget = _NewtonBudget(ESS.treigen)
    idx = -1
    for spec in g["specs"]:
        sig = spectrum(spec, n)
        hnorm = float(onp.max(onp.abs(sig)))
        for bl in BASES:
            Q = basis(bl, n, seed)
            K = make_H(sig, Q)
            Kj = jnp.array(K)
            P, _ = precond("poor", n, K, sig, Q, seed)
            w = _rotation(n, seed, 3)[:, -1]
            for gl in GRADS:
                b = gradient(gl, n, sig, Q)
                bnorm = float(onp.linalg.norm(b))
                for sl in SUBSPACES:
                    vecs = [b]
                    if "Pg" in sl:
                        vecs.append(P @ b)
                    if sl.endswith("+w"):
                        vecs.append(w)
                    if sl.endswith("q0"):
                        vecs.append(Q[:, 0].copy())
                    admissible = len(vecs) <= n and all(onp.linalg.norm(v) > 0 for v in vecs)
                    if admissible:
                        W = onp.array([v / onp.linalg.norm(v) for v in vecs]).T
                        admissible = float(onp.linalg.svd(W, compute_uv=False)[-1]) >= 1e-3
                    for rl, Delta in radii:
                        idx += 1
                        cid = "r=subspace;n=%d;spec=%s;basis=%s;grad=%s;sub=%s;rad=%s" % (n, spec, bl, gl, sl, rl)
                        if not rec.want(cid):
                            continue
                        if not admissible:
                            rec.branch("subspace:inadmissible-dependent-or-too-many-vectors")
                            continue
                        rsol = ref.subspace_minimum(K, b, vecs, Delta)
                        sol = rsol["reduced"]
                        _check_certificate(ref, rsol["Hr"], rsol["gr"], Delta, sol, rec, "subspace")
                        cls = _ref_class(sol)
                        rec.branch("subspace:ref-class:" + cls)
                        nontrivial = cls != "interior"

                        def fail(sig_, detail, pz=False):
                            d = {"K": K, "b": b, "Delta": Delta, "vectors": vecs, "reference_step": rsol["z"],
                                 "reference_model": rsol["value"]}
                            d.update(detail)
                            key = ("ModelProblem.solve|%s|pz=0|%s" % (cls, sig_)) if pz else \
                                  ("ModelProblem.solve|%s|%s" % (cls, sig_))
                            rec.violation(key, cid, d)

                        try:
                            with horizon(20), budget:
                                mp_ = ESS.ModelProblem(jnp.array(b))
                                for v in vecs:
                                    vj = jnp.array(v)
                                    mp_.add_vector(vj, Kj @ vj)
                                mp_.setup_system()
                                step = onp.asarray(mp_.solve(Delta), dtype=float)
                        except HorizonExceeded:
                            stalled = budget.count > NEWTON_BUDGET
                            rec.branch("subspace:newton-stalled" if stalled else "subspace:wall-horizon")
                            if stalled:
                                rec.violation(STALL_KEY, cid, {"K": K, "b": b, "Delta": Delta, "vectors": vecs,
                                                               "iterations": ">%d" % NEWTON_BUDGET, "reference_class": cls})
                                rec.case(cid, nontrivial=nontrivial, outcome="subspace:does-not-terminate")
                            else:
                                rec.noverdict(cid, "horizon")
                            continue
                        except Exception as e:  # noqa
                            fail(exception_key(e), {"error": repr(e)})
                            rec.case(cid, nontrivial=nontrivial, outcome="subspace:exception")
                            continue
                        if not _finite(step):
                            # measured label: library-side reduced system diagonal => p.z == 0 exactly in the hard case
                            Hl = onp.asarray(mp_.H, dtype=float)
                            gl_ = onp.asarray(mp_.g, dtype=float)
                            pz = cls == "hard-case" and _lib_pz_zero(Hl, gl_, Delta)
                            fail("nonfinite", {"step": step, "reduced_H": Hl, "reduced_g": gl_}, pz=pz)
                            rec.case(cid, nontrivial=nontrivial, outcome="subspace:%s:nonfinite" % cls, steps=len(vecs) + 2)
                            continue
                        sn = float(onp.linalg.norm(step))
                        rec.track_max("subspace:ball_excess(|s|/Delta-1)", sn / Delta - 1.0)
                        if sn > Delta * (1.0 + TAU_TREIGEN_BALL):
                            fail("outside-ball", {"step": step, "norm_over_Delta": sn / Delta})
                        ms = ref.model(K, b, step)
                        sc = bnorm * Delta + hnorm * Delta * Delta
                        if sc > 0 and ms <= rsol["value"] + TAU_TREIGEN_OPT * sc:
                            rec.track_max("subspace:optimality_gap/(|b|Delta+|K|Delta^2) [passing cases]",
                                          (ms - rsol["value"]) / sc)
                        if ms > rsol["value"] + TAU_TREIGEN_OPT * sc:
                            fail("suboptimal", {"step": step, "model_step": ms, "gap_over_scale": (ms - rsol["value"]) / sc,
                                                "reduced_H": onp.asarray(mp_.H), "reduced_g": onp.asarray(mp_.g)})
                        rec.case(cid, nontrivial=nontrivial, outcome="subspace:" + cls, steps=len(vecs) + 2,
                                 sample=({"case": cid, "class": cls, "model_step": ms, "model_reference": rsol["value"]}
                                         if idx in sample_ids else None))


# ------------------------------------------------------------------------------------------------
# dogleg_step
# ------------------------------------------------------------------------------------------------
def _dogleg_pair(cls, u, w, N, Delta):
    """(cp, newtonP) with prescribed N-norms relative to Delta. u, w: unit N-norm directions."""
    if cls == "both-inside":
        return 0.3 * Delta * u, 0.7 * Delta * w
    if cls == "cp-outside":
        return 1.5 * Delta * u, 3.0 * Delta * w
    if cls == "newton-outside":
        return 0.5 * Delta * u, 2.0 * Delta * w
    if cls == "cp-longer":
        return 0.8 * Delta * u, 0.4 * Delta * w
    if cls == "collinear":
        return 0.25 * Delta * u, 0.75 * Delta * u
    if cls == "collinear-outside":
        return 0.5 * Delta * u, 4.0 * Delta * u
    if cls == "equal-inside":
        return 0.5 * Delta * u, 0.5 * Delta * u
    if cls == "equal-outside":
        return 2.0 * Delta * u, 2.0 * Delta * u
    if cls == "zero-newton":
        return 0.5 * Delta * u, 0.0 * w
    if cls == "zero-cp":
        return 0.0 * u, 2.0 * Delta * w
    if cls == "cp-on-boundary":
        return Delta * u, 2.0 * Delta * w
    if cls == "newton-on-boundary":
        return 0.5 * Delta * u, Delta * w
    if cls == "opposite":
        return 0.5 * Delta * u, -3.0 * Delta * u
    raise ValueError(cls)


def _run_dogleg(g, tier, seed, rec):
    import jax.numpy as jnp
    from optimism import EquationSolver as ES
    from mc.ref import trs_ref as ref
    from mc.runner import exception_key

    radii = _radii(tier)
    dims = _dims(tier)
    ncases = len(dims) * len(PRECONDS) * len(DOGLEG_CLASSES) * len(DOGLEG_DIRS) * len(radii)
    sample_ids = set(pick(range(ncases), seed, 2))
    idx = -1
    for n in dims:
        sig = spectrum("kappa1e6", n)
        Q = basis("generic", n, seed)
        H = make_H(sig, Q)
        for pl in PRECONDS:
            _, M = precond(pl, n, H, sig, Q, seed)
            if M is None:
                mat_mul = lambda v: v
            else:
                Mj = jnp.array(M)
                mat_mul = lambda v, Mj=Mj: Mj @ v
            nclass = "identity" if M is None else "matrix"
            for dl in DOGLEG_DIRS:
                if dl == "axes":
                    u, w = onp.eye(n)[:, 0].copy(), onp.eye(n)[:, n - 1].copy()
                else:
                    R = _rotation(n, seed, 4)
                    u, w = R[:, 0].copy(), R[:, n - 1].copy()
                if n == 1:
                    w = -u                    # only two directions exist
                u = u / math.sqrt(ref.nnorm_sq(u, M))
                w = w / math.sqrt(ref.nnorm_sq(w, M))
                for cls in DOGLEG_CLASSES:
                    for rl, Delta in radii:
                        idx += 1
                        cid = "r=dogleg;n=%d;norm=%s;dirs=%s;class=%s;rad=%s" % (n, pl, dl, cls, rl)
                        if not rec.want(cid):
                            continue
                        cp, q = _dogleg_pair(cls, u, w, M, Delta)

                        def fail(sig_, detail):
                            d = {"cp": cp, "newtonP": q, "Delta": Delta, "M": M}
                            d.update(detail)
                            rec.violation("dogleg_step|norm=%s|class=%s|%s" % (nclass, cls, sig_), cid, d)

                        try:
                            x = onp.asarray(ES.dogleg_step(jnp.array(cp), jnp.array(q), Delta, mat_mul), dtype=float)
                        except Exception as e:  # noqa
                            fail(exception_key(e), {"error": repr(e)})
                            rec.case(cid, nontrivial=True, outcome="dogleg:exception")
                            continue
                        # reference branch (for coverage / non-triviality only)
                        cc, nn_, tt = ref.nnorm_sq(cp, M), ref.nnorm_sq(q, M), Delta * Delta
                        if cc >= tt:
                            br = "cp-scaled-to-boundary"
                        elif cc > nn_:
                            br = "cp-returned"
                        elif nn_ > tt:
                            br = "dogleg-leg2-to-boundary"
                        else:
                            br = "newton"
                        rec.branch("dogleg:ref-branch:" + br)
                        if not _finite(x):
                            fail("nonfinite", {"x": x})
                            rec.case(cid, nontrivial=br != "newton", outcome="dogleg:nonfinite")
                            continue
                        xx = ref.nnorm_sq(x, M)
                        rec.track_max("dogleg:ball_excess(||x||_N/Delta-1)", math.sqrt(xx) / Delta - 1.0)
                        if xx > tt * (1.0 + TAU_BALL["euclid"]):
                            fail("outside-ball", {"x": x, "norm_over_Delta": math.sqrt(xx) / Delta})
                        dist, leg, par = ref.dogleg_path_distance(x, cp, q)
                        L = max(float(onp.linalg.norm(cp)), float(onp.linalg.norm(q)))
                        if L > 0:
                            rec.track_max("dogleg:path_distance/max(|cp|,|newtonP|)", dist / L)
                        if dist > TAU_DOGLEG_PATH * L:
                            fail("off-path", {"x": x, "distance": dist, "closest": [leg, par]})
                        rec.case(cid, nontrivial=br != "newton", outcome="dogleg:%s:%s" % (br, leg),
                                 sample=({"case": cid, "branch": br, "closest": [leg, par],
                                          "norm_over_Delta": math.sqrt(xx) / Delta} if idx in sample_ids else None))
