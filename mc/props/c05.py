"""C05 -- bound-constrained trust-region (SPG) solver stays feasible, descends, flags honestly;
projections onto the box and onto box-intersect-trust-region are correct.

E-DEV x E-PROD on the real TrustRegionSPG.bound_constrained_trust_region_minimize / solve with a
trajectory monitor, plus an E-PROD lattice for project / project_onto_tr.
"""
import contextlib
import io
import itertools
import math

import numpy as onp

from collections import OrderedDict

from mc.core import Axis, case_id, deviations, horizon, HorizonExceeded, stable_hash

ID = "C05"
TITLE = "TrustRegionSPG: feasibility of every reported iterate, descent, honest flag, box-QP minimiser, projections"
LEVEL = "model_checking"
RULE = ("E-DEV x E-PROD: (objective family) x (box: all 5^n per-coordinate bound types {free, lower, upper, two-sided, "
        "lower==upper} x 3 placements of the unconstrained minimiser {outside, inside, on a face}) x (feasible starts: "
        "low vertex, centre, high vertex, face midpoint; quick uses the first two / one) x every solver configuration with at most k non-default axes "
        "(8 axes). Part A (full box product) uses k_A, part B (reduced box set) uses k_B > k_A. Plus E-PROD lattice for "
        "project/project_onto_tr (points x boxes x radii). Non-trivial = at least one SPG subproblem was solved "
        "(solver run) / the projection moved the point (projection case); both measured.")
ASSUMPTIONS = [
    "sksparse stand-in in /verif/shim (preconditioner is only refreshed on the radius-too-small path)",
    "feasibility allowance: 8 ulp of max(|x_i|, |bound_i|, ||x - x_prev||) per coordinate, because iterates are formed as "
    "x + sum(alpha*s) with the projection applied to the trial point and not to the sum",
    "descent: exact in the solver's own objective evaluation at accepted iterates; at the converged exit (trial point "
    "reported without acceptance test) an increase within (8+4n) eps sum|terms| is not counted",
    "for the warm-starting entry point the start is moved by the library before the solver sees it, so feasibility of the "
    "first reported point is only required when a step was taken; RuntimeError('No acceptable Cauchy point') exits and "
    "horizon overruns are counted, not violations",
]
TOLERANCES = {"feasibility": "8 ulp", "flag": "||P(x-g)-x|| < tol*(1+1e-6)+1e-13 (reference gradient and clamp)",
              "box-QP minimiser": "10*tol*(1+lambda_max)/lambda_min",
              "project": "exact clamp", "project_onto_tr": "||p-xk|| <= Delta*(1+1e-7) + 2*(2e-12+4eps)*||x-xk|| (brentq default xtol/rtol on the ray parameter), p in box exactly"}

HORIZON_S = 60.0
TYPES = ["free", "lo", "up", "two", "fix"]
PLACE = ["outside", "inside", "onface"]


def _axes():
    return [
        Axis("nonmono", [("T", True), ("F", False)]),
        Axis("tr", [("2", 2.0), ("1e-3", 1e-3), ("1e3", 1e3)]),
        Axis("mintr", [("1e-8", 1e-8), ("1e-1", 1e-1)]),
        Axis("maxtr", [("100", 100), ("1", 1), ("2", 2)]),
        Axis("maxspg", [("25", 25), ("1", 1)]),
        Axis("incr", [("F", False), ("T", True)]),
        Axis("tol", [("1e-8", 1e-8), ("1e-3", 1e-3)]),
        Axis("entry", [("min", "min"), ("solve-nowarm", "solve-nowarm"), ("solve-warm", "solve-warm")]),
    ]


WARM_CAPPED = [{"entry": "solve-warm", "maxtr": "1", "maxspg": "1"}, {"entry": "solve-warm", "maxtr": "1", "tr": "1e-3"},
               {"entry": "solve-warm", "maxtr": "1", "tr": "1e3"}, {"entry": "solve-warm", "maxtr": "2", "maxspg": "1"},
               {"entry": "solve-warm", "maxtr": "1", "maxspg": "1", "nonmono": "F"}]


def _ks(tier):
    # the thorough tier has the same deviation bounds as the quick tier and a wider alphabet (all 6 spectra, n = 3, all
    # starts, Rosenbrock with k = 2 and 16 shards).  A first version with k = (2, 3) costs ~30 CPU-hours and never finished
    # inside a 100-minute box on the 16-core sandbox; single groups of it were run (one of them found defect D29)
    return (1, 2)


FAMS_Q = [("spd1", "I"), ("spd100", "G"), ("badscale", "G"), ("indef", "G"), ("zeroA", "I"), ("semidef", "G")]


def bounds(tier):
    from mc.core import n_deviations
    kA, kB = _ks(tier)
    ax = _axes()
    return {"k_full_box_product": kA, "k_reduced_box_set": kB, "configs_A": n_deviations(ax, kA),
            "configs_B": n_deviations(ax, kB), "axes": {a.name: a.labels for a in ax},
            "bound_types": TYPES, "placements": PLACE, "horizon_s": HORIZON_S,
            "dims": [2] if tier == "quick" else [2, 3]}


def groups(tier, seed):
    gs = []
    dims = [2] if tier == "quick" else [3, 2]
    for n in dims:
        for spec, basis in FAMS_Q:
            if tier == "quick" and spec in ("spd1", "semidef"):
                continue        # quick keeps 4 of the 6 spectra (spd100, badscale, indef, zeroA)
            for part in ("A", "B"):
                if n == 3 and part == "A":
                    continue
                ns = 4 if tier == "quick" else 8
                for s in range(ns):
                    gs.append({"name": "q-n%d-%s%s-%s%d" % (n, spec, basis, part, s), "fam": "quartic", "n": n,
                               "spec": spec, "basis": basis, "part": part, "shard": s, "nshards": ns})
    nros = 4 if tier == "quick" else 16
    for s in range(nros):      # Rosenbrock costs ~0.7 s per run (many SPG iterations): quick uses k_A on the reduced box set
        gs.append({"name": "rosenbrock-%d" % s, "fam": "rosenbrock", "n": 2, "part": "B", "shard": s, "nshards": nros})
    gs.append({"name": "cos1d", "fam": "cos1d", "n": 1, "part": "B", "shard": 0, "nshards": 1})
    # log barrier that is NaN outside (-1,1)^2 inside a LARGER box: trial points can have NaN objective / gradient / optimality
    # (added after a seeded change that treated a NaN optimality as converged went undetected)
    for s in range(2):
        gs.append({"name": "barrier-%d" % s, "fam": "barrier", "n": 2, "part": "B", "shard": s, "nshards": 2})
    # naive softplus: value inf and gradient NaN (inf/inf) at far trial points
    for s in range(2):
        gs.append({"name": "softplus-%d" % s, "fam": "softplus", "n": 2, "part": "B", "shard": s, "nshards": 2})
    for k in range(12):
        gs.append({"name": "projections-%02d" % k, "fam": "proj", "n": 0, "shard": k, "nshards": 12})
    w = {"rosenbrock": 0, "barrier": 1, "softplus": 1, "proj": 2}
    gs.sort(key=lambda g: (w.get(g["fam"], 3 if g.get("part") == "B" else 4), g["name"]))     # heaviest first
    return gs


def _boxes(n, centre, part, tier):
    """yield (label, lb, ub). centre = reference point (unconstrained minimiser or a fixed point)."""
    if n == 3:
        combos = [c for i, c in enumerate(itertools.product(TYPES, repeat=3)) if i % 5 == 0 or len(set(c)) == 1][:27]
    else:
        combos = list(itertools.product(TYPES, repeat=n))
    places = PLACE if part == "A" else ["outside"]
    for combo in combos:
        for pl in places:
            lb, ub = onp.full(n, -onp.inf), onp.full(n, onp.inf)
            for i, t in enumerate(combo):
                c = centre[i]
                w = 1.0 + 0.5 * i
                if pl == "outside":
                    lo, up = c + 0.5, c + 0.5 + w       # minimiser below the interval
                    if t == "up":
                        lo, up = c - 0.5 - w, c - 0.5
                elif pl == "inside":
                    lo, up = c - w, c + 2 * w
                else:
                    lo, up = c, c + w                   # minimiser exactly on the lower face
                    if t == "up":
                        lo, up = c - w, c
                if t == "lo":
                    lb[i] = lo
                elif t == "up":
                    ub[i] = up
                elif t == "two":
                    lb[i], ub[i] = lo, up
                elif t == "fix":
                    lb[i] = ub[i] = lo
            yield "box=%s:%s" % ("".join(x[0] for x in combo), pl), lb, ub


def _starts(lb, ub, centre, part, tier, fam=None):
    n = lb.size
    lo = onp.where(onp.isfinite(lb), lb, onp.where(onp.isfinite(ub), ub - 3.0, centre - 3.0))
    hi = onp.where(onp.isfinite(ub), ub, onp.where(onp.isfinite(lb), lb + 3.0, centre + 3.0))
    mid = 0.5 * (lo + hi)
    face = mid.copy()
    face[0] = lo[0]
    sts = [("lowvertex", lo), ("centre", mid), ("highvertex", hi), ("facemid", face)]
    if tier == "quick":
        if fam == "rosenbrock":
            return sts[:2]      # 'centre' too: a first trust-region step from there is rejected (needed to see defect D29)
        return sts[:2] if part == "A" else sts[:1]
    return sts if part == "A" else sts[:2]


def _box_qp(A, b, lb, ub):
    """Exact minimiser of 1/2 x'Ax - b'x over the box for SPD A by enumerating all 3^n active-set patterns."""
    n = b.size
    best, bestv = None, onp.inf
    for pat in itertools.product((0, -1, 1), repeat=n):
        x = onp.zeros(n)
        ok = True
        for i, s in enumerate(pat):
            if s == -1:
                if not onp.isfinite(lb[i]):
                    ok = False
                x[i] = lb[i]
            elif s == 1:
                if not onp.isfinite(ub[i]):
                    ok = False
                x[i] = ub[i]
        if not ok:
            continue
        free = [i for i, s in enumerate(pat) if s == 0]
        fixed = [i for i, s in enumerate(pat) if s != 0]
        if free:
            rhs = b[free] - (A[onp.ix_(free, fixed)] @ x[fixed] if fixed else 0.0)
            x[free] = onp.linalg.solve(A[onp.ix_(free, free)], rhs)
        if onp.any(x < lb - 1e-13) or onp.any(x > ub + 1e-13):
            continue
        v = 0.5 * x @ A @ x - b @ x
        if v < bestv:
            best, bestv = x.copy(), v
    return best


def run_group(g, tier, seed, rec):
    if g["fam"] == "proj":
        return _run_projections(g, tier, seed, rec)
    import jax.numpy as jnp
    from optimism import TrustRegionSPG as SPG
    from optimism import Objective
    from mc.props.c01 import _make_objective, _ref
    from mc.ref import objectives as R
    from mc.runner import exception_key

    fam, n, part = g["fam"], g["n"], g["part"]
    f, params = _make_objective(fam, n)
    rvalue, rgrad, rres = _ref(fam)
    EPS = onp.finfo(float).eps
    if fam == "quartic":
        d = R.quartic_data(n, g["spec"], g["basis"], seed)
        centre = R.q_minimiser(d)
        famlab = "quartic:" + g["spec"]
    elif fam == "rosenbrock":
        d = {"a": 1.0, "bb": 100.0}
        centre = onp.array([1.0, 1.0])
        famlab = "rosenbrock"
    elif fam == "barrier":
        d = {"c": onp.array([2.0, -0.3]), "mu": 0.1}
        centre = onp.array([0.9, -0.25])
        famlab = "barrier"
    elif fam == "softplus":
        d = {"c": onp.array([0.5, 0.25])}
        centre = onp.array([0.0, math.log(0.25 / 0.75)])
        famlab = "softplus"
    else:
        d = {"t": 0.0}
        centre = onp.array([math.pi])
        famlab = "cos1d"
    obj = Objective.Objective(f, jnp.zeros(n), params(d))
    pnew, pold = params(d), params(d, old=True)
    kA, kB = _ks(tier)
    if n == 3:
        kB = 2
    if fam == "rosenbrock" and tier == "quick":
        kB = kA
    axes = _axes()
    configs = list(deviations(axes, kA if part == "A" else kB))
    # named combinations beyond the deviation bound, in every tier and group: the warm-started entry under iteration caps
    # that end the solve before any step is accepted (the unprojected warm start of defect D29 was returned only then)
    have = {c[1] for c in configs}
    for over in WARM_CAPPED:
        labels = [over.get(a.name, a.default) for a in axes]
        cfgid = case_id(axes, labels)
        if cfgid not in have:
            have.add(cfgid)
            configs.append((len(over), cfgid, OrderedDict((a.name, l) for a, l in zip(axes, labels)),
                            OrderedDict((a.name, a.value[l]) for a, l in zip(axes, labels))))

    banner = []

    def my_banner(objective, modelObjective, res, modelRes, spgIters, trSize, onBoundary, willAccept, settings):
        banner.append((str(onBoundary), bool(willAccept), float(trSize)))
    SPG.print_min_banner = my_banner
    nsub = [0]
    _sub = SPG.solve_spg_subproblem

    def my_sub(*a, **k):
        nsub[0] += 1
        return _sub(*a, **k)
    SPG.solve_spg_subproblem = my_sub

    if fam == "barrier":
        inf = onp.inf
        sts = [("zero", onp.array([0.0, 0.0])), ("nearwall", onp.array([0.999, -0.999])), ("mid", onp.array([0.5, -0.2]))]
        problems = [("box=tt:wider", onp.array([-2.0, -2.0]), onp.array([2.0, 2.0]), sts),
                    ("box=lf:onesided", onp.array([-0.5, -inf]), onp.array([inf, inf]), sts),
                    ("box=tt:inside", onp.array([-0.9, -0.9]), onp.array([0.5, 0.9]), sts[:1] + sts[2:])]
    elif fam == "softplus":
        inf = onp.inf
        sts = [("flat-left", onp.array([-20.0, -20.0])), ("zero", onp.array([0.0, 0.0])), ("mixed", onp.array([-20.0, 30.0]))]
        problems = [("box=ll:onesided", onp.array([-30.0, -30.0]), onp.array([inf, inf]), sts),
                    ("box=tt:huge", onp.array([-30.0, -30.0]), onp.array([2000.0, 2000.0]), sts),
                    ("box=ff:free", onp.array([-inf, -inf]), onp.array([inf, inf]), sts)]
    elif fam == "cos1d":
        u = R.tan_fixed_point()
        problems = [("box=t:crafted", onp.array([-100.0]), onp.array([100.0]),
                     [("newton-to-maximiser", onp.array([math.pi + u])), ("half", onp.array([0.5])),
                      ("atmax", onp.array([math.pi])), ("far", onp.array([40.0]))]),
                    ("box=t:tight", onp.array([math.pi - 0.5]), onp.array([math.pi + 2.0]),
                     [("lowvertex", onp.array([math.pi - 0.5])), ("highvertex", onp.array([math.pi + 2.0])),
                      ("atmax", onp.array([math.pi]))])]
    else:
        problems = [(bl, lb, ub, _starts(lb, ub, centre, part, tier, fam)) for bl, lb, ub in _boxes(n, centre, part, tier)]

    idx = -1
    sample_budget = [2]
    for bl, lb, ub, starts in problems:
        bnds = jnp.array(onp.column_stack((lb, ub)))
        for sl, x0 in starts:
            for ndev, cfgid, clab, cval in configs:
                idx += 1
                if idx % g["nshards"] != g["shard"]:
                    continue
                cid = "fam=%s;n=%d;basis=%s;%s;start=%s;%s" % (famlab, n, g.get("basis", "-"), bl, sl, cfgid)
                if not rec.want(cid):
                    continue
                if cval["entry"] == "solve-warm" and fam == "softplus":
                    rec.branch("skipped:warm-start-needs-positive-definite-hessian")      # Hessian ~ 2e-9 on the flat part
                    continue
                if cval["entry"] == "solve-warm" and fam == "quartic":
                    w = onp.linalg.eigvalsh(R.q_hess(onp.asarray(x0, dtype=float), d))
                    if w[0] <= 1e-10 * max(1.0, w[-1]):
                        rec.branch("skipped:warm-start-needs-positive-definite-hessian")
                        continue
                settings = SPG.get_settings(max_trust_iters=cval["maxtr"], tol=cval["tol"],
                                            max_spg_iters=cval["maxspg"], tr_size=cval["tr"],
                                            min_tr_size=cval["mintr"], spg_use_nonmonotone=cval["nonmono"],
                                            use_incremental_objective=cval["incr"])
                iterates = []

                def cb(x, o):
                    iterates.append(onp.array(x, dtype=float))
                del banner[:]
                nsub[0] = 0
                buf = io.StringIO()
                entry = cval["entry"]
                x0j = jnp.array(x0)
                fkey = lambda sig, ex="?": "SPG|fam=%s|start=%s|exit=%s|%s" % (famlab, sl, ex, sig)
                runtime_error = False
                try:
                    with contextlib.redirect_stdout(buf), horizon(HORIZON_S):
                        obj.p = pnew if entry == "min" else pold
                        obj.update_precond(x0j)
                        if entry == "min":
                            xr, ok = SPG.bound_constrained_trust_region_minimize(obj, x0j, bnds, settings, callback=cb)
                        else:
                            xr, ok = SPG.solve(obj, x0j, pnew, jnp.array(lb), jnp.array(ub), settings, callback=cb,
                                               useWarmStart=(entry == "solve-warm"))
                except HorizonExceeded:
                    rec.noverdict(cid, "horizon")
                    continue
                except RuntimeError as e:
                    if "No acceptable Cauchy point" in str(e):
                        runtime_error = True
                        rec.branch("exit:cauchy-line-search-runtime-error")
                        xr, ok = (iterates[-1] if iterates else x0), False
                    else:
                        raise
                except Exception as e:  # noqa
                    ek = exception_key(e)
                    if ek.endswith("@harness"):
                        raise
                    rec.violation(fkey(ek, "exception"), cid, {"error": repr(e), "labels": dict(clab), "lb": lb, "ub": ub, "x0": x0})
                    rec.case(cid, nontrivial=False, outcome="exception")
                    continue
                out = buf.getvalue()
                xr = onp.array(xr, dtype=float)
                ok = bool(ok)
                if runtime_error:
                    ex = "cauchy-runtime-error"
                elif "Reached the maximum number" in out:
                    ex = "max-iters"
                elif "still too small" in out:
                    ex = "tr-too-small"
                elif ok and nsub[0] == 0:
                    ex = "converged-initial"
                elif ok:
                    ex = "converged"
                else:
                    ex = "other-false"
                if not runtime_error:
                    rec.branch("exit:" + ex)
                for msg, nm in (("generalized cauchy step outside trust region", "cauchy-outside-tr"),
                                ("Model objective increased", "model-increase-resign"),
                                ("too small, updating precond", "tr-too-small-precond-retry"),
                                ("num warm start cg iters", "warm-start")):
                    if msg in out:
                        rec.branch(nm)
                for st, acc, trs in banner:
                    rec.branch("step:%s:%s" % (st, "accepted" if acc else "rejected"))
                    rec.state("C05|%s|%s|%s|%s|tr=%d" % (famlab, st, acc, ex,
                                                         int(math.floor(math.log10(trs))) if trs > 0 else -999))
                sigs = []
                detail = {"labels": dict(clab), "lb": lb, "ub": ub, "x0": x0, "returned": xr, "success": ok,
                          "exit": ex, "n_reported": len(iterates), "n_subproblems": nsub[0]}
                known_start = entry in ("min", "solve-nowarm")
                # feasibility of every reported iterate and of the return
                pts = list(iterates) + [xr]
                prev = onp.asarray(x0, dtype=float)
                # iterates are x0 + sum(alpha*s): their rounding error scales with the largest magnitude met along the
                # whole trajectory, not with the final value
                finite_pts = [p_ for p_ in pts if onp.all(onp.isfinite(p_))]
                traj = max([float(onp.max(onp.abs(x0)))] + [float(onp.max(onp.abs(p_))) for p_ in finite_pts]
                           + [float(onp.linalg.norm(p_ - onp.asarray(x0))) for p_ in finite_pts])
                for j, pt in enumerate(pts):
                    if not known_start and nsub[0] == 0:
                        break           # warm-started start reported as is: premise "feasible start" not under our control
                    step = traj
                    dlt = 8 * onp.spacing(onp.maximum(onp.maximum(onp.abs(pt), step),
                                                      onp.maximum(onp.where(onp.isfinite(lb), onp.abs(lb), 0),
                                                                  onp.where(onp.isfinite(ub), onp.abs(ub), 0))))
                    below, above = lb - pt, pt - ub
                    worst = float(max(onp.max(below), onp.max(above)))
                    if worst > 0:
                        rec.track_max("bound_excess_in_ulps", float(onp.max(onp.maximum(below, above) / (dlt / 8))))
                        rec.branch("iterate-outside-box-within-rounding")
                    if not (onp.all(below <= dlt) and onp.all(above <= dlt)) or not onp.all(onp.isfinite(pt)):
                        sigs.append(("reported-point-outside-bounds", {"point": pt, "index": j}))
                        break
                    prev = pt
                if iterates and not runtime_error:
                    if not onp.array_equal(xr, iterates[-1], equal_nan=True):
                        sigs.append(("returned-not-last-reported", {"last": iterates[-1]}))
                elif known_start and not runtime_error:
                    if not onp.array_equal(xr, onp.asarray(x0, dtype=float)):
                        sigs.append(("returned-not-start-when-nothing-reported", {}))
                same_p = all((a is None and b is None) or (a is not None and b is not None and
                                                            onp.array_equal(onp.asarray(a), onp.asarray(b)))
                             for a, b in zip(obj.p, pnew))
                if not same_p and not runtime_error:
                    sigs.append(("objective.p-not-requested", {}))
                if not cval["incr"]:
                    seq = ([onp.asarray(x0, dtype=float)] if known_start else []) + iterates
                    vals = [float(obj.objective(jnp.array(xx), pnew)) for xx in seq]
                    for i in range(len(seq) - 1):
                        a, b = vals[i], vals[i + 1]
                        last_conv = ok and ex == "converged" and i == len(seq) - 2
                        if b != b or a != a:
                            sigs.append(("nan-objective-at-reported-iterate", {"index": i + 1}))
                            break
                        if b > a:
                            S = max(float(rres(seq[i], d)), float(rres(seq[i + 1], d)))
                            if last_conv:
                                rec.track_max("converged_exit_increase_over_resolution", (b - a) / max(S, 1e-300))
                                if (b - a) <= (8 + 4 * n) * EPS * S:
                                    rec.branch("converged-exit-rounding-increase")
                                    continue
                                sigs.append(("objective-increase-at-converged-trial", {"from": a, "to": b}))
                            else:
                                sigs.append(("objective-increase-at-accepted-iterate", {"from": a, "to": b, "index": i + 1}))
                            break
                if ok:
                    with onp.errstate(all="ignore"):
                        gr = rgrad(xr, d)
                        pg = onp.clip(xr - gr, lb, ub) - xr
                        on = float(onp.linalg.norm(pg))
                    rec.track_max("optimality_over_tol_at_success", on / cval["tol"])
                    allow = R.grad_allowance(fam, xr, d)
                    if not on < cval["tol"] * (1 + 1e-6) + 1e-13 + allow:
                        sigs.append(("success-with-large-projected-gradient", {"optimality": on, "tol": cval["tol"]}))
                    if fam == "quartic" and g["spec"] in ("spd1", "spd100", "badscale"):
                        xs = _box_qp(d["A"], d["b"], lb, ub)
                        lam = d["lam"]
                        bound = 10 * cval["tol"] * (1 + float(onp.max(lam))) / float(onp.min(lam))
                        err = float(onp.linalg.norm(xr - xs))
                        rec.track_max("boxqp_error_over_bound", err / bound)
                        if not err <= bound:
                            sigs.append(("not-the-box-constrained-minimiser", {"error": err, "expected": xs}))
                for sig, extra in sigs:
                    rec.violation(fkey(sig, ex), cid, dict(detail, **extra))
                samp = None
                if sample_budget[0] > 0 and nsub[0] > 1 and stable_hash(cid + str(seed)) % 40 == 0:
                    sample_budget[0] -= 1
                    samp = {"case": cid, "exit": ex, "success": ok, "reported_iterates": len(iterates),
                            "subproblems": nsub[0], "lb": lb, "ub": ub, "x0": x0, "returned": xr}
                rec.case(cid, nontrivial=nsub[0] > 0, outcome="%s:%s" % (ex, "ok" if not sigs else "violating"),
                         sample=samp, steps=max(1, nsub[0]))


def _run_projections(g, tier, seed, rec):
    import jax.numpy as jnp
    from optimism import TrustRegionSPG as SPG
    vals = [-2.0, -0.5, 0.0, 0.25, 1.0, 3.0]
    boxes1d = [(-onp.inf, onp.inf), (0.0, onp.inf), (-onp.inf, 0.25), (-0.5, 1.0), (0.25, 0.25), (0.0, 3.0)]
    radii = [1e-6, 1e-3, 0.1, 1.0, 10.0, 1e3, 1e6] if tier == "quick" else [10.0 ** e for e in range(-6, 7)]
    probe = [-2.5, -1.0, -0.5, 0.0, 0.1, 0.25, 0.6, 1.0, 2.0, 3.0, 5.0]
    bi = -1
    for n in (1, 2):
        for box in itertools.product(range(len(boxes1d)), repeat=n):
            bi += 1
            if bi % g["nshards"] != g["shard"]:
                continue
            lb = onp.array([boxes1d[i][0] for i in box])
            ub = onp.array([boxes1d[i][1] for i in box])
            bnds = jnp.array(onp.column_stack((lb, ub)))
            lattice = [onp.array(q) for q in itertools.product(probe, repeat=n)
                       if all(lb[i] <= q[i] <= ub[i] for i in range(n))]
            for xs in itertools.product(vals, repeat=n):
                x = onp.array(xs)
                cid = "project;n=%d;box=%s;x=%s" % (n, "".join(map(str, box)), ",".join(map(str, xs)))
                if rec.want(cid):
                    p = onp.array(SPG.project(jnp.array(x), bnds))
                    exp = onp.clip(x, lb, ub)
                    if not onp.array_equal(p, exp):
                        rec.violation("project|not-the-clamp", cid, {"x": x, "lb": lb, "ub": ub, "got": p, "expected": exp})
                    elif any(onp.linalg.norm(q - x) < onp.linalg.norm(p - x) - 1e-15 for q in lattice):
                        rec.violation("project|not-closest", cid, {"x": x, "lb": lb, "ub": ub, "got": p})
                    rec.case(cid, nontrivial=not onp.array_equal(p, x), outcome="moved" if not onp.array_equal(p, x) else "fixed")
                # project_onto_tr: xk feasible
                for xk in lattice[::3]:
                    for r in radii:
                        cid2 = "project_onto_tr;n=%d;box=%s;x=%s;xk=%s;r=%g" % (
                            n, "".join(map(str, box)), ",".join(map(str, xs)), ",".join(map(str, xk.tolist())), r)
                        if not rec.want(cid2):
                            continue
                        dist = float(onp.linalg.norm(onp.clip(x, lb, ub) - xk))
                        try:
                            p = onp.array(SPG.project_onto_tr(jnp.array(x), jnp.array(xk), bnds, r))
                        except Exception as e:  # noqa
                            from mc.runner import exception_key
                            rec.violation("project_onto_tr|" + exception_key(e), cid2, {"x": x, "xk": xk, "r": r, "lb": lb, "ub": ub})
                            rec.case(cid2, outcome="exception")
                            continue
                        inbox = onp.all(p >= lb) and onp.all(p <= ub)
                        nr = float(onp.linalg.norm(p - xk))
                        rec.track_max("project_onto_tr_radius_excess_rel", nr / r - 1)
                        sig = None
                        if not inbox:
                            sig = "outside-box"
                        elif not nr <= r * (1 + 1e-7) + 2 * (2e-12 + 4 * 2.3e-16) * float(onp.linalg.norm(x - xk)):
                            # brentq is called with its defaults xtol=2e-12, rtol=4eps on the ray parameter t in [0,1]
                            sig = "outside-trust-region"
                        elif dist <= r and not onp.array_equal(p, onp.clip(x, lb, ub)):
                            sig = "inside-case-not-the-projection"
                        if sig:
                            rec.violation("project_onto_tr|" + sig, cid2, {"x": x, "xk": xk, "r": r, "lb": lb, "ub": ub, "got": p, "norm": nr})
                        rec.branch("onto_tr:" + ("inside" if dist <= r else "scaled"))
                        rec.case(cid2, nontrivial=dist > r, outcome="inside" if dist <= r else "scaled")
