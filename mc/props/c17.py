"""C17 -- safeguarded scalar root finder (optimism/ScalarRootFind.py) honours its bracket contract and is
differentiable.

E-PROD: function family x instance x orientation x bracket kind x initial guess x tolerance setting x
iteration budget, every point executed on the real `find_root` as a single compiled call and as one
lane of a fixed-length compiled batch, and (for the derivative clause) through jax.grad and jax.jacfwd.
Reference model: mc/ref/rootfind.py (closed forms, no optimism import).
"""
import numpy as onp

from mc.core import pick
from mc.ref import rootfind as ref

ID = "C17"
TITLE = "find_root: inside bracket, tolerance met, end-point roots, NaN without sign change, implicit derivative"
LEVEL = "model_checking"
RULE = ("E-PROD over (family, instance, orientation sigma=+-1, bracket kind, initial guess kind, (x_tol,r_tol), "
        "max_iters, execution mode); one case = one complete find_root execution (case id = those labels). Brackets that "
        "do not exist for an instance (end-point-root kinds when no root of the instance is an exactly representable "
        "zero; two-roots-inside for single-root families) are skipped and counted. The contract class of a case is "
        "MEASURED from f(lo), f(hi) (reference and library evaluation must agree). Non-trivial = the class is not a "
        "plain sign change (end-point root / no sign change: the contract branches), or the real execution took >= 2 "
        "iterations (measured from SolutionInfo.iterations), i.e. more than one Newton step from the guess.")
ASSUMPTIONS = [
    "function families: linear, x^3+ax-c (monotone), x^3-x-c (three roots), (x-c)^3 (flat at the root), tanh(a(x-c)) "
    "(saturating, f'=0 far away), sign(x)|x|^p-c (power law), exp(x)-c, (x-a)^5-c (flat away from the root), "
    "exp(kx)-c with |k| >= 110 (Newton creeps by 1/k per iteration from the steep side), u/sqrt(1+u^2) (Newton map "
    "u -> -u^3, exact 2-cycle at |u|=1; the bracket kind 'cycle' puts the first bisection point on it); f finite on the "
    "whole bracket",
    "bracket given as (lo, hi) with lo <= hi; |f(lo) f(hi)| neither underflows nor overflows (a sign change whose product "
    "underflows, e.g. f=1e-170(x-0.3) on [-1,1], returns NaN in the real code: outside the alphabet, reported separately)",
    "tolerance settings with both tolerances zero are not admissible",
    "'must have converged' is only asserted when the effective resolution x_eff=max(x_tol, r_tol/max|f'|) is >= 16 ulp at "
    "the roots inside the bracket and max_iters >= 2*ceil(log2(width/x_eff))+10 (DESIGN C17 budget rule); otherwise a NaN "
    "result is counted as budget-exhausted, never as a violation",
    "derivative clause is judged wherever the implicit function theorem applies at the returned point (f_x finite, != 0); "
    "the reference value is -(f_theta/f_x) from closed forms evaluated at the returned x",
    "generic instance 'gs' of every family is drawn from numpy default_rng(1000+VERIF_SEED) inside a bounded family; all "
    "other axis elements are seed independent",
    "control-skeleton port in mc/ref/rootfind.trace is used only for branch-coverage labels and for the label "
    "'iterate with f=0 and f'=0' in one finding key, never for a verdict",
]
TOLERANCES = {
    "inside bracket": "exact (lo <= x <= hi)",
    "end-point root returned": "exact (bit-identical to the end point)",
    "no sign change": "exact (NaN)",
    "tolerance met": "|f(x)| < r_tol + 16 eps (sum|terms| + |f_x||x|) + 1e-9 r_tol, or sign change of f within "
                     "[x-4x_tol-2ulp, x+4x_tol+2ulp]",
    "implicit derivative": "1e-8 relative to max(|g_i|, 1e-6 |g|_inf)",
}

B = 16   # fixed padded batch length of the compiled-batch mode

TOLS_Q = [("x1e-13", 1e-13, 0.0), ("r1e-10", 0.0, 1e-10), ("x1e-8_r1e-8", 1e-8, 1e-8)]
TOLS_T = TOLS_Q + [("x1e-6", 1e-6, 0.0), ("x1e-13_r1e-10", 1e-13, 1e-10)]
BUDGETS_Q = [200, 50]
BUDGETS_T = [1000, 200, 100, 50]
SIGMAS = [("+", 1.0), ("-", -1.0)]


def _axes(tier):
    th = tier == "thorough"
    return {
        "families": list(ref.FAMILY_ORDER),
        "tols": TOLS_T if th else TOLS_Q,
        "budgets": BUDGETS_T if th else BUDGETS_Q,
        "brackets": ref.BRACKET_KINDS_THOROUGH if th else ref.BRACKET_KINDS,
        "x0": ref.X0_KINDS_THOROUGH if th else ref.X0_KINDS,
    }


def bounds(tier):
    a = _axes(tier)
    return {"families": a["families"], "instances_per_family": 5 if tier == "thorough" else 3,
            "orientations": 2, "bracket_kinds": a["brackets"], "x0_kinds": a["x0"],
            "tolerance_settings": [t[0] for t in a["tols"]], "max_iters": a["budgets"],
            "modes": ["jit", "vmap%d" % B, "grad", "jacfwd", "vmap%d-grad" % B], "batch_length": B}


def groups(tier, seed):
    a = _axes(tier)
    gs = []
    for it in a["budgets"]:
        for fam in a["families"]:
            for tl, xt, rt in a["tols"]:
                gs.append({"name": "%s|%s|it%d" % (fam, tl, it), "fam": fam, "tol": tl, "x_tol": xt, "r_tol": rt,
                           "max_iters": it})
    return gs


def _fam_jnp(name):
    import jax.numpy as np
    return {
        "linear": lambda x, th: th[0] * x - th[1],
        "cubmono": lambda x, th: x ** 3 + th[0] * x - th[1],
        "cub3": lambda x, th: x ** 3 - x - th[0],
        "triple": lambda x, th: (x - th[0]) ** 3,
        "tanh": lambda x, th: np.tanh(th[0] * (x - th[1])),
        "steep": lambda x, th: np.sign(x) * np.abs(x) ** th[1] - th[0],
        "exp": lambda x, th: np.exp(x) - th[0],
        "flatoff": lambda x, th: (x - th[0]) ** 5 - th[1],
        "expk": lambda x, th: np.exp(th[0] * x) - th[1],
        "rsig": lambda x, th: (x - th[0]) / np.sqrt(1.0 + (x - th[0]) * (x - th[0])),
    }[name]


def _cases(g, tier, seed):
    """the product for one group, in a stable order; inadmissible bracket kinds are returned separately"""
    a = _axes(tier)
    fam = g["fam"]
    cases, skipped = [], []
    for il, th in ref.instances(fam, tier, seed):
        for bk in a["brackets"]:
            br = ref.bracket(fam, th, bk, il)
            if br is None:
                skipped.append((il, bk))
                continue
            lo, hi, r = br
            for sl, sig in SIGMAS:
                for xk in a["x0"]:
                    if xk == "stat":        # guess at a stationary point that is not a root (only some families have one)
                        x0 = ref.stationary(fam, th)
                        if x0 is None:
                            continue
                    else:
                        x0 = ref.guess(xk, lo, hi, r)
                    cases.append({"inst": il, "th": [float(t) for t in th], "sl": sl, "sig": sig, "bk": bk,
                                  "lo": float(lo), "hi": float(hi), "r": float(r), "xk": xk, "x0": float(x0)})
    return cases, skipped


def _cid(g, c, mode):
    return "fam=%s;inst=%s;sigma=%s;br=%s;x0=%s;tol=%s;it=%d;mode=%s" % (
        g["fam"], c["inst"], c["sl"], c["bk"], c["xk"], g["tol"], g["max_iters"], mode)


def run_group(g, tier, seed, rec):
    import jax
    import jax.numpy as np
    from optimism import ScalarRootFind as R
    from mc.runner import exception_key

    fam = g["fam"]
    f_lib = _fam_jnp(fam)
    settings = R.get_settings(max_iters=g["max_iters"], x_tol=g["x_tol"], r_tol=g["r_tol"])
    x_tol, r_tol, max_iters = g["x_tol"], g["r_tol"], g["max_iters"]

    def solve(th, sig, x0, lo, hi):
        x, info = R.find_root(lambda x: sig * f_lib(x, th), x0, np.array([lo, hi]), settings)
        return x, (info.converged, info.iterations)

    f_jit = jax.jit(solve)
    f_vmap = jax.jit(jax.vmap(solve))
    f_grad = jax.jit(jax.value_and_grad(solve, has_aux=True))
    f_vgrad = jax.jit(jax.vmap(jax.value_and_grad(solve, has_aux=True)))

    def _fwd(th, sig, x0, lo, hi):
        x, aux = solve(th, sig, x0, lo, hi)
        return x, (x, aux)
    f_jac = jax.jit(jax.jacfwd(_fwd, has_aux=True))
    f_end = jax.jit(lambda th, sig, x: sig * f_lib(x, th))

    cases, skipped = _cases(g, tier, seed)
    for il, bk in skipped:
        rec.branch("skip:bracket-kind-does-not-exist:%s" % bk)
    sample_idx = set(pick(range(len(cases)), seed, 2))

    # ---- per (instance, bracket, sigma): measured contract class and budget admissibility ------------------
    cache = {}

    def static(c):
        k = (c["inst"], c["bk"], c["sl"])
        if k not in cache:
            th, sig, lo, hi = c["th"], c["sig"], c["lo"], c["hi"]
            with onp.errstate(all="ignore"):
                fl_r = float(sig * ref.FAMILIES[fam]["f"](lo, th))
                fh_r = float(sig * ref.FAMILIES[fam]["f"](hi, th))
            fl_l = float(f_end(np.array(th), sig, lo))
            fh_l = float(f_end(np.array(th), sig, hi))
            cr, cl = ref.classify(fl_r, fh_r), ref.classify(fl_l, fh_l)
            mc_, why = ref.must_converge(fam, th, lo, hi, x_tol, r_tol, max_iters)
            cache[k] = {"cls": cr if cr == cl else "ambiguous(%s/%s)" % (cr, cl), "must": mc_, "why": why,
                        "fl": fl_l, "fh": fh_l}
        return cache[k]

    def detail(c, st, x, iters, extra=None):
        d = {"family": fam, "theta": c["th"], "sigma": c["sig"], "bracket": [c["lo"], c["hi"]], "x0": c["x0"],
             "x_tol": x_tol, "r_tol": r_tol, "max_iters": max_iters, "f(lo)": st["fl"], "f(hi)": st["fh"],
             "class": st["cls"], "returned_x": x, "iterations": iters, "must_converge": [st["must"], st["why"]]}
        if extra:
            d.update(extra)
        return d

    def judge_value(c, idx, mode, x, conv, iters):
        """compare one real execution with the contract"""
        cid = _cid(g, c, mode)
        st = static(c)
        cls = st["cls"]
        if cls.startswith("ambiguous") or cls in ("non-finite", "product-underflow-or-overflow"):
            rec.noverdict(cid, "contract-class-" + cls)
            return
        lo, hi, th, sig = c["lo"], c["hi"], c["th"], c["sig"]
        base = "find_root|class=%s" % cls
        tr = ref.trace(fam, th, sig, c["x0"], lo, hi, x_tol, r_tol, max_iters)
        agrees = (tr["iters"] == iters) and ((x != x and tr["x"] != tr["x"]) or
                                             (x == x and tr["x"] == tr["x"] and abs(x - tr["x"]) <= 4 * ref.ulp(x)))
        rec.branch("trace:agrees" if agrees else "trace:diverged")
        rec.branch("class:" + cls)
        rec.branch(tr["clipped"])
        if agrees:
            for s in set(tr["steps"]):
                rec.branch(s)
            rec.branch(tr["orient"])
            if tr["stop"] != "none":
                rec.branch(tr["stop"])
        rec.branch("flag:converged" if conv else "flag:not-converged")
        if conv != (x == x):
            rec.branch("flag:inconsistent-with-nan")
        outcome = None
        if cls == "no-sign-change":
            if x == x:
                rec.violation(base + "|not-nan", cid, detail(c, st, x, iters, {"expected": "nan"}))
                outcome = "VIOLATION:not-nan"
            else:
                outcome = "nan-as-required"
                rec.branch("exit:nan-no-sign-change")
        elif cls in ("lo-root", "hi-root", "both-roots"):
            allowed = ([lo] if cls in ("lo-root", "both-roots") else []) + ([hi] if cls in ("hi-root", "both-roots") else [])
            if not (x == x and any(x == a for a in allowed)):
                rec.violation(base + "|endpoint-root-not-returned", cid, detail(c, st, x, iters, {"expected_one_of": allowed}))
                outcome = "VIOLATION:endpoint"
            else:
                outcome = "endpoint-returned"
                rec.branch("exit:endpoint-root")
        else:  # sign change
            if x != x:
                if st["must"]:
                    sig_ = "iterate-with-f=0-and-f'=0" if tr["stationary_hit"] else "family=%s" % fam
                    rec.violation(base + "|nan-despite-budget|" + sig_, cid,
                                  detail(c, st, x, iters, {"expected": "a root in the bracket",
                                                           "port_steps_tail": tr["steps"][-6:]}))
                    outcome = "VIOLATION:nan-despite-budget"
                else:
                    outcome = "budget-exhausted:" + st["why"]
                    rec.branch("exit:nan-" + st["why"])
            else:
                rec.branch("exit:converged")
                bad = False
                if not (lo <= x <= hi):
                    rec.violation(base + "|outside-bracket|family=%s" % fam, cid, detail(c, st, x, iters))
                    outcome, bad = "VIOLATION:outside-bracket", True
                with onp.errstate(all="ignore"):
                    ok, how, nums = ref.tolerance_met(fam, th, sig, x, x_tol, r_tol)
                    roots = ref.roots_of(fam, th)
                dist = min(abs(x - r) for r in roots)
                if how == "x_tol" and x_tol > 0:
                    rec.track_max("dist_to_root_over_x_tol[x_tol-path]", dist / x_tol)
                if how == "x_tol" and x_tol == 0:
                    rec.track_max("dist_to_root_in_ulp[x_tol=0,stagnation]", dist / ref.ulp(x))
                if how == "r_tol":
                    rec.track_max("|f(x)|_over_r_tol[r_tol-path]", abs(nums["f(x)"]) / r_tol)
                if not ok:
                    rec.violation(base + "|tolerance-not-met|family=%s" % fam, cid,
                                  detail(c, st, x, iters, dict(nums, nearest_root_distance=dist)))
                    outcome, bad = "VIOLATION:tolerance", True
                if not bad:
                    outcome = "converged:" + how
        nontrivial = (cls != "sign-change") or iters >= 2
        rec.case(cid, nontrivial=nontrivial, outcome="%s|%s" % (cls, outcome), steps=int(iters) + 1,
                 sample=({"case": cid, "theta": th, "bracket": [lo, hi], "x0": c["x0"], "x": x if x == x else "nan",
                          "iterations": int(iters), "class": cls, "port_steps": tr["steps"][:12]}
                         if (idx in sample_idx and mode == "jit") else None))

    def judge_deriv(c, mode, x, gvec):
        cid = _cid(g, c, mode)
        st = static(c)
        cls = st["cls"]
        if cls in ("no-sign-change",) or cls.startswith("ambiguous") or cls in ("non-finite", "product-underflow-or-overflow"):
            return
        if x != x:
            return          # no root returned: nothing to differentiate (value clause already judged)
        with onp.errstate(all="ignore"):
            gref = ref.ift(fam, c["th"], x)
        if gref is None:
            rec.branch("deriv:ift-not-applicable(f_x=0)")
            rec.case(cid, nontrivial=False, outcome="%s|ift-not-applicable" % cls)
            return
        gl = onp.asarray(gvec, dtype=float).ravel()
        scale = onp.maximum(onp.abs(gref), 1e-6 * onp.max(onp.abs(gref)))
        scale = onp.maximum(scale, 1e-300)
        err = onp.abs(gl - gref) / scale
        worst = float(onp.max(onp.where(onp.isfinite(err), err, onp.inf)))
        rec.track_max("ift_rel_err[%s]" % mode.split("-")[-1], worst if onp.isfinite(worst) else 1e300)
        rec.branch("deriv:ift-checked:" + mode)
        if not (worst <= 1e-8):
            rec.violation("find_root|class=%s|ift-mismatch|family=%s" % (cls, fam), cid,
                          detail(c, st, x, -1, {"grad_library": gl.tolist(), "grad_ift_closed_form": gref.tolist(),
                                                "mode": mode, "rel_err": worst}))
            rec.case(cid, nontrivial=True, outcome="%s|VIOLATION:ift" % cls)
        else:
            rec.case(cid, nontrivial=True, outcome="%s|ift-ok" % cls)

    def lib_fail(c, mode, e):
        cid = _cid(g, c, mode)
        rec.violation("find_root|%s|%s" % (mode.split("-")[-1], exception_key(e)), cid,
                      detail(c, static(c), float("nan"), -1, {"error": repr(e)[:500]}))
        rec.case(cid, nontrivial=False, outcome="exception")

    # ---- mode jit: one compiled call per case ---------------------------------------------------------------
    xs_jit = {}
    by_orientation = {}
    for idx, c in enumerate(cases):
        if not (rec.want(_cid(g, c, "jit")) or rec.want(_cid(g, c, "grad")) or rec.want(_cid(g, c, "jacfwd"))):
            continue
        tha = np.array(c["th"])
        try:
            x, (conv, iters) = f_jit(tha, c["sig"], c["x0"], c["lo"], c["hi"])
            x, conv, iters = float(x), bool(conv), int(iters)
        except Exception as e:  # noqa
            lib_fail(c, "jit", e)
            continue
        xs_jit[idx] = x
        by_orientation.setdefault((c["inst"], c["bk"], c["xk"]), {})[c["sl"]] = (idx, x, conv, iters)
        if rec.want(_cid(g, c, "jit")):
            judge_value(c, idx, "jit", x, conv, iters)
        # derivative modes, only where a root was returned
        if x == x:
            if rec.want(_cid(g, c, "grad")):
                try:
                    (xg, _aux), gv = f_grad(tha, c["sig"], c["x0"], c["lo"], c["hi"])
                    judge_deriv(c, "grad", float(xg), onp.asarray(gv))
                except Exception as e:  # noqa
                    lib_fail(c, "grad", e)
            if rec.want(_cid(g, c, "jacfwd")):
                try:
                    J, (xj, _aux) = f_jac(tha, c["sig"], c["x0"], c["lo"], c["hi"])
                    judge_deriv(c, "jacfwd", float(xj), onp.asarray(J))
                except Exception as e:  # noqa
                    lib_fail(c, "jacfwd", e)

    # ---- "whichever end is negative": f and -f have the same roots and the algorithm is symmetric under the sign flip,
    # so the two orientations of one (instance, bracket, guess) must both return a root or both return NaN (a differential
    # oracle without expected values; added after a seeded change that made one orientation fall back to pure bisection
    # and run out of iterations went undetected)
    if rec.only is None:
        for (il_, bk_, xk_), d_ in sorted(by_orientation.items()):
            if len(d_) != 2:
                continue
            (la, (ia, xa, ca, ita)), (lb_, (ib, xb, cb, itb)) = sorted(d_.items())
            ca_, cb_ = cases[ia], cases[ib]
            st = static(ca_)
            if st["cls"] != "sign-change" or static(cb_)["cls"] != "sign-change":
                continue
            rec.branch("orientation-pair-compared")
            if (xa == xa) != (xb == xb):
                bad = ca_ if xa != xa else cb_
                rec.violation("find_root|class=sign-change|orientation-dependent-failure|family=%s" % fam,
                              _cid(g, bad, "jit"),
                              detail(bad, st, float("nan"), max(ita, itb),
                                     {"x_sigma_%s" % la: xa, "x_sigma_%s" % lb_: xb, "iterations": [ita, itb]}))
            elif xa == xa:
                rec.track_max("orientation_pair_iteration_difference", abs(ita - itb))

    # ---- mode vmap: fixed-length compiled batches (value, and value_and_grad) ----------------------------------
    vm, vg = "vmap%d" % B, "vmap%d-grad" % B
    for s in range(0, len(cases), B):
        chunk = list(range(s, min(s + B, len(cases))))
        if not any(rec.want(_cid(g, cases[i], vm)) or rec.want(_cid(g, cases[i], vg)) for i in chunk):
            continue
        lanes = chunk + [chunk[0]] * (B - len(chunk))
        TH = np.array([cases[i]["th"] for i in lanes])
        SG = np.array([cases[i]["sig"] for i in lanes])
        X0 = np.array([cases[i]["x0"] for i in lanes])
        LO = np.array([cases[i]["lo"] for i in lanes])
        HI = np.array([cases[i]["hi"] for i in lanes])
        try:
            X, (CV, IT) = f_vmap(TH, SG, X0, LO, HI)
            X, CV, IT = onp.asarray(X), onp.asarray(CV), onp.asarray(IT)
        except Exception as e:  # noqa
            lib_fail(cases[chunk[0]], vm, e)
            continue
        for k, i in enumerate(chunk):
            if rec.want(_cid(g, cases[i], vm)):
                judge_value(cases[i], i, vm, float(X[k]), bool(CV[k]), int(IT[k]))
                if i in xs_jit:
                    same = (X[k] == xs_jit[i]) or (X[k] != X[k] and xs_jit[i] != xs_jit[i])
                    rec.branch("vmap-vs-jit:bit-identical" if same else "vmap-vs-jit:differs")
        try:
            (XG, _aux), GV = f_vgrad(TH, SG, X0, LO, HI)
            XG, GV = onp.asarray(XG), onp.asarray(GV)
        except Exception as e:  # noqa
            lib_fail(cases[chunk[0]], vg, e)
            continue
        for k, i in enumerate(chunk):
            if rec.want(_cid(g, cases[i], vg)):
                judge_deriv(cases[i], vg, float(XG[k]), GV[k])
