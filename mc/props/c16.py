"""C16 -- contact geometry: closest points, signed gaps, mortar integrals, penalty / level-set values.

E-PROD: full Cartesian products of labelled axes, one execution of the real code per point (in two or
three execution modes), compared with the numpy reference model mc/ref/contact_ref.py.

  cpp       EdgeCpp.cpp / cpp_line / cpp_distance on segment x orientation x base point x (t, d) lattice
  mortar    MortarContact.integrate_with_mortar (+compute_intersection) on overlap class x length ratio x
            relative angle x gap x common normal x rigid motion (x segment scale, x smoothing length)
  sweep     same routine, the overlap classes with coincident projected end points, fine orientation sweep
  assemble  MortarContact.assemble_nodal_areas / assemble_area_weighted_gaps on two facing chains
  levelset  LevelsetConstraint.compute_levelset_constraints, PenaltyContact.compute_total_penalty_contact_energy,
            PenaltyContact.evaluate_contact_constraints on obstacle x displacement field x depth
  contact   Contact.compute_closest_distance_to_each_side / compute_q_coordinates on two blocks
"""
import itertools
import math

import numpy as onp

from mc.core import Axis, product, pick
from mc.ref import contact_ref as ref

ID = "C16"
TITLE = "Contact geometry: closest points, signed gaps, mortar integrals, penalty and level-set values"
LEVEL = "model_checking"
RULE = ("E-PROD: every point of the Cartesian products listed in bounds(); a case is one geometric configuration "
        "(case id = axis labels) executed in every execution mode (eager / single compiled call / compiled batch of "
        "fixed padded length). Non-trivial is measured by the reference model: cpp -- the projection is clamped, or "
        "within 1e-9 of a clamp switch, or the point is on the line; mortar -- the projections do not overlap, or "
        "projected end points coincide, or one projection contains the other, or the gap is <= 0, or the pair is not "
        "parallel; assemble -- some B node faces an A node or there is no overlap; levelset/penalty -- some sample "
        "point is penetrating or exactly on the obstacle; contact -- some sample point projects beyond an end of the "
        "closest candidate edge or lies within 1e-9 of the surface.")
ASSUMPTIONS = [
    "reference model mc/ref/contact_ref.py: numpy only (extended precision for the closed forms), no optimism import",
    "normal / side conventions are the documented ones: right-hand normal (t_y,-t_x)/|t| of a directed segment, "
    "side (element, s) has nodes conns[element][[s,(s+1)%3]], mortar gap g defined by x_B = x_A + g n",
    "admissible mortar pairs: non-degenerate segments whose common normal is not parallel to either segment "
    "(relative angles 0, 1, +-20, +-60 degrees between A and the reversed B); translations are multiples of the "
    "length of A (|x|/L <= ~400), so that coordinate rounding stays below 1e-13 in segment parameters",
    "the sign of the distance is only demanded for d != 0 (as the statement does); on the line the library's "
    "choice (+) is recorded, not judged",
    "penalty: 'vanishes exactly' is judged only when the reference model's obstacle value at every sample point is "
    "either exactly 0 together with the library's own value, or farther than 1e-14 from 0; other cases are "
    "recorded with outcome 'ambiguous' and only E >= 0 is demanded",
    "the value of the penalty energy itself is not part of the statement and is not compared",
    "seed: only the 'generic' orientation / rotation representative and the cases copied to samples",
]
TOLERANCES = {
    "cpp point / |distance|": "1e-12 * (|a|+|b|+|p|+L) absolute (worst observed is recorded in observed_maxima)",
    "cpp parameter t": "1e-12 * (1+|s|+(|a|+|p|)/L); clamped t in [0,1] exact",
    "cpp nearest-ness (brute force 513 points)": "returned point not farther than the best sampled point + 1e-12*scale",
    "mortar parallel closed form": "2*l*(L_A+L_B)*max(1,|gap|) + 1e-11*(L_A+L_B)*max(1,|gap|)  (l = relativeSmoothingSize)",
    "mortar zero without overlap": "1e-13 * (L_A+L_B) * max(1,|g|,g^2)",
    "mortar non-negativity": "exact (>= 0)",
    "mortar rigid-motion invariance": "1e-10 * max(1, |value|) * max(1, scale^2)  (scale = length of A; 1 in the quick tier)",
    "assembly sum vs pairwise integrals": "1e-12 * max(1, |value|)",
    "level-set constraint values": "1e-13 * max(1, coordinate scale)",
    "penalty energy": ">= 0 exact; == 0.0 exact when no sample point penetrates; > 0 when one does",
    "contact closest distance": "1e-12 * coordinate scale; q-coordinates 1e-13",
}

BATCH = 64          # fixed padded batch length of every compiled batch in this check (D11)
LSET_BATCH = 16

# ------------------------------------------------------------------------------------------------ axes
T_AXIS = [("-1", -1.0), ("-1/2", -0.5), ("-1e-9", -1e-9), ("0", 0.0), ("1e-9", 1e-9), ("0.3", 0.3), ("1/2", 0.5),
          ("1-1e-9", 1.0 - 1e-9), ("1", 1.0), ("1+1e-9", 1.0 + 1e-9), ("1.5", 1.5), ("3", 3.0)]
D_AXIS = [("-2", -2.0), ("-1e-6", -1e-6), ("0", 0.0), ("1e-6", 1e-6), ("1/2", 0.5), ("2", 2.0)]
SEG_AXIS = [("unit", 1.0), ("len10", 10.0), ("len0.1", 0.1)]
BASE_AXIS = [("origin", (0.0, 0.0)), ("near", (3.0, -2.0)), ("far", (100.0, 50.0))]
ANGLES = ["0", "90", "180", "270", "45", "30", "200", "generic"]
ROTS = ["0", "90", "180", "45", "30", "generic"]
TRANS = [("0", (0.0, 0.0)), ("near", (3.0, -2.0)), ("far", (100.0, 50.0))]
GAPS = [("0.1", 0.1), ("0", 0.0), ("-0.1", -0.1), ("1", 1.0)]
NORMALS = ["fromA", "averaged"]
RATIOS = [("1", 1.0), ("0.3", 0.3), ("3", 3.0)]
# band-right / band-left: the overlap ends 1.5 % of L_A before A's far end / starts 1.5 % after its near end, i.e.
# strictly inside the upper / lower smoothing band of smooth_linear when the smoothing length is 0.03 (added after
# a seeded change in the upper band went undetected)
CLASSES = ["partial-left", "partial-right", "band-right", "band-left", "none", "touch", "touch-left", "A-in-B", "B-in-A",
           "A-in-B-flushL", "A-in-B-flushR", "B-in-A-flushL", "B-in-A-flushR", "identical"]
COINCIDENT_CLASSES = ["touch", "touch-left", "A-in-B-flushL", "A-in-B-flushR", "B-in-A-flushL", "B-in-A-flushR",
                      "identical"]
REL_ANGLES = [("0", 0.0), ("1", 1.0), ("20", 20.0), ("-20", -20.0), ("60", 60.0), ("-60", -60.0)]
DEPTHS = [("-0.1", -0.1), ("0", 0.0), ("1e-12", 1e-12), ("0.1", 0.1)]
# corner-offset: a corner whose two faces sit at DIFFERENT locations (xLoc != yLoc); with xLoc == yLoc a mix-up of the two
# arguments is invisible (a seeded change of that kind went undetected)
OBSTACLES = ["plane", "corner", "corner-offset", "circle-node", "circle-gauss", "combined"]
FIELDS = ["rigid", "rot", "stretch", "bulge"]
STIFF = [("1", 1.0), ("1e3", 1e3)]
EDGESETS = ["face", "all"]
INTEGRANDS = ["1", "g", "g*(1-xiA)", "g*xiA", "xiA^2+xiB^2", "g^2"]   # 0, 4, 5 are >= 0 for all real arguments
NONNEG = [0, 4, 5]


def _angle_value(label, seed):
    if label == "generic":
        rng = onp.random.default_rng(1000 + seed)
        # a generic angle, kept 3 degrees away from multiples of 15 degrees
        while True:
            a = float(rng.uniform(0.0, 360.0))
            if min(a % 15.0, 15.0 - a % 15.0) > 3.0:
                return math.radians(a)
    return math.radians(float(label))


def _scales(tier):
    return [("1", 1.0)] if tier == "quick" else [("1", 1.0), ("10", 10.0), ("0.1", 0.1)]


def _smoothings(tier):
    return [("1e-7", 1e-7), ("0.03", 0.03)] if tier == "quick" else [("1e-7", 1e-7), ("1e-9", 1e-9), ("0.03", 0.03)]


def _sweep_n(tier):
    return 72 if tier == "quick" else 360


def bounds(tier):
    ncls = sum(1 for c in CLASSES for _, r in RATIOS if _place(c, 1.0, r) is not None)
    ncoin = sum(1 for c in COINCIDENT_CLASSES for _, r in RATIOS if _place(c, 1.0, r) is not None)
    return {
        "cpp": {"segment": len(SEG_AXIS), "orientation": len(ANGLES), "base": len(BASE_AXIS), "t": len(T_AXIS),
                "d": len(D_AXIS), "modes": ["eager", "jit", "batch%d" % BATCH],
                "routines": ["cpp", "cpp_line", "cpp_distance"]},
        "mortar": {"class x ratio (feasible of %d x %d)" % (len(CLASSES), len(RATIOS)): ncls,
                   "relative_angle": len(REL_ANGLES), "gap": len(GAPS), "normal": len(NORMALS), "rotation": len(ROTS),
                   "translation": len(TRANS), "scale": len(_scales(tier)), "smoothing": len(_smoothings(tier)),
                   "integrands": INTEGRANDS, "modes": ["jit", "batch%d" % BATCH]},
        "sweep": {"coincident class x ratio (feasible)": ncoin, "gap": len(GAPS), "normal": len(NORMALS),
                  "orientation": _sweep_n(tier), "translation": len(TRANS)},
        "assemble": {"nA": 3, "nB": 3, "offset": 4, "gap": len(GAPS), "normal": len(NORMALS), "rotation": len(ROTS),
                     "motion_in": 2, "modes": ["jit", "batch%d" % LSET_BATCH]},
        "levelset": {"obstacle": len(OBSTACLES), "quad_degree": 3, "field": len(FIELDS), "depth": len(DEPTHS),
                     "stiffness": len(STIFF), "edges": len(EDGESETS),
                     "modes": ["jit", "batch%d" % LSET_BATCH, "eager on field=rigid x edges=face"]},
        "contact": {"shift": 4, "depth": len(DEPTHS), "maxNeighbors": 3, "quad_degree": 2, "tilt": 2,
                    "modes": ["jit", "eager on shift=0.3 x tilt=0"]},
    }


def groups(tier, seed):
    # every group runs in a fresh worker process: everything sharing one compilation stays in one group
    gs = []
    for sm, _ in _smoothings(tier):
        for nk in NORMALS:
            for gl, _ in GAPS:
                gs.append({"kind": "mortar", "name": "mortar-l%s-%s-g%s" % (sm, nk, gl),
                           "smoothing": sm, "normal": nk, "gap": gl})
    for nA in (3, 2, 1):
        for nB in (3, 2, 1):
            for nk in NORMALS:
                gs.append({"kind": "assemble", "name": "assemble-A%d-B%d-%s" % (nA, nB, nk), "nA": nA, "nB": nB,
                           "normal": nk})
    for nk in NORMALS:
        for gl, _ in GAPS:
            gs.append({"kind": "sweep", "name": "sweep-%s-g%s" % (nk, gl), "normal": nk, "gap": gl})
    for ob in OBSTACLES:
        for deg in (1, 2, 4):
            gs.append({"kind": "levelset", "name": "levelset-%s-q%d" % (ob, deg), "obstacle": ob, "degree": deg})
    for mn in ("1", "2", "3"):
        gs.append({"kind": "contact", "name": "contact-maxNeighbors%s" % mn, "maxNeighbors": mn})
    for al in ANGLES:
        gs.append({"kind": "cpp", "name": "cpp-angle%s" % al, "angle": al})
    return gs


def run_group(g, tier, seed, rec):
    {"cpp": _run_cpp, "mortar": _run_mortar, "sweep": _run_sweep, "assemble": _run_assemble,
     "levelset": _run_levelset, "contact": _run_contact}[g["kind"]](g, tier, seed, rec)


def _xkey(e):
    from mc.runner import exception_key
    return exception_key(e)


def _pad(arr, n):
    """pad a (m, ...) array to a multiple of n rows by repeating row 0"""
    m = arr.shape[0]
    k = (-m) % n
    if k == 0:
        return arr
    return onp.concatenate([arr, onp.repeat(arr[:1], k, axis=0)], axis=0)


def _batched(fn, arrays, n):
    """call compiled batch function on fixed-length chunks; returns list of stacked numpy outputs"""
    m = arrays[0].shape[0]
    padded = [_pad(a, n) for a in arrays]
    outs = None
    for i in range(0, padded[0].shape[0], n):
        res = fn(*[p[i:i + n] for p in padded])
        if not isinstance(res, (tuple, list)):
            res = (res,)
        res = [onp.asarray(r) for r in res]
        if outs is None:
            outs = [[] for _ in res]
        for o, r in zip(outs, res):
            o.append(r)
    return [onp.concatenate(o, axis=0)[:m] for o in outs]


# ================================================================================================ cpp
def _t_class(t):
    if t < -1e-8:
        return "before-start"
    if t <= 1e-8:
        return "at-start"
    if t < 1.0 - 1e-8:
        return "interior"
    if t <= 1.0 + 1e-8:
        return "at-end"
    return "beyond-end"


def _run_cpp(g, tier, seed, rec):
    for sl, _ in SEG_AXIS:
        _run_cpp_one(dict(g, segment=sl), tier, seed, rec)


def _run_cpp_one(g, tier, seed, rec):
    import jax
    import jax.numpy as jnp
    from optimism.contact import EdgeCpp

    L = dict(SEG_AXIS)[g["segment"]]
    phi = _angle_value(g["angle"], seed)
    axes = [Axis("base", BASE_AXIS), Axis("t", T_AXIS), Axis("d", D_AXIS)]
    cases = []
    for cid0, labels, values in product(axes):
        cid = "cpp;segment=%s;angle=%s;%s" % (g["segment"], g["angle"], cid0)
        a = onp.array(values["base"], dtype=float)
        v = L * onp.array([math.cos(phi), math.sin(phi)])
        n = onp.array([math.sin(phi), -math.cos(phi)])
        b = a + v
        p = a + values["t"] * v + values["d"] * n
        cases.append((cid, labels, values, a, b, p))
    cases = [c for c in cases if rec.want(c[0])]
    if not cases:
        return
    edges = onp.stack([onp.stack([c[3], c[4]]) for c in cases])
    pts = onp.stack([c[5] for c in cases])

    def all3(edge, p):
        c, t = EdgeCpp.cpp(edge, p)
        cl, tl = EdgeCpp.cpp_line(edge, p)
        d = EdgeCpp.cpp_distance(edge, p)
        return c, t, cl, tl, d

    results = {}
    try:
        fj = jax.jit(all3)
        fb = jax.jit(jax.vmap(all3))
        results["batch"] = _batched(fb, [edges, pts], BATCH)
        single = [[onp.asarray(x) for x in fj(jnp.asarray(e), jnp.asarray(p))] for e, p in zip(edges, pts)]
        results["jit"] = [onp.stack([s[k] for s in single]) for k in range(5)]
        eager = [[onp.asarray(x) for x in all3(jnp.asarray(e), jnp.asarray(p))] for e, p in zip(edges, pts)]
        results["eager"] = [onp.stack([s[k] for s in eager]) for k in range(5)]
    except Exception as e:  # noqa
        rec.violation("EdgeCpp|" + _xkey(e), cases[0][0], {"error": repr(e)})
        for c in cases:
            rec.case(c[0], outcome="exception")
        return

    sample_ids = set(pick(range(len(cases)), seed, 2))
    for i, (cid, labels, values, a, b, p) in enumerate(cases):
        tt, dd = values["t"], values["d"]
        c_ref, sc_ref, s_ref = ref.closest_point_segment(a, b, p)
        dist_ref = float(ref.distance_to_segment(a, b, p))
        side_ref = float(ref.side_of_line(a, b, p))
        # construction (closed form from the lattice point), recorded as a harness self-check only
        dist_con = math.hypot(dd, max(0.0, -tt, tt - 1.0) * L)
        scale = float(onp.abs(a).sum() + onp.abs(b).sum() + onp.abs(p).sum() + L)
        rec.track_max("harness: ref distance vs (t,d) construction / scale", abs(dist_ref - dist_con) / scale)
        tau = 1e-12 * scale
        tau_t = 1e-12 * (1.0 + abs(float(s_ref)) + float(onp.abs(a).sum() + onp.abs(p).sum()) / L)
        bf = ref.brute_force_min_distance(a, b, p)
        tcl = _t_class(tt)
        dcl = "neg" if dd < 0 else ("zero" if dd == 0 else "pos")
        det0 = {"edge": [a, b], "p": p, "t": tt, "d": dd}

        for mode in ("eager", "jit", "batch"):
            c, t, cl, tl, d = [r[i] for r in results[mode]]
            t = float(t)
            tl = float(tl)
            d = float(d)

            def fail(routine, sig, extra):
                # one key per routine and position class; the first failing signature of a routine is reported
                rec.violation("EdgeCpp.%s|t=%s|%s" % (routine, tcl, sig), cid,
                              dict(det0, mode=mode, d_class=dcl, **extra))

            if not (onp.all(onp.isfinite(c)) and math.isfinite(t) and math.isfinite(d) and math.isfinite(tl)
                    and onp.all(onp.isfinite(cl))):
                fail("cpp", "non-finite", {"point": c, "t": t, "dist": d})
                continue
            # cpp: closest point of the segment
            e_pt = float(onp.max(onp.abs(c - onp.asarray(c_ref, dtype=float))))
            e_t = abs(t - float(sc_ref))
            rec.track_max("cpp: |point - ref| / scale", e_pt / scale)
            rec.track_max("cpp: |t - ref| / cond", e_t / (tau_t / 1e-12))
            if not (0.0 <= t <= 1.0):
                fail("cpp", "parameter-outside-[0,1]", {"t_returned": t})
            elif e_pt > tau:
                fail("cpp", "not-the-closest-point", {"returned": c, "expected": onp.asarray(c_ref, dtype=float),
                                                      "t_returned": t})
            elif math.hypot(*(p - c)) > bf + tau:
                fail("cpp", "farther-than-a-sampled-segment-point",
                     {"returned": c, "dist_returned": math.hypot(*(p - c)), "best_sampled": bf})
            elif e_t > tau_t:
                fail("cpp", "parameter-wrong", {"t_returned": t, "expected": float(sc_ref)})
            # cpp_line: unclamped projection
            e_l = float(onp.max(onp.abs(cl - (a + float(s_ref) * (b - a)))))
            rec.track_max("cpp_line: |point - ref| / scale", e_l / scale)
            if e_l > tau * (1.0 + abs(float(s_ref))) or abs(tl - float(s_ref)) > tau_t:
                fail("cpp_line", "projection-wrong", {"returned": [cl, tl], "expected_t": float(s_ref)})
            # cpp_distance: magnitude and side
            e_d = abs(abs(d) - dist_ref)
            rec.track_max("cpp_distance: ||d| - ref| / scale", e_d / scale)
            if e_d > tau:
                fail("cpp_distance", "magnitude-wrong", {"returned": d, "expected_abs": dist_ref})
            elif dd != 0.0 and abs(side_ref) > 1e-10 * scale:
                if (d > 0) != (side_ref > 0) or d == 0.0:
                    fail("cpp_distance", "sign-wrong", {"returned": d, "side": side_ref})
            if mode == "eager":
                if t == 0.0:
                    rec.branch("cpp:clamped-to-0" if float(s_ref) < 0 else "cpp:t==0-unclamped")
                elif t == 1.0:
                    rec.branch("cpp:clamped-to-1" if float(s_ref) > 1 else "cpp:t==1-unclamped")
                else:
                    rec.branch("cpp:interior")
                if tl < 0:
                    rec.branch("cpp_distance:endpoint-a-branch(t<0)")
                elif tl > 1:
                    rec.branch("cpp_distance:endpoint-b-branch(t>1)")
                else:
                    rec.branch("cpp_distance:normal-branch")
                if dd == 0.0:
                    rec.branch("cpp_distance:on-line,value%s" % ("==0" if d == 0 else (">0" if d > 0 else "<0")))
        nontrivial = not (1e-8 < float(s_ref) < 1.0 - 1e-8) or dd == 0.0
        rec.case(cid, nontrivial=nontrivial, outcome="cpp:%s/%s" % (tcl, dcl), steps=9,
                 sample=({"case": cid, "edge": [a, b], "p": p, "dist_ref": dist_ref,
                          "dist_lib": float(results["eager"][4][i])} if i in sample_ids else None))


# ================================================================================================ mortar
def _place(cls, LA, r):
    """x-extent (b0, b1) of segment B for A = [0, LA] on the x axis, or None when class x ratio is infeasible"""
    LB = r * LA
    m = min(LA, LB)
    if cls == "none":
        return (1.5 * LA, 1.5 * LA + LB)
    if cls == "touch":
        return (LA, LA + LB)
    if cls == "touch-left":
        return (-LB, 0.0)
    if cls == "partial-left":
        return (0.4 * m - LB, 0.4 * m)
    if cls == "partial-right":
        return (LA - 0.4 * m, LA - 0.4 * m + LB)
    if cls == "band-right":
        return (0.985 * LA - LB, 0.985 * LA)
    if cls == "band-left":
        return (0.015 * LA, 0.015 * LA + LB)
    if cls == "A-in-B":
        return (-(LB - LA) * 0.3, -(LB - LA) * 0.3 + LB) if LB > LA else None
    if cls == "B-in-A":
        return ((LA - LB) * 0.3, (LA - LB) * 0.3 + LB) if LB < LA else None
    if cls == "A-in-B-flushL":
        return (0.0, LB) if LB > LA else None
    if cls == "A-in-B-flushR":
        return (LA - LB, LA) if LB > LA else None
    if cls == "B-in-A-flushL":
        return (0.0, LB) if LB < LA else None
    if cls == "B-in-A-flushR":
        return (LA - LB, LA) if LB < LA else None
    if cls == "identical":
        return (0.0, LA) if r == 1.0 else None
    raise KeyError(cls)


def _pair(cls, LA, r, gap, rel_deg):
    pl = _place(cls, LA, r)
    if pl is None:
        return None
    b0, b1 = pl
    A = onp.array([[0.0, 0.0], [LA, 0.0]])
    B = onp.array([[b1, -gap], [b0, -gap]])     # reversed direction: faces A, gap along A's normal (0,-1)
    if rel_deg != 0.0:
        mid = 0.5 * (B[0] + B[1])
        B = (B - mid) @ ref.rot(math.radians(rel_deg)).T + mid
    return A, B


_JIT = {}


def _mortar_compiled(MC, jax, jnp, normal_kind, l):
    """(single compiled call, compiled batch) -- cached per worker process: relative angle, gap, class, ... are
    run-time data, only the common-normal rule and the smoothing length are compile-time constants"""
    k = (normal_kind, l)
    if k not in _JIT:
        F = _make_mortar_fn(MC, jnp, normal_kind, l)
        _JIT[k] = (jax.jit(F), jax.jit(jax.vmap(F)))
    return _JIT[k]


def _make_mortar_fn(MC, jnp, normal_kind, l):
    nf = MC.compute_normal_from_a if normal_kind == "fromA" else MC.compute_average_normal
    ints = [lambda a, b, g: 1.0, lambda a, b, g: g, lambda a, b, g: g * (1.0 - a), lambda a, b, g: g * a,
            lambda a, b, g: a * a + b * b, lambda a, b, g: g * g]

    def F(A, B):
        vals = jnp.stack([jnp.asarray(MC.integrate_with_mortar(A, B, nf, f, l), dtype=jnp.float64) for f in ints])
        xiA, xiB, gg = MC.compute_intersection(A, B, nf)
        return vals, xiA, xiB, gg
    return F


COINCIDENT_KEY = "mortar|ends=coincident|integral-inconsistent"


def _mortar_key(routine, pk, ends, sig):
    """One key for the one way coincident projected end points can fail (a valid end point is rejected by the
    exact comparisons in compute_intersection, so part of the overlap is lost: wrong overlap length, wrong gap
    area, value changes under a rigid motion, nodal sums differ between compilations). Everything else, and
    every failure with generic end points, keeps a routine- and signature-specific key."""
    if ends == "coincident" and sig in ("overlap-or-gap-area-mismatch", "not-rigid-motion-invariant",
                                        "sum-differs-from-pairwise-integrals"):
        return COINCIDENT_KEY
    if pk is None:
        return "%s|ends=%s|%s" % (routine, ends, sig)
    return "%s|pair=%s|ends=%s|%s" % (routine, pk, ends, sig)


def _mortar_verdicts(rec, cid, mode, vals, A, B, normal_kind, l, parallel, det):
    """Oracles that need no other case. Returns 'ok' / 'bad' and whether closed form applied+passed."""
    n = ref.common_normal(A, B, normal_kind)
    ov, sa, sb = ref.projection_overlap(A, B, n)
    ov = float(ov)
    LA, LB = float(ref.seg_length(A)), float(ref.seg_length(B))
    ncoin = ref.n_coincident_ends(A, B, n, 1e-9 * (LA + LB))
    ends = "coincident" if ncoin > 0 else "generic"
    pk = "parallel" if parallel else "nonparallel"
    ok = True

    def fail(sig, extra):
        rec.violation(_mortar_key("integrate_with_mortar", pk, ends, sig), cid,
                      dict(det, mode=mode, edgeA=A, edgeB=B, values=dict(zip(INTEGRANDS, vals.tolist())),
                           overlap_ref=ov, signature=sig, **extra))

    if not onp.all(onp.isfinite(vals)):
        fail("non-finite", {})
        return False, ends, ov
    if parallel:
        gap = float(ref.parallel_gap(A, B, n))
        ovp = max(ov, 0.0)
        gs = max(1.0, abs(gap))
        tol = (2.0 * l + 1e-11) * (LA + LB) * gs
        e1 = abs(vals[0] - ovp)
        eg = abs(vals[1] - gap * ovp)
        if ends == "generic" or max(e1, eg) <= tol:
            rec.track_max("mortar parallel: |int 1 - overlap| / (l (LA+LB))", e1 / (l * (LA + LB)))
            rec.track_max("mortar parallel: |int g - gap overlap| / (l (LA+LB) max(1,|gap|))", eg / (l * (LA + LB) * gs))
        if e1 > tol or eg > tol:
            fail("overlap-or-gap-area-mismatch", {"gap_ref": gap, "expected_int1": ovp, "expected_intg": gap * ovp,
                                                  "tolerance": tol})
            ok = False
    if ov < -1e-9 * (LA + LB):
        gmax = float(onp.max(onp.abs(det.get("g_lib", [0.0]))))
        z = 1e-13 * (LA + LB) * max(1.0, gmax, gmax * gmax)
        rec.track_max("mortar no-overlap: max |value|", float(onp.max(onp.abs(vals))))
        if float(onp.max(onp.abs(vals))) > z:
            fail("nonzero-without-overlap", {})
            ok = False
    for k in NONNEG:
        if not vals[k] >= 0.0:
            fail("negative-for-nonnegative-integrand", {"integrand": INTEGRANDS[k]})
            ok = False
    return ok, ends, ov


def _mortar_branches(rec, xiA, xiB, l):
    if xiA[1] == xiA[0]:
        rec.branch("mortar:interval-empty-or-point")
    else:
        rec.branch("mortar:interval-positive")
    for x in list(xiA) + list(xiB):
        if x < l:
            rec.branch("mortar:smooth_linear-lower")
        elif x > 1.0 - l:
            rec.branch("mortar:smooth_linear-upper")
        else:
            rec.branch("mortar:smooth_linear-middle")
    if xiB[1] < xiB[0]:
        rec.branch("mortar:xiB-decreasing(abs-needed)")


def _run_mortar(g, tier, seed, rec):
    for ra, _ in REL_ANGLES:
        _run_mortar_one(dict(g, rel_angle=ra), tier, seed, rec)


def _run_mortar_one(g, tier, seed, rec):
    import jax
    import jax.numpy as jnp
    from optimism.contact import MortarContact as MC

    l = dict(_smoothings("thorough"))[g["smoothing"]]
    rel = dict(REL_ANGLES)[g["rel_angle"]]
    gap = dict(GAPS)[g["gap"]]
    nk = g["normal"]
    parallel = rel == 0.0
    axes = [Axis("scale", _scales(tier)), Axis("class", [(c, c) for c in CLASSES]), Axis("ratio", RATIOS),
            Axis("rot", [(r, r) for r in ROTS]), Axis("trans", TRANS)]
    cases = []
    infeasible = 0
    for cid0, labels, values in product(axes):
        pr = _pair(values["class"], values["scale"], values["ratio"], gap, rel)
        if pr is None:
            infeasible += 1
            continue
        cid = "mortar;l=%s;rel=%s;normal=%s;gap=%s;%s" % (g["smoothing"], g["rel_angle"], nk, g["gap"], cid0)
        th = _angle_value(values["rot"], seed)
        shift = onp.array(values["trans"]) * values["scale"]    # translations scale with the segment (conditioning)
        A = ref.move(pr[0], th, shift)
        B = ref.move(pr[1], th, shift)
        base = "%s|%s|%s" % (labels["scale"], labels["class"], labels["ratio"])
        ident = labels["rot"] == "0" and labels["trans"] == "0"
        cases.append((cid, labels, A, B, base, ident))
    rec.notes["mortar: infeasible class x ratio combinations skipped per group"] = infeasible
    # the identity-motion partner is needed for the invariance oracle, so replay keeps it
    wanted = [c for c in cases if rec.want(c[0])]
    if not wanted:
        return
    bases = {c[4] for c in wanted}
    cases = [c for c in cases if rec.want(c[0]) or (c[5] and c[4] in bases)]

    As = onp.stack([c[2] for c in cases])
    Bs = onp.stack([c[3] for c in cases])
    res = {}
    try:
        fj, fb = _mortar_compiled(MC, jax, jnp, nk, l)
        res["batch"] = _batched(fb, [As, Bs], BATCH)
        single = [[onp.asarray(x) for x in fj(jnp.asarray(a), jnp.asarray(b))] for a, b in zip(As, Bs)]
        res["jit"] = [onp.stack([s[k] for s in single]) for k in range(4)]
    except Exception as e:  # noqa
        rec.violation("integrate_with_mortar|" + _xkey(e), cases[0][0], {"error": repr(e)})
        for c in wanted:
            rec.case(c[0], outcome="exception")
        return

    ident_idx = {c[4]: i for i, c in enumerate(cases) if c[5]}
    status = {}
    sample_ids = set(pick(range(len(cases)), seed, 2))
    for mode in ("jit", "batch"):
        for i, (cid, labels, A, B, base, ident) in enumerate(cases):
            vals = res[mode][0][i]
            det = {"labels": dict(labels), "g_lib": res[mode][3][i], "xiA_lib": res[mode][1][i],
                   "xiB_lib": res[mode][2][i], "smoothing": l}
            status[(mode, i)] = _mortar_verdicts(rec, cid, mode, vals, A, B, nk, l, parallel, det)
        # rigid-motion invariance against the identity-motion case of the same configuration
        for i, (cid, labels, A, B, base, ident) in enumerate(cases):
            j = ident_idx[base]
            if i == j or not (status[(mode, i)][0] and status[(mode, j)][0]):
                continue
            v, v0 = res[mode][0][i], res[mode][0][j]
            # a-priori rounding bound eps * |x| * (LA+LB) grows with the square of the segment scale
            sc2 = max(1.0, float(labels["scale"]) ** 2)
            err = onp.abs(v - v0) / (onp.maximum(1.0, onp.abs(v0)) * sc2)
            ends_ij = "coincident" if "coincident" in (status[(mode, i)][1], status[(mode, j)][1]) else "generic"
            if ends_ij == "generic" or float(onp.max(err)) <= 1e-10:
                rec.track_max("mortar invariance: |I(moved)-I| / (max(1,|I|) max(1,scale^2))", float(onp.max(err)))
            if float(onp.max(err)) > 1e-10:
                k = int(onp.argmax(err))
                rec.violation(_mortar_key("integrate_with_mortar", "parallel" if parallel else "nonparallel",
                                          ends_ij, "not-rigid-motion-invariant"), cid,
                    {"mode": mode, "signature": "not-rigid-motion-invariant", "labels": dict(labels), "edgeA": A, "edgeB": B, "integrand": INTEGRANDS[k],
                     "moved": v.tolist(), "unmoved": v0.tolist(), "edgeA_unmoved": cases[j][2],
                     "edgeB_unmoved": cases[j][3]})
    for i, (cid, labels, A, B, base, ident) in enumerate(cases):
        if not rec.want(cid):
            continue
        _, ends, ov = status[("jit", i)]
        _mortar_branches(rec, res["jit"][1][i], res["jit"][2][i], l)
        cls = labels["class"]
        LAB = float(ref.seg_length(A) + ref.seg_length(B))
        nontrivial = (not parallel) or ov <= 1e-9 * LAB or ends == "coincident" or gap <= 0.0 or "-in-" in cls
        v1 = float(res["jit"][0][i][0])
        out = "mortar:%s/%s/%s" % ("parallel" if parallel else "nonparallel",
                                   "no-overlap" if ov < -1e-9 * LAB else ("point" if ov <= 1e-9 * LAB else "overlap"),
                                   "int1=0" if v1 == 0.0 else "int1>0")
        rec.case(cid, nontrivial=nontrivial, outcome=out, steps=2 * (len(INTEGRANDS) + 1),
                 sample=({"case": cid, "edgeA": A, "edgeB": B, "overlap_ref": ov,
                          "integrals": dict(zip(INTEGRANDS, res["jit"][0][i].tolist()))} if i in sample_ids else None))


def _run_sweep(g, tier, seed, rec):
    """fine orientation sweep of the parallel overlap classes whose projected end points coincide"""
    import jax
    import jax.numpy as jnp
    from optimism.contact import MortarContact as MC

    l = 1e-7
    gap = dict(GAPS)[g["gap"]]
    nk = g["normal"]
    nang = _sweep_n(tier)
    angs = [("%dof%d" % (k, nang), math.radians(k * 360.0 / nang + 0.123)) for k in range(nang)]
    axes = [Axis("class", [(c, c) for c in COINCIDENT_CLASSES]), Axis("ratio", RATIOS), Axis("angle", angs),
            Axis("trans", TRANS)]
    cases = []
    for cid0, labels, values in product(axes):
        pr = _pair(values["class"], 1.0, values["ratio"], gap, 0.0)
        if pr is None:
            continue
        cid = "sweep;normal=%s;gap=%s;%s" % (nk, g["gap"], cid0)
        if not rec.want(cid):
            continue
        cases.append((cid, labels, ref.move(pr[0], values["angle"], values["trans"]),
                      ref.move(pr[1], values["angle"], values["trans"])))
    if not cases:
        return
    As = onp.stack([c[2] for c in cases])
    Bs = onp.stack([c[3] for c in cases])
    res = {}
    try:
        fj, fb = _mortar_compiled(MC, jax, jnp, nk, l)
        res["batch"] = _batched(fb, [As, Bs], BATCH)
        single = [[onp.asarray(x) for x in fj(jnp.asarray(a), jnp.asarray(b))] for a, b in zip(As, Bs)]
        res["jit"] = [onp.stack([s[k] for s in single]) for k in range(4)]
    except Exception as e:  # noqa
        rec.violation("integrate_with_mortar|" + _xkey(e), cases[0][0], {"error": repr(e)})
        for c in cases:
            rec.case(c[0], outcome="exception")
        return
    sample_ids = set(pick(range(len(cases)), seed, 1))
    for i, (cid, labels, A, B) in enumerate(cases):
        oks = []
        for mode in ("jit", "batch"):
            det = {"labels": dict(labels), "g_lib": res[mode][3][i], "xiA_lib": res[mode][1][i],
                   "xiB_lib": res[mode][2][i], "smoothing": l}
            ok, ends, ov = _mortar_verdicts(rec, cid, mode, res[mode][0][i], A, B, nk, l, True, det)
            oks.append(ok)
        _mortar_branches(rec, res["jit"][1][i], res["jit"][2][i], l)
        v1 = float(res["jit"][0][i][0])
        rec.case(cid, nontrivial=True,
                 outcome="sweep:%s/%s" % ("point" if ov <= 1e-9 else "overlap", "int1=0" if v1 == 0.0 else "int1>0"),
                 steps=2 * (len(INTEGRANDS) + 1),
                 sample=({"case": cid, "edgeA": A, "edgeB": B, "overlap_ref": ov, "int1": v1}
                         if i in sample_ids else None))


# ================================================================================================ assemble
FRAC_A = {1: [0.0, 1.0], 2: [0.0, 0.45, 1.0], 3: [0.0, 0.3, 0.62, 1.0]}
FRAC_B = {1: [0.0, 1.0], 2: [0.0, 0.55, 1.0], 3: [0.0, 0.38, 0.7, 1.0]}
OFFSETS = ["shifted", "conforming-ends", "matching-nodes", "disjoint"]


def _chains(nA, nB, offset, gap):
    """node coordinates (A chain, B chain, 2 spectators), segment connectivities (B directed against A)"""
    xa = onp.array(FRAC_A[nA])
    if offset == "matching-nodes":
        # B nodes face A nodes wherever the counts allow
        fb = FRAC_A[nB]
        xb = onp.array(fb)
    elif offset == "conforming-ends":
        xb = onp.array(FRAC_B[nB])
    elif offset == "shifted":
        xb = 0.37 + 0.9 * onp.array(FRAC_B[nB])
    else:
        xb = 1.5 + onp.array(FRAC_B[nB])
    coords = [[x, 0.0] for x in xa] + [[x, -gap] for x in xb] + [[0.5, 3.0], [-2.0, -3.0]]
    coords = onp.array(coords)
    segA = onp.array([[i, i + 1] for i in range(nA)])
    o = nA + 1
    segB = onp.array([[o + i + 1, o + i] for i in range(nB)])
    return coords, segA, segB


def _run_assemble(g, tier, seed, rec):
    import jax
    import jax.numpy as jnp
    from optimism.contact import MortarContact as MC

    nA, nB, nk = g["nA"], g["nB"], g["normal"]
    nf = MC.compute_normal_from_a if nk == "fromA" else MC.compute_average_normal
    l = 1e-9    # hard-wired in assembly_mortar_integral
    axes = [Axis("offset", [(o, o) for o in OFFSETS]), Axis("gap", GAPS), Axis("rot", [(r, r) for r in ROTS]),
            Axis("motion_in", [("coords", "coords"), ("disp", "disp")])]
    cases = []
    for cid0, labels, values in product(axes):
        cid = "assemble;nA=%d;nB=%d;normal=%s;%s" % (nA, nB, nk, cid0)
        if not rec.want(cid):
            continue
        X, segA, segB = _chains(nA, nB, values["offset"], values["gap"])
        th = _angle_value(values["rot"], seed)
        Xm = ref.move(X, th, (3.0, -2.0) if values["rot"] != "0" else (0.0, 0.0))
        if values["motion_in"] == "coords":
            coords, disp = Xm, onp.zeros_like(Xm)
        else:
            coords, disp = X, Xm - X
        cases.append((cid, labels, values, coords, disp, segA, segB))
    if not cases:
        return
    segA, segB = cases[0][5], cases[0][6]
    neigh = onp.tile(onp.arange(nA), (nB, 1))
    sA, sB, nb = jnp.asarray(segA), jnp.asarray(segB), jnp.asarray(neigh)

    def both(coords, disp):
        return (MC.assemble_nodal_areas(coords, disp, sA, sB, nb, nf),
                MC.assemble_area_weighted_gaps(coords, disp, sA, sB, nb, nf))

    def pairwise(coords, disp):
        x = coords + disp

        def one(sb, sa):
            return jnp.stack([jnp.asarray(MC.integrate_with_mortar(x[sb], x[sa], nf, lambda a, b, gg: 1.0, l),
                                          dtype=jnp.float64),
                              jnp.asarray(MC.integrate_with_mortar(x[sb], x[sa], nf, lambda a, b, gg: gg, l),
                                          dtype=jnp.float64)])
        return jax.vmap(lambda sb: jax.vmap(lambda sa: one(sb, sa))(sA))(sB)

    C = onp.stack([c[3] for c in cases])
    D = onp.stack([c[4] for c in cases])
    res = {}
    try:
        fj = jax.jit(both)
        fb = jax.jit(jax.vmap(both))
        pj = jax.jit(pairwise)
        res["batch"] = _batched(fb, [C, D], LSET_BATCH)
        single = [[onp.asarray(x) for x in fj(jnp.asarray(c), jnp.asarray(d))] for c, d in zip(C, D)]
        res["jit"] = [onp.stack([s[k] for s in single]) for k in range(2)]
        pw = onp.stack([onp.asarray(pj(jnp.asarray(c), jnp.asarray(d))) for c, d in zip(C, D)])
    except Exception as e:  # noqa
        rec.violation("assemble_mortar|" + _xkey(e), cases[0][0], {"error": repr(e)})
        for c in cases:
            rec.case(c[0], outcome="exception")
        return

    sample_ids = set(pick(range(len(cases)), seed, 1))
    for i, (cid, labels, values, coords, disp, _, _) in enumerate(cases):
        x = coords + disp
        chainA = [x[s] for s in segA]
        chainB = [x[s] for s in segB]
        # all pairs are parallel, n is the right-hand normal of any B segment
        n = ref.right_normal(chainB[0][0], chainB[0][1])
        ov = float(ref.chain_overlap(chainA, chainB, n))
        gap = float(ref.parallel_gap(chainB[0], chainA[0], n))
        sumL = float(sum(ref.seg_length(a) + ref.seg_length(b) for a in chainA for b in chainB))
        ncoin = sum(ref.n_coincident_ends(b, a, n, 1e-9 * 2.0) for a in chainA for b in chainB
                    if ref.projection_overlap(b, a, n)[0] > 1e-9)
        ends = "coincident" if ncoin > 0 else "generic"
        gs = max(1.0, abs(gap))
        tol = (2.0 * l + 1e-11) * sumL * gs
        for mode in ("jit", "batch"):
            areas, gaps = res[mode][0][i], res[mode][1][i]

            def fail(sig, extra):
                rec.violation(_mortar_key("assemble_mortar", None, ends, sig), cid,
                              dict(mode=mode, signature=sig, labels=dict(labels), coords=coords, disp=disp, segmentConnsA=segA,
                                   segmentConnsB=segB, neighborList=neigh, nodal_areas=areas, nodal_gaps=gaps,
                                   overlap_ref=ov, gap_ref=gap, **extra))

            if not (onp.all(onp.isfinite(areas)) and onp.all(onp.isfinite(gaps))):
                fail("non-finite", {})
                continue
            sa_, sg_ = float(areas.sum()), float(gaps.sum())
            pa, pg = float(pw[i][:, :, 0].sum()), float(pw[i][:, :, 1].sum())
            e = max(abs(sa_ - pa) / max(1.0, abs(pa)), abs(sg_ - pg) / max(1.0, abs(pg)))
            e1, eg = abs(sa_ - max(ov, 0.0)), abs(sg_ - gap * max(ov, 0.0))
            p1, pgg = abs(pa - max(ov, 0.0)), abs(pg - gap * max(ov, 0.0))
            closed_ok = max(e1, eg) <= tol
            if ends == "generic" or closed_ok:
                rec.track_max("assemble: |sum areas - overlap| / (l sum(LA+LB))", e1 / (l * sumL))
                rec.track_max("assemble: |sum gaps - gap overlap| / (l sum(LA+LB) max(1,|gap|))", eg / (l * sumL * gs))
            if not closed_ok:
                fail("overlap-or-gap-area-mismatch", {"sum_areas": sa_, "sum_gaps": sg_, "tolerance": tol})
            # nodal sums against the pairwise integrals (another compilation of the same routine); with coincident
            # end points the two compilations may reject different end points, which is the same finding
            if ends == "generic" or (closed_ok and max(p1, pgg) <= tol):
                rec.track_max("assemble: |sum nodal - sum pairwise| / max(1,|.|)", e)
                if e > 1e-12:
                    fail("sum-differs-from-pairwise-integrals", {"sum_areas": sa_, "pairwise_areas": pa,
                                                                 "sum_gaps": sg_, "pairwise_gaps": pg})
            if not onp.all(areas >= 0.0):
                fail("negative-nodal-area", {})
        rec.branch("assemble:%s" % ("no-overlap" if ov <= 1e-9 else "overlap"))
        rec.case(cid, nontrivial=(ends == "coincident" or ov <= 1e-9 or gap <= 0.0),
                 outcome="assemble:%s/%s" % (ends, "no-overlap" if ov <= 1e-9 else "overlap"),
                 steps=4 + 2 * nA * nB,
                 sample=({"case": cid, "coords": coords, "disp": disp, "nodal_areas": res["jit"][0][i],
                          "overlap_ref": ov} if i in sample_ids else None))


# ================================================================================================ levelset
def _square_mesh():
    from optimism import Mesh, Surface
    coords, conns = Mesh.create_structured_mesh_data(3, 3, [0.0, 1.0], [0.0, 1.0])
    tol = 1e-8
    sideSets = {
        "left": Surface.create_edges(coords, conns, lambda xy: onp.all(onp.asarray(xy)[:, 0] < tol)),
        "bottom": Surface.create_edges(coords, conns, lambda xy: onp.all(onp.asarray(xy)[:, 1] < tol)),
        "right": Surface.create_edges(coords, conns, lambda xy: onp.all(onp.asarray(xy)[:, 0] > 1.0 - tol)),
        "top": Surface.create_edges(coords, conns, lambda xy: onp.all(onp.asarray(xy)[:, 1] > 1.0 - tol)),
    }
    mesh = Mesh.construct_mesh_from_basic_data(coords, conns, {"block": onp.arange(conns.shape[0])}, None, sideSets)
    return mesh


def _field(name, X, direction, depth):
    """displacement field: shape part (vanishing or small at the contact face) + depth * direction"""
    X = onp.asarray(X, dtype=float)
    dirv = onp.asarray(direction, dtype=float)
    dn = dirv / onp.linalg.norm(dirv)
    c = onp.array([0.5, 0.5])
    s = (X - c) @ dn + 0.5              # 0 at the far face, 1 at the contact face (for axis directions)
    tang = onp.array([-dn[1], dn[0]])
    q = (X - c) @ tang + 0.5
    if name == "rigid":
        u = onp.zeros_like(X)
    elif name == "rot":
        R = ref.rot(math.radians(7.0))
        u = (X - c) @ (R - onp.eye(2)).T
    elif name == "stretch":
        u = -0.2 * (1.0 - s)[:, None] * dn[None, :]
    elif name == "bulge":
        u = (0.05 * 4.0 * q * (1.0 - q) * s)[:, None] * dn[None, :]
    else:
        raise KeyError(name)
    return u + depth * dirv[None, :]


def _run_levelset(g, tier, seed, rec):
    import jax
    import jax.numpy as jnp
    from optimism import QuadratureRule
    from optimism.contact import Levelset, LevelsetConstraint, PenaltyContact

    ob, deg = g["obstacle"], g["degree"]
    mesh = _square_mesh()
    X = onp.asarray(mesh.coords)
    conns = onp.asarray(mesh.conns)
    quad = QuadratureRule.create_quadrature_rule_1D(deg)
    xi, w = ref.gauss01(ref.npts_for_degree(deg))
    if len(xi) != len(onp.asarray(quad.xigauss)):
        raise AssertionError("reference Gauss rule size differs from the library's for degree %d" % deg)

    top = onp.asarray(mesh.sideSets["top"])
    if ob == "plane":
        direction, face = (0.0, 1.0), top
        params = {"yLoc": 1.0}
        lib_ls = lambda x: Levelset.plane(x, 1.0)                                           # noqa
        ref_ls = lambda x: ref.plane(x, 1.0)                                                # noqa
    elif ob == "corner":
        direction = (-1.0, -1.0)
        face = onp.vstack([onp.asarray(mesh.sideSets["left"]), onp.asarray(mesh.sideSets["bottom"])])
        params = {"xLoc": 0.0, "yLoc": 0.0}
        lib_ls = lambda x: Levelset.corner(x, 0.0, 0.0)                                     # noqa
        ref_ls = lambda x: ref.corner(x, 0.0, 0.0)                                          # noqa
    elif ob == "corner-offset":
        direction = (-1.0, -1.0)
        face = onp.vstack([onp.asarray(mesh.sideSets["left"]), onp.asarray(mesh.sideSets["bottom"])])
        params = {"xLoc": -0.25, "yLoc": 0.0}
        lib_ls = lambda x: Levelset.corner(x, -0.25, 0.0)                                   # noqa
        ref_ls = lambda x: ref.corner(x, -0.25, 0.0)                                        # noqa
    elif ob == "combined":
        # Levelset.combined: plane y <= 1 and corner x >= 0, y >= 0 at once (the unit square fits exactly)
        direction = (0.0, 1.0)
        face = onp.vstack([top, onp.asarray(mesh.sideSets["left"]), onp.asarray(mesh.sideSets["bottom"])])
        params = {"plane_yLoc": 1.0, "corner": [0.0, 0.0]}
        lib_ls = lambda x: Levelset.combined(x, lambda y: Levelset.plane(y, 1.0),                  # noqa
                                             lambda y: Levelset.corner(y, 0.0, 0.0))
        ref_ls = lambda x: onp.minimum(ref.plane(x, 1.0), ref.corner(x, 0.0, 0.0))                # noqa
    else:
        direction, face = (0.0, 1.0), top
        if ob == "circle-node":
            xc = 0.5
        else:
            # centre exactly above the first sample point of the first top edge (reference geometry)
            pts0 = ref.sample_points(X, onp.zeros_like(X), conns, top, xi)
            xc = float(pts0[0, 0, 0])
        params = {"xLoc": xc, "yLoc": 1.5, "R": 0.5}
        lib_ls = lambda x: Levelset.sphere(x, xc, 1.5, 0.5)                                 # noqa
        ref_ls = lambda x: ref.circle(x, xc, 1.5, 0.5)                                      # noqa
    allb = onp.vstack([onp.asarray(mesh.sideSets[k]) for k in ("left", "bottom", "right", "top")])
    edgesets = {"face": face, "all": allb}

    axes = [Axis("field", [(f, f) for f in FIELDS]), Axis("depth", DEPTHS), Axis("stiffness", STIFF),
            Axis("edges", [(e, e) for e in EDGESETS])]
    cases = []
    for cid0, labels, values in product(axes):
        cid = "levelset;obstacle=%s;quad=%d;%s" % (ob, deg, cid0)
        if not rec.want(cid):
            continue
        U = _field(values["field"], X, direction, values["depth"])
        cases.append((cid, labels, values, U))
    if not cases:
        return

    # compiled single call and compiled batch (fixed length) per edge set: constraints, penalty constraints, energy
    res_b, res_j = {}, {}
    try:
        for es, edges in edgesets.items():
            ej = jnp.asarray(edges)

            def fn(U, k, ej=ej):
                return (LevelsetConstraint.compute_levelset_constraints(lib_ls, U, mesh, quad, ej),
                        PenaltyContact.evaluate_contact_constraints(lib_ls, U, mesh, quad, ej),
                        PenaltyContact.compute_total_penalty_contact_energy(lib_ls, U, mesh, quad, ej, k))
            idx = [i for i, c in enumerate(cases) if c[2]["edges"] == es]
            if not idx:
                continue
            fb = jax.jit(jax.vmap(fn))
            fj = jax.jit(fn)
            Us = onp.stack([cases[i][3] for i in idx])
            ks = onp.array([cases[i][2]["stiffness"] for i in idx])
            out = _batched(fb, [Us, ks], LSET_BATCH)
            for j, i in enumerate(idx):
                res_b[i] = [o[j] for o in out]
                res_j[i] = [onp.asarray(x) for x in fj(jnp.asarray(Us[j]), ks[j])]
    except Exception as e:  # noqa
        rec.violation("levelset|compiled|" + _xkey(e), cases[0][0], {"error": repr(e)})
        for c in cases:
            rec.case(c[0], outcome="exception")
        return

    sample_ids = set(pick(range(len(cases)), seed, 1))
    for i, (cid, labels, values, U) in enumerate(cases):
        edges = edgesets[values["edges"]]
        k = values["stiffness"]
        pts = ref.sample_points(X, U, conns, edges, xi)
        phi = ref_ls(pts)
        scale = max(1.0, float(onp.max(onp.abs(pts))))
        modes = [("jit", res_j[i]), ("batch", res_b[i])]
        # direct (un-compiled) calls, as the library's tests make them, on the sub-product field=rigid x edges=face
        if values["field"] == "rigid" and values["edges"] == "face":
            try:
                Uj, ej = jnp.asarray(U), jnp.asarray(edges)
                modes.append(("eager", [
                    onp.asarray(LevelsetConstraint.compute_levelset_constraints(lib_ls, Uj, mesh, quad, ej)),
                    onp.asarray(PenaltyContact.evaluate_contact_constraints(lib_ls, Uj, mesh, quad, ej)),
                    onp.asarray(PenaltyContact.compute_total_penalty_contact_energy(lib_ls, Uj, mesh, quad, ej, k))]))
            except Exception as e:  # noqa
                rec.violation("levelset|obstacle=%s|%s" % (ob.split("-")[0], _xkey(e)), cid,
                              {"error": repr(e), "disp": U})
                rec.case(cid, outcome="exception")
                continue
        outcome = None
        for mode, (c1, c2, E) in modes:
            E = float(E)

            def fail(routine, sig, extra):
                rec.violation("%s|%s" % (routine, sig), cid,
                              dict(mode=mode, labels=dict(labels), obstacle_kind=ob, obstacle=params, disp=U, edges=edges,
                                   quad_degree=deg, phi_ref=phi, **extra))

            for routine, c in (("compute_levelset_constraints", c1), ("evaluate_contact_constraints", c2)):
                if c.shape != phi.shape:
                    fail(routine, "shape", {"shape": list(c.shape), "expected": list(phi.shape)})
                    continue
                err = float(onp.max(onp.abs(c - phi))) if onp.all(onp.isfinite(c)) else float("inf")
                rec.track_max("levelset: |constraint - obstacle(ref sample point)|", err)
                if not err <= 1e-13 * scale:
                    fail(routine, "value-differs-from-obstacle-function", {"returned": c})
            pen = bool(onp.any(phi < -1e-14))
            lib_phi = c1 if c1.shape == phi.shape else phi
            amb = bool(onp.any((onp.abs(phi) <= 1e-14) & ~((phi == 0.0) & (lib_phi == 0.0))))
            if not (math.isfinite(E) and E >= 0.0):
                fail("compute_total_penalty_contact_energy", "negative-or-non-finite", {"energy": E})
            elif pen:
                if not E > 0.0:
                    fail("compute_total_penalty_contact_energy", "zero-with-penetration",
                         {"energy": E, "min_phi_ref": float(phi.min())})
            elif not amb:
                if E != 0.0:
                    fail("compute_total_penalty_contact_energy", "nonzero-without-penetration",
                         {"energy": E, "min_phi_ref": float(phi.min())})
            if mode == "jit":
                touching = bool(onp.any(phi == 0.0))
                outcome = "penetrating" if pen else ("ambiguous" if amb else ("touching" if touching else "clear"))
                rec.branch("penalty:min(0,phi)-%s" % ("active" if pen else "inactive"))
                for s_ in sorted({int(e[1]) for e in edges}):
                    rec.branch("surface:local-side-%d" % s_)
        rec.case(cid, nontrivial=outcome in ("penetrating", "touching", "ambiguous"), outcome="levelset:" + outcome,
                 steps=3 * len(modes), sample=({"case": cid, "obstacle": params, "disp": U,
                                                "phi_ref_min": float(phi.min()), "energy": float(res_j[i][2])}
                                               if i in sample_ids else None))


# ================================================================================================ contact
def _two_blocks():
    from optimism import Mesh, Surface
    tol = 1e-8

    def block(Nx, Ny, xr, yr, post):
        coords, conns = Mesh.create_structured_mesh_data(Nx, Ny, xr, yr)
        ss = {"top" + post: Surface.create_edges(coords, conns,
                                                 lambda xy: onp.all(onp.asarray(xy)[:, 1] > yr[1] - tol)),
              "bottom" + post: Surface.create_edges(coords, conns,
                                                    lambda xy: onp.all(onp.asarray(xy)[:, 1] < yr[0] + tol))}
        return Mesh.construct_mesh_from_basic_data(coords, conns, {"block" + post: onp.arange(conns.shape[0])},
                                                   {"all" + post: onp.arange(coords.shape[0])}, ss)
    m1 = block(4, 2, [0.0, 1.0], [0.0, 1.0], "1")
    m2 = block(3, 2, [0.0, 1.0], [1.0, 2.0], "2")
    n1 = int(m1.coords.shape[0])
    mesh = Mesh.combine_mesh((m1, onp.zeros((n1, 2))), (m2, onp.zeros((int(m2.coords.shape[0]), 2))))[0]
    return mesh, n1


def _run_contact(g, tier, seed, rec):
    import jax
    import jax.numpy as jnp
    from optimism import QuadratureRule
    from optimism.contact import Contact

    mesh, n1 = _two_blocks()
    X = onp.asarray(mesh.coords)
    conns = onp.asarray(mesh.conns)
    surfM = onp.asarray(mesh.sideSets["top1"])
    surfI = onp.asarray(mesh.sideSets["bottom2"])
    sM, sI = jnp.asarray(surfM), jnp.asarray(surfI)
    maxn = int(g["maxNeighbors"])
    axes = [Axis("quad", [("2", 2), ("3", 3)]), Axis("shift", [("0", 0.0), ("0.3", 0.3), ("0.8", 0.8), ("1.5", 1.5)]),
            Axis("depth", DEPTHS), Axis("tilt", [("0", 0.0), ("5deg", 5.0)])]
    compiled = {}
    sample_ids = set(pick(range(64), seed, 1))
    for ic, (cid0, labels, values) in enumerate(product(axes)):
        cid = "contact;maxNeighbors=%d;%s" % (maxn, cid0)
        if not rec.want(cid):
            continue
        U = onp.zeros_like(X)
        R = ref.rot(math.radians(values["tilt"]))
        c2 = onp.array([0.5, 1.0])
        U[n1:] = (X[n1:] - c2) @ (R - onp.eye(2)).T + onp.array([values["shift"], -values["depth"]])
        deg = values["quad"]
        quad = QuadratureRule.create_quadrature_rule_1D(deg)
        xi, _ = ref.gauss01(ref.npts_for_degree(deg))

        def fn(Uj, quad=quad):
            il = Contact.get_potential_interaction_list(sM, sI, mesh, Uj, maxn)
            return (il, Contact.compute_closest_distance_to_each_side(mesh, Uj, quad, il, sI),
                    Contact.compute_q_coordinates(mesh, Uj, quad, sI))
        try:
            if deg not in compiled:
                compiled[deg] = jax.jit(fn)
            modes = [("jit", [onp.asarray(x) for x in compiled[deg](jnp.asarray(U))])]
            # direct (un-compiled) calls, as the library's tests make them, on the sub-product shift=0.3 x tilt=0
            if labels["shift"] == "0.3" and labels["tilt"] == "0":
                modes.append(("eager", [onp.asarray(x) for x in fn(jnp.asarray(U))]))
        except Exception as e:  # noqa
            rec.violation("Contact|" + _xkey(e), cid, {"error": repr(e), "disp": U})
            rec.case(cid, outcome="exception")
            continue
        pts = ref.sample_points(X, U, conns, surfI, xi)
        scale = max(1.0, float(onp.max(onp.abs(X + U))))
        beyond = near = False
        for mode, (il, dists, qc) in modes:

            def fail(routine, sig, extra):
                rec.violation("Contact.%s|%s" % (routine, sig), cid,
                              dict(mode=mode, labels=dict(labels), disp=U, interactionList=il, surfaceI=surfI,
                                   quad_degree=deg, **extra))

            eq = float(onp.max(onp.abs(qc - pts))) if qc.shape == pts.shape else float("inf")
            rec.track_max("contact: |q coordinates - ref sample points|", eq)
            if not eq <= 1e-13 * scale:
                fail("compute_q_coordinates", "differs-from-deformed-sample-points", {"returned": qc, "expected": pts})
            if dists.shape != pts.shape[:2] or il.shape != (pts.shape[0], maxn, 2):
                fail("compute_closest_distance_to_each_side", "shape", {"shape": list(dists.shape),
                                                                        "interaction_list_shape": list(il.shape)})
                continue
            for e in range(pts.shape[0]):
                segs = ref.deformed_segments(X, U, conns, il[e])
                for q in range(pts.shape[1]):
                    pq = pts[e, q]
                    ds = [float(ref.distance_to_segment(sg[0], sg[1], pq)) for sg in segs]
                    dmin = min(ds)
                    closest = [k for k, d in enumerate(ds) if d <= dmin + 1e-12 * scale]
                    sides = [float(ref.side_of_line(segs[k][0], segs[k][1], pq)) for k in closest]
                    err = abs(abs(float(dists[e, q])) - dmin)
                    rec.track_max("contact: ||closest distance| - ref| / scale", err / scale)
                    det = {"edge": e, "q": q, "point": pq, "returned": float(dists[e, q]), "expected_abs": dmin,
                           "candidate_segments": segs}
                    if not err <= 1e-12 * scale:
                        fail("compute_closest_distance_to_each_side", "magnitude-wrong", det)
                    elif all(abs(sd) > 1e-10 * scale for sd in sides) and len({sd > 0 for sd in sides}) == 1:
                        if (float(dists[e, q]) > 0) != (sides[0] > 0):
                            fail("compute_closest_distance_to_each_side", "sign-wrong", det)
                    if mode == "jit":
                        s_line = float(ref.closest_point_segment(segs[closest[0]][0], segs[closest[0]][1], pq)[2])
                        beyond = beyond or not (0.0 <= s_line <= 1.0)
                        near = near or dmin <= 1e-9
                        rec.branch("contact:closest-%s" % ("beyond-end" if not (0.0 <= s_line <= 1.0) else "interior"))
        rec.case(cid, nontrivial=beyond or near,
                 outcome="contact:%s%s" % ("beyond-end" if beyond else "interior", "/near" if near else ""),
                 steps=3 * len(modes),
                 sample=({"case": cid, "disp_block2": U[n1], "dists": modes[0][1][1]} if ic in sample_ids else None))
