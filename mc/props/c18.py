"""C18 -- smoothed min/max/abs (optimism/SmoothFunctions.py), smoothed ramp `zmax`, smoothed edge parameter
`MortarContact.smooth_linear`, `EdgeCpp.smoothstep`, friction regularisation (optimism/contact/Friction.py):
tight, one-sided, symmetric, C1 across every branch switch.

E-PROD with ulp-neighbourhoods: smoothing width x base value x offset in units of the width x floating-point
neighbours of every switch, every point evaluated on the real functions (value and jax.grad) in three execution
modes (op-by-op, one compiled call, fixed-length compiled batch).  Reference: mc/ref/smooth.py (exact rationals).
"""
import math

import numpy as onp

from mc.core import pick
from mc.ref import smooth as ref

ID = "C18"
TITLE = "smoothed min/max/abs, ramp, edge parameter, friction potential: bounds, tightness, symmetry, convexity, C1 at switches"
LEVEL = "model_checking"
RULE = ("E-PROD over (routine, execution mode, smoothing width, base value, offset s in units of the width, k-th "
        "floating-point neighbour for the offsets that sit on a switch); friction: (sReg, mu, direction, radius in units "
        "of sReg, neighbour k) and, for convexity, EVERY pair of lattice points with its midpoint. One case = one point "
        "(value + gradient + argument-swapped value) or one switch cluster (all neighbours of one switch) or one lattice "
        "pair. Non-trivial (measured with exact rational arithmetic): a point case lies strictly inside the smoothing band "
        "(blend formula executed) ; a cluster case has members on BOTH sides of the switch; a convexity pair has its "
        "end points / midpoint on different sides of the slip radius.")
ASSUMPTIONS = [
    "finite real arguments only (the +-inf behaviour covered by the upstream tests is not part of the statement); no "
    "denormal arguments (compiled XLA code flushes them; the floating-point neighbours of 0 are taken as +-k*2.2e-308)",
    "smoothing widths 10^0..10^-10 (the ten decades of the statement) plus 0 and 1e-15; widths below the library's floor "
    "safeTol=1e-14 are judged against the floor (bounds, symmetry, equality outside only; no C1 claim, no claim for width 0)",
    "zmax / smooth_linear: width > 0 (they divide by it); smooth_linear: l <= 1/2 (the two end caps must not overlap)",
    "friction 'equal to the Coulomb value minus half the regularisation length' is read as mu(|s| - sReg/2) (DESIGN C18), the "
    "only reading consistent with the continuity clause of the same sentence for mu != 1",
    "C1 across a switch is decided on the floating-point neighbours k=-2..2 (quick) / -4..4 (thorough) of the switch: value "
    "change <= Lipschitz * distance + rounding, gradient change <= 1e-9 + 64 ulp/width (+ Lipschitz of the gradient * distance); "
    "when that allowance is >= 0.1 the band is not resolved by the floating-point grid and the gradient claim is vacuous (counted)",
    "two-tier rounding allowance for min/max inside the band: 'sharp' = 128 ulp of the largest argument (what a backward "
    "stable evaluation attains); anything between sharp and the a-priori cancellation bound 256 ulp((|x|+|y|+eps)^2/4)/eps of "
    "the formula used by the library is reported under ONE finding key (loss of accuracy by cancellation), anything above "
    "as a gross violation of the respective clause",
    "generic representatives (one width, one base value, one slip direction, one sReg) come from default_rng(2000+VERIF_SEED); "
    "every element on or next to a switch is seed independent",
]
TOLERANCES = {
    "never exceeds true min / quarter-width tightness": "exact rational comparison + 128 ulp(max|arg|) (worst observed 1 ulp in "
                                                        "well-conditioned cases); quarter width *(1+1e-12)",
    "equality outside the band, symmetry in the arguments": "exact (bit identical)",
    "friction >= 0": "exact", "friction <= mu|s|": "4 ulp relative (worst observed ratio 0.9995)",
    "friction outside value": "128 ulp(mu|s|) (worst observed 1 ulp)",
    "midpoint convexity": "256 ulp(mu max(|a|,|b|,sReg)) (worst observed 1.5 ulp)",
    "value jump across a switch": "Lipschitz*|dx| + 128 ulp (worst observed 2 ulp)",
    "gradient jump across a switch": "1e-9 + 64 ulp/width + Lip(grad)*|dx| (worst observed 1.3 ulp/width)",
}

B = 64      # fixed padded batch length of the compiled-batch mode
MODES = ["eager", "jit", "vmap%d" % B]
ROUTINES = ["min", "max", "abs", "zmax", "smooth_linear", "smoothstep", "friction"]
CANCEL_KEY = "SmoothFunctions.min_base|inside-band|cancellation|accuracy-lost"


# ---------------------------------------------------------------------------------------------------------------
# axes
# ---------------------------------------------------------------------------------------------------------------

def _lab(v):
    return "%.17g" % v


def _seeded(seed):
    rng = onp.random.default_rng(2000 + seed)
    eps = float(rng.uniform(1.0, 10.0)) * 10.0 ** (-int(rng.integers(1, 10)))
    y = float((1.0 if rng.uniform() < 0.5 else -1.0) * 10.0 ** rng.uniform(-2.0, 2.0))
    ang = float(rng.uniform(0.0, 2.0 * math.pi))
    sreg = float(rng.uniform(1.0, 10.0)) * 10.0 ** (-int(rng.integers(1, 8)))
    return {"eps": eps, "y": y, "angle": ang, "sReg": sreg}


def _axes(tier, seed):
    th = tier == "thorough"
    sd = _seeded(seed)
    decades = [10.0 ** (-k) for k in range(0, 11)]
    if th:
        widths = sorted({m * d for d in decades for m in (1.0, 2.5, 7.3)}, reverse=True)
    else:
        widths = decades
    widths = [("%.3g" % w, w) for w in widths] + [("gs", sd["eps"])]
    special = [("0", 0.0), ("1e-15", 1e-15)] + ([("1e-14", 1e-14), ("2e-14", 2e-14)] if th else [])
    bases = [("0", 0.0), ("1", 1.0), ("-3", -3.0), ("1e6", 1.0e6), ("gs", sd["y"])]
    if th:
        bases += [("-1e6", -1.0e6), ("1e-3", 1.0e-3), ("7.3", 7.3), ("1e3", 1.0e3), ("2^-30", 2.0 ** -30)]
    offs = [-2.0, -1.0, -0.5, 0.0, 0.5, 1.0, 2.0]
    if th:
        offs = [-10.0, -2.0, -1.01, -1.0, -0.99, -0.5, -0.25, 0.0, 0.25, 0.5, 0.99, 1.0, 1.01, 2.0, 10.0]
    K = 4 if th else 2
    sregs = [("1e-%d" % k, 10.0 ** (-k)) for k in range(0, 9)] + [("gs", sd["sReg"])]
    if th:
        sregs += [("2.5e-%d" % k, 2.5 * 10.0 ** (-k)) for k in range(0, 9, 2)]
    mus = [("0.3", 0.3), ("1", 1.0)] + ([("0.1", 0.1), ("2", 2.0)] if th else [])
    h = math.sqrt(0.5)
    dirs = [("E", (1.0, 0.0)), ("NE", (h, h)), ("N", (0.0, 1.0)), ("NW", (-h, h)), ("W", (-1.0, 0.0)),
            ("SW", (-h, -h)), ("S", (0.0, -1.0)), ("SE", (h, -h)), ("gs", (math.cos(sd["angle"]), math.sin(sd["angle"])))]
    if th:
        for j in range(8):
            a = math.radians(22.5 + 45.0 * j)
            dirs.append(("d%g" % (22.5 + 45 * j), (math.cos(a), math.sin(a))))
    radii = [0.0, 0.5, 1.0, 2.0, 1.0e3] + ([0.25, 0.99, 1.01, 10.0] if th else [])
    return {"widths": widths, "special": special, "bases": bases, "offs": offs, "K": K, "sregs": sregs, "mus": mus,
            "dirs": dirs, "radii": sorted(radii), "KF": K + 1}


def bounds(tier):
    a = _axes(tier, 0)
    return {"routines": ROUTINES + ["friction-convex"], "modes": MODES, "batch_length": B,
            "widths": len(a["widths"]) + len(a["special"]), "bases": len(a["bases"]), "offsets": len(a["offs"]),
            "ulp_neighbours": "k=-%d..%d (friction radius -%d..%d)" % (a["K"], a["K"], a["KF"], a["KF"]),
            "sReg": len(a["sregs"]), "mu": len(a["mus"]), "directions": len(a["dirs"]), "radii": len(a["radii"])}


def groups(tier, seed):
    gs = []
    for mode in MODES:            # eager first: heaviest
        for r in ROUTINES:
            gs.append({"name": "%s|%s" % (r, mode), "routine": r, "mode": mode})
    a = _axes(tier, seed)
    for sl, _ in a["sregs"]:
        gs.append({"name": "friction-convex|sReg=%s" % sl, "routine": "friction-convex", "mode": MODES[2], "sReg": sl})
    return gs


# ---------------------------------------------------------------------------------------------------------------
# point sets.  A point: dict(label, a=[floats], cluster=name|None, swap=[floats]|None)
# ---------------------------------------------------------------------------------------------------------------

def _slabel(s, k=None):
    t = "s%+g" % s
    return t if k is None else "%s,k%+d" % (t, k)


def _configs_points(routine, tier, seed):
    """-> list of (cfg dict (labels + numbers), [points])"""
    a = _axes(tier, seed)
    out = []
    K = a["K"]
    ks = list(range(-K, K + 1))
    if routine in ("min", "max"):
        for el, eps in a["widths"] + a["special"]:
            for yl, y in a["bases"]:
                pts = []
                for s in a["offs"]:
                    xn = float(y + s * eps)
                    if abs(s) == 1.0 or s == 0.0:      # the band edges and the (masked) x<y switch of the plain minimum
                        for k in ks:
                            x = ref.nudge(xn, k)
                            pts.append({"label": _slabel(s, k), "a": [x, y, eps], "cluster": _slabel(s), "swap": [y, x, eps]})
                    else:
                        pts.append({"label": _slabel(s), "a": [xn, y, eps], "cluster": None, "swap": [y, xn, eps]})
                out.append(({"label": "eps=%s;y=%s" % (el, yl), "eps": eps, "y": y}, pts))
    elif routine == "abs":
        for el, eps in a["widths"] + a["special"]:
            pts = []
            for s in a["offs"]:
                xn = float(s * eps * 0.5)
                if abs(s) == 1.0 or s == 0.0:
                    for k in ks:
                        x = ref.nudge(xn, k)
                        pts.append({"label": _slabel(s, k), "a": [x, eps], "cluster": _slabel(s), "swap": [-x, eps]})
                else:
                    pts.append({"label": _slabel(s), "a": [xn, eps], "cluster": None, "swap": [-xn, eps]})
            # a few arguments far from the band
            for xl, x in (("far1", 1.0), ("far-3", -3.0), ("far1e6", 1.0e6)):
                pts.append({"label": xl, "a": [x, eps], "cluster": None, "swap": [-x, eps]})
            out.append(({"label": "eps=%s" % el, "eps": eps}, pts))
    elif routine == "zmax":
        for el, eps in a["widths"] + [("1e-15", 1e-15)]:
            pts = []
            for s in a["offs"]:
                xn = float(s * eps)
                if abs(s) == 1.0:
                    for k in ks:
                        pts.append({"label": _slabel(s, k), "a": [ref.nudge(xn, k), eps], "cluster": _slabel(s), "swap": None})
                else:
                    pts.append({"label": _slabel(s), "a": [xn, eps], "cluster": None, "swap": None})
            out.append(({"label": "eps=%s" % el, "eps": eps}, pts))
    elif routine == "smooth_linear":
        ls = [(el, l) for el, l in a["widths"] if l <= 0.5]
        ls += [(el, l) for el, l in (("0.5", 0.5), ("0.25", 0.25)) if l not in [t[1] for t in ls]]
        for el, l in ls:
            pts = []
            for cname, sw in ref.smooth_linear_switches(l):
                for k in ks:
                    pts.append({"label": "%s,k%+d" % (cname, k), "a": [ref.nudge(sw, k), l], "cluster": cname, "swap": None})
            for xl, x in (("0", 0.0), ("l/2", 0.5 * l), ("mid", 0.5 + 0.25 * l), ("1-l/2", 1.0 - 0.5 * l), ("1", 1.0)):
                pts.append({"label": xl, "a": [float(x), l], "cluster": None, "swap": None})
            out.append(({"label": "l=%s" % el, "eps": l}, pts))
    elif routine == "smoothstep":
        pts = []
        for cname, sw in (("at0", 0.0), ("at1", 1.0)):
            for k in range(-4, 5):
                pts.append({"label": "%s,k%+d" % (cname, k), "a": [ref.nudge(sw, k)], "cluster": cname, "swap": None})
        # the same switches approached on a geometric ladder (denormal neighbours of 0 say little)
        for cname, sw in (("at0", 0.0), ("at1", 1.0)):
            for j in (-1, 1):
                for e in (1e-300, 1e-100, 1e-16, 1e-12):
                    pts.append({"label": "%s,%+g" % (cname, j * e), "a": [float(sw + j * e)], "cluster": cname + "-ladder", "swap": None})
            pts.append({"label": "%s,0" % cname, "a": [sw], "cluster": cname + "-ladder", "swap": None})
        for xl, x in (("-1", -1.0), ("0.25", 0.25), ("0.5", 0.5), ("2", 2.0)):
            pts.append({"label": xl, "a": [x], "cluster": None, "swap": None})
        out.append(({"label": "fixed", "eps": 1.0}, pts))
    elif routine == "friction":
        KF = a["KF"]
        for sl, sreg in a["sregs"]:
            for ml, mu in a["mus"]:
                pts = []
                for dl, d in a["dirs"]:
                    for s in a["radii"]:
                        rn = float(s * sreg)
                        for k in (range(-KF, KF + 1) if s == 1.0 else [None]):
                            r = rn if k is None else ref.nudge(rn, k)
                            pts.append({"label": "dir=%s,%s" % (dl, _slabel(s, k)), "a": [r * d[0], r * d[1], mu, sreg],
                                        "cluster": ("dir=%s" % dl) if s == 1.0 else None, "swap": None})
                out.append(({"label": "sReg=%s;mu=%s" % (sl, ml), "eps": sreg, "mu": mu}, pts))
    else:
        raise KeyError(routine)
    return out


def _eager_subset(routine, cps):
    """zmax and the friction potential go through lax.cond, which re-compiles on every op-by-op call (~0.3 s per
    call): the op-by-op mode of these two routines runs on a stated sub-alphabet (extreme widths, the switch and its
    nearest neighbours); the two compiled modes run the full product."""
    if routine == "zmax":
        keep_cfg = lambda c: c["eps"] in (1.0, 1e-10)
        keep_pt = lambda p: p["label"] in ("s+0", "s-1,k-1", "s-1,k+0", "s-1,k+1", "s+1,k-1", "s+1,k+0", "s+1,k+1")
    elif routine == "friction":
        keep_cfg = lambda c: c["eps"] in (1.0, 1e-8) and c["mu"] == 0.3
        keep_pt = lambda p: p["label"] in ["dir=%s,%s" % (d, t) for d in ("E", "NE")
                                           for t in ("s+0", "s+2", "s+1,k-1", "s+1,k+0", "s+1,k+1")]
    else:
        return cps
    return [(c, [p for p in pts if keep_pt(p)]) for c, pts in cps if keep_cfg(c)]


# ---------------------------------------------------------------------------------------------------------------
# library functions (imported inside the worker)
# ---------------------------------------------------------------------------------------------------------------

def _lib(routine):
    """-> (fn(*scalars) -> scalar, nargs, ndiff)"""
    import jax.numpy as np
    from optimism import SmoothFunctions as S
    if routine == "min":
        return (lambda x, y, e: S.min(x, y, e)), 3, 2
    if routine == "max":
        return (lambda x, y, e: S.max(x, y, e)), 3, 2
    if routine == "abs":
        return (lambda x, e: S.abs(x, e)), 2, 1
    if routine == "zmax":
        return (lambda x, e: S.zmax(x, e)), 2, 1
    if routine == "smooth_linear":
        from optimism.contact import MortarContact
        return (lambda x, l: MortarContact.smooth_linear(x, l)), 2, 1
    if routine == "smoothstep":
        from optimism.contact import EdgeCpp
        return (lambda x: EdgeCpp.smoothstep(x)), 1, 1
    if routine in ("friction", "friction-convex"):
        from optimism.contact import Friction
        return (lambda sx, sy, mu, sreg: Friction.compute_friction_energy_from_perp_slip(
            np.array([sx, sy]), Friction.Params(mu, sreg))), 4, 2
    raise KeyError(routine)


class _Evaluator:
    """value and gradient of one routine at a list of argument vectors, in one execution mode"""

    def __init__(self, routine, mode):
        import jax
        import jax.numpy as np
        self.jax, self.np = jax, np
        self.fn, self.nargs, self.ndiff = _lib(routine)
        self.mode = mode
        fn, nd = self.fn, self.ndiff
        argn = tuple(range(nd))
        self.g_eager = jax.grad(fn, argnums=argn)
        if mode == "jit":
            self.f_c = jax.jit(fn)
            self.g_c = jax.jit(jax.grad(fn, argnums=argn))
        elif mode.startswith("vmap"):
            self.f_c = jax.jit(jax.vmap(fn))
            self.g_c = jax.jit(jax.vmap(jax.grad(fn, argnums=argn)))

    def __call__(self, A, want_grad=True):
        """A: list of argument lists. -> (vals float array, grads float array (n, ndiff) or None)"""
        np = self.np
        n = len(A)
        vals = onp.full(n, onp.nan)
        grads = onp.full((n, self.ndiff), onp.nan) if want_grad else None
        if self.mode == "eager":
            for i, a in enumerate(A):
                vals[i] = float(self.fn(*[float(t) for t in a]))
                if want_grad:
                    grads[i] = [float(t) for t in self.g_eager(*[float(t) for t in a])]
        elif self.mode == "jit":
            for i, a in enumerate(A):
                vals[i] = float(self.f_c(*[float(t) for t in a]))
                if want_grad:
                    grads[i] = [float(t) for t in self.g_c(*[float(t) for t in a])]
        else:
            for s in range(0, n, B):
                rows = A[s:s + B]
                pad = rows + [rows[0]] * (B - len(rows))
                cols = [np.array([r[j] for r in pad]) for j in range(self.nargs)]
                v = onp.asarray(self.f_c(*cols))
                vals[s:s + len(rows)] = v[:len(rows)]
                if want_grad:
                    gs = self.g_c(*cols)
                    for j in range(self.ndiff):
                        grads[s:s + len(rows), j] = onp.asarray(gs[j])[:len(rows)]
        return vals, grads


# ---------------------------------------------------------------------------------------------------------------
# judging
# ---------------------------------------------------------------------------------------------------------------

def _tier3(excess, sharp, cancel):
    if excess <= sharp:
        return "ok"
    return "cancel" if excess <= cancel else "gross"


def _minform(routine, a, v):
    """map (routine, arguments, value) onto the smoothed-minimum statement: (X, Y, eps, V)"""
    if routine == "min":
        return a[0], a[1], a[2], v
    if routine == "max":
        return -a[0], -a[1], a[2], -v
    return -a[0], a[0], a[1], -v        # abs(x) = -min(-x, x)


def run_group(g, tier, seed, rec):
    from mc.runner import exception_key
    routine, mode = g["routine"], g["mode"]
    if routine == "friction-convex":
        return _run_convex(g, tier, seed, rec)
    ev = _Evaluator(routine, mode)
    cps = _configs_points(routine, tier, seed)
    if mode == "eager":
        cps = _eager_subset(routine, cps)
    ncases = sum(len(p) for _, p in cps)
    sample_idx = set(pick(range(ncases), seed, 2))
    counter = [0]

    for cfg, pts in cps:
        base_cid = "routine=%s;mode=%s;%s" % (routine, mode, cfg["label"])
        cids = ["%s;pt=%s" % (base_cid, p["label"]) for p in pts]
        clusters = sorted({p["cluster"] for p in pts if p["cluster"]})
        ccids = {c: "%s;cluster=%s;check=c1" % (base_cid, c) for c in clusters}
        if not (any(rec.want(c) for c in cids) or any(rec.want(c) for c in ccids.values())):
            counter[0] += len(pts)
            continue
        A = [p["a"] for p in pts]
        try:
            vals, grads = ev(A, True)
            if pts[0]["swap"] is not None:
                svals, _ = ev([p["swap"] for p in pts], False)
            else:
                svals = None
        except Exception as e:  # noqa
            rec.violation("%s|%s" % (_rname(routine), exception_key(e)), base_cid, {"error": repr(e)[:500], "config": cfg})
            rec.case(base_cid, outcome="exception")
            counter[0] += len(pts)
            continue

        def viol(key, cid, p, v, gr, extra):
            d = {"routine": routine, "mode": mode, "args": p["a"], "value": v,
                 "grad": None if gr is None else [float(t) for t in gr]}
            d.update(extra)
            rec.violation(key, cid, d)

        for i, p in enumerate(pts):
            idx = counter[0]
            counter[0] += 1
            if not rec.want(cids[i]):
                continue
            v, gr = float(vals[i]), grads[i]
            outcome, nontriv = _judge_point(routine, cfg, p, v, gr, None if svals is None else float(svals[i]),
                                            rec, lambda key, extra, _p=p, _v=v, _g=gr, _c=cids[i]: viol(key, _c, _p, _v, _g, extra))
            rec.case(cids[i], nontrivial=nontriv, outcome="%s:%s" % (routine, outcome), steps=3 if svals is not None else 2,
                     sample=({"case": cids[i], "args": p["a"], "value": v, "grad": [float(t) for t in gr]}
                             if idx in sample_idx else None))

        for c in clusters:
            if not rec.want(ccids[c]):
                continue
            members = [i for i, p in enumerate(pts) if p["cluster"] == c]
            outcome, nontriv = _judge_cluster(routine, cfg, c, [pts[i] for i in members], vals[members], grads[members], rec,
                                              lambda key, extra, _c=ccids[c], _m=members: rec.violation(key, _c, dict(
                                                  {"routine": routine, "mode": mode, "cluster": c,
                                                   "args": [pts[i]["a"] for i in _m], "values": [float(vals[i]) for i in _m],
                                                   "grads": [[float(t) for t in grads[i]] for i in _m]}, **extra)))
            rec.case(ccids[c], nontrivial=nontriv, outcome="%s:c1:%s" % (routine, outcome), steps=len(members))


def _rname(routine):
    return {"min": "SmoothFunctions.min", "max": "SmoothFunctions.max", "abs": "SmoothFunctions.abs",
            "zmax": "SmoothFunctions.zmax", "smooth_linear": "MortarContact.smooth_linear",
            "smoothstep": "EdgeCpp.smoothstep", "friction": "Friction.energy", "friction-convex": "Friction.energy"}[routine]


def _judge_point(routine, cfg, p, v, gr, vswap, rec, viol):
    """-> (outcome label, nontrivial). `viol(key, extra)` records a violation for this point."""
    rn = _rname(routine)
    a = p["a"]
    bad = []
    if not onp.all(onp.isfinite(gr)):
        viol(rn + "|grad-not-finite", {})
        bad.append("grad-not-finite")
    if not math.isfinite(v):
        viol(rn + "|value-not-finite", {})
        return "value-not-finite", False

    if routine in ("min", "max", "abs"):
        X, Y, eps, V = _minform(routine, a, v)
        inband = ref.in_band_exact(X, Y, eps)
        m = min(X, Y)
        rec.branch("%s:%s" % (routine, "inside-band" if inband else "outside-band"))
        if vswap is not None and not (vswap == v):
            viol(rn + "|asymmetric", {"value_swapped_arguments": vswap})
            bad.append("asymmetric")
        if not inband:
            if V != m:
                viol(rn + "|not-equal-outside-band", {"true_value": -m if routine != "min" else m})
                bad.append("not-equal-outside")
            return ("outside:" + ("equal" if not bad else ",".join(bad))), False
        over, under = ref.min_excess(X, Y, eps, V)
        sharp, cancel = ref.sharp_tol(X, Y, eps), ref.cancel_bound(X, Y, eps)
        ill = cancel > 16.0 * sharp
        tag = "ill" if ill else "well"
        rec.track_max("%s:over/sharp[%s-conditioned]" % (routine, tag), over / sharp)
        rec.track_max("%s:under/sharp[%s-conditioned]" % (routine, tag), under / sharp)
        if ill:
            rec.track_max("minmax:excess/cancel_bound", max(over, under) / cancel)
        st = "ok"
        for exc, name in ((over, "exceeds-true-" + ("min" if routine == "min" else "bound")), (under, "looser-than-quarter-width")):
            t = _tier3(exc, sharp, cancel)
            if t == "cancel":
                viol(CANCEL_KEY, {"clause": name, "excess": exc, "sharp_allowance": sharp, "cancellation_bound": cancel,
                                  "true_min_form": m, "quarter_width": ref.eff_width(eps) / 4})
                st = "cancellation"
            elif t == "gross":
                viol("%s|%s" % (rn, name), {"excess": exc, "sharp_allowance": sharp, "cancellation_bound": cancel,
                                            "true_min_form": m, "quarter_width": ref.eff_width(eps) / 4})
                bad.append(name)
        if bad:
            st = ",".join(bad)
        rec.branch("%s:inside-band:%s" % (routine, st if st in ("ok", "cancellation") else "VIOLATION"))
        return "inside[%s]:%s" % (tag, st), True

    if routine == "friction":
        sx, sy, mu, sreg = a
        fr = ref.friction([sx, sy], mu, sreg)
        rec.branch("friction:" + ("inside-radius" if fr["inside"] else "outside-radius"))
        if v < 0.0:
            viol(rn + "|negative", {})
            bad.append("negative")
        lim = fr["coulomb"] * (1.0 + 4 * 2.0 ** -52)
        if v > lim:
            viol(rn + "|above-coulomb", {"coulomb": fr["coulomb"]})
            bad.append("above-coulomb")
        if fr["coulomb"] > 0:
            rec.track_max("friction:value/coulomb", v / fr["coulomb"])
        if not fr["inside"]:
            tol = ref.SHARP_ULPS * ref.ulp(fr["coulomb"])
            d = abs(v - fr["outside_value"])
            rec.track_max("friction:outside_value_err/ulp(mu|s|)", d / ref.ulp(fr["coulomb"]))
            if d > tol:
                viol(rn + "|outside-value-mismatch", {"expected": fr["outside_value"], "tolerance": tol})
                bad.append("outside-value")
        return ("inside" if fr["inside"] else "outside") + ":" + (",".join(bad) if bad else "ok"), bool(fr["inside"] and fr["norm"] > 0)

    # zmax, smooth_linear, smoothstep: only C1 is claimed -> point cases carry finiteness only
    return ("finite" if not bad else ",".join(bad)), False


def _judge_cluster(routine, cfg, cname, pts, vals, grads, rec, viol):
    """C1 across one switch: all floating-point neighbours of the switch, pairwise."""
    rn = _rname(routine)
    eps = cfg["eps"]
    n = len(pts)
    if routine in ("min", "max", "abs"):
        if eps == 0.0 or eps < ref.FLOOR:
            return "not-claimed(width-below-floor)", False
        xs = [p["a"][0] for p in pts]
        sides = set()
        for p in pts:
            X, Y, e, _ = _minform(routine, p["a"], 0.0)
            sides.add(ref.in_band_exact(X, Y, e))
        X, Y, e, _ = _minform(routine, pts[n // 2]["a"], 0.0)
        sharp, cancel = ref.sharp_tol(X, Y, e), ref.cancel_bound(X, Y, e)
        lipv, lipg = 1.0, 0.5 / eps * (2.0 if routine == "abs" else 1.0) * 2.0
        scale = max(abs(X), abs(Y), e)
    elif routine == "zmax":
        xs = [p["a"][0] for p in pts]
        sides = {(x >= eps, x <= -eps) for x in xs}
        sharp = cancel = ref.SHARP_ULPS * ref.ulp(eps)
        lipv, lipg, scale = 1.0, 0.5 / eps, eps
    elif routine == "smooth_linear":
        xs = [p["a"][0] for p in pts]
        sides = {(x < eps, x > 1.0 - eps) for x in xs}
        sharp = cancel = ref.SHARP_ULPS * ref.ulp(1.0)
        lipv, lipg, scale = 1.0, 1.0 / eps, 1.0
    elif routine == "smoothstep":
        xs = [p["a"][0] for p in pts]
        sides = {(x < 0.0, x > 1.0) for x in xs}
        sharp = cancel = ref.SHARP_ULPS * ref.ulp(1.0)
        lipv, lipg, scale, eps = 1.5, 6.0, 1.0, 1.0
    elif routine == "friction":
        mu, sreg = pts[0]["a"][2], pts[0]["a"][3]
        frs = [ref.friction(p["a"][:2], mu, sreg) for p in pts]
        xs = [f["norm"] for f in frs]
        sides = {f["inside"] for f in frs}
        sharp = cancel = ref.SHARP_ULPS * ref.ulp(mu * sreg)
        lipv, lipg, scale, eps = mu, mu / sreg, sreg, sreg
    else:
        raise KeyError(routine)
    tau_g0 = 1e-9 + 64.0 * ref.ulp(scale) / eps
    worst_v, worst_g, st = -1.0, -1.0, "ok"
    worst_pair_v = worst_pair_g = None
    for i in range(n):
        for j in range(i + 1, n):
            dx = abs(xs[i] - xs[j])
            ev_ = abs(float(vals[i]) - float(vals[j])) - lipv * dx
            eg_ = float(onp.max(onp.abs(grads[i] - grads[j]))) - lipg * dx
            if ev_ > worst_v:
                worst_v, worst_pair_v = ev_, (i, j)
            if eg_ > worst_g:
                worst_g, worst_pair_g = eg_, (i, j)
    straddles = len(sides) > 1
    rec.branch("%s:cluster-%s" % (routine, "straddles-switch" if straddles else "one-sided"))
    ill = cancel > 16.0 * sharp
    rec.track_max("%s:value_jump/sharp[%s]" % (routine, "ill" if ill else "well"), worst_v / sharp)
    t = _tier3(worst_v, sharp, cancel)
    if t == "cancel":
        viol(CANCEL_KEY, {"clause": "value-jump-at-switch", "excess": worst_v, "pair": worst_pair_v,
                          "sharp_allowance": sharp, "cancellation_bound": cancel})
        st = "cancellation"
    elif t == "gross":
        viol("%s|value-jump-at-switch" % rn, {"excess": worst_v, "pair": worst_pair_v, "allowance": sharp})
        st = "VIOLATION:value-jump"
    if tau_g0 >= 0.1:
        rec.branch("%s:grad-jump-vacuous(band-not-resolved)" % routine)
        return st + "|grad-vacuous", False
    rec.track_max("%s:grad_jump/tau" % routine, worst_g / tau_g0)
    if worst_g > tau_g0:
        viol("%s|grad-jump-at-switch" % rn, {"excess": worst_g, "pair": worst_pair_g, "allowance": tau_g0})
        st = (st + "," if st != "ok" else "") + "VIOLATION:grad-jump"
    return st, straddles


# ---------------------------------------------------------------------------------------------------------------
# friction: midpoint convexity on every pair of lattice points
# ---------------------------------------------------------------------------------------------------------------

def _run_convex(g, tier, seed, rec):
    from mc.runner import exception_key
    a = _axes(tier, seed)
    sreg = dict(a["sregs"])[g["sReg"]]
    ev = _Evaluator("friction", g["mode"])
    KF = a["KF"]
    radii = []
    for s in a["radii"]:
        if s == 1.0:
            radii += [("s+1,k%+d" % k, ref.nudge(sreg, k)) for k in (-KF, 0, KF)]
        else:
            radii.append(("s%+g" % s, s * sreg))
    radii.append(("s+5", 5.0 * sreg))
    for ml, mu in a["mus"]:
        lat = []
        for dl, d in a["dirs"]:
            for rl, r in radii:
                if r == 0.0 and dl != a["dirs"][0][0]:
                    continue
                lat.append(("%s,%s" % (dl, rl), (r * d[0], r * d[1])))
        P = [[p[0], p[1], mu, sreg] for _, p in lat]
        pairs = [(i, j) for i in range(len(lat)) for j in range(i + 1, len(lat))]
        M = [[0.5 * (lat[i][1][0] + lat[j][1][0]), 0.5 * (lat[i][1][1] + lat[j][1][1]), mu, sreg] for i, j in pairs]
        base = "routine=friction-convex;mode=%s;sReg=%s;mu=%s" % (g["mode"], g["sReg"], ml)
        try:
            EP, _ = ev(P, False)
            EM, _ = ev(M, False)
        except Exception as e:  # noqa
            rec.violation("Friction.energy|%s" % exception_key(e), base, {"error": repr(e)[:500]})
            rec.case(base, outcome="exception")
            continue
        inside = [ref.friction(p[:2], mu, sreg)["inside"] for p in P]
        norms = [ref.friction(p[:2], mu, sreg)["norm"] for p in P]
        for q, (i, j) in enumerate(pairs):
            cid = "%s;a=%s;b=%s" % (base, lat[i][0], lat[j][0])
            if not rec.want(cid):
                continue
            tol = 2.0 * ref.SHARP_ULPS * ref.ulp(mu * max(norms[i], norms[j], sreg))
            exc = float(EM[q]) - 0.5 * (float(EP[i]) + float(EP[j]))
            rec.track_max("friction:convexity_excess/tol", exc / tol)
            mid_in = ref.friction(M[q][:2], mu, sreg)["inside"]
            crossing = len({inside[i], inside[j], mid_in}) > 1
            if exc > tol:
                rec.violation("Friction.energy|not-midpoint-convex", cid,
                              {"a": P[i], "b": P[j], "mid": M[q], "E(a)": float(EP[i]), "E(b)": float(EP[j]),
                               "E(mid)": float(EM[q]), "excess": exc, "tolerance": tol})
                rec.case(cid, nontrivial=crossing, outcome="convex:VIOLATION", steps=3)
            else:
                rec.case(cid, nontrivial=crossing, outcome="convex:%s" % ("crossing-radius" if crossing else "one-side"), steps=3)
