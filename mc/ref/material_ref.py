"""Reference data / models for C08 (objectivity, isotropy, stress-free rest state) and C10 (autodiff stress and
tangent versus finite differences of the energy).  numpy only -- never imports optimism or jax.  Boring on purpose.

* labelled alphabets: moduli sets, principal stretches, in-plane axes, superposed rotations, deformation gradients
* measured input classes: principal-stretch class / relative eigenvalue gap of C = F^T F, largest logarithmic strain
* modulus scales (for tolerances), Gent admissibility, J2 yield side (through mc.ref.j2_ref)
* 6th-order central finite-difference stencils with Richardson extrapolation (h, h/2) for the gradient (9 basis
  directions) and all 45 unordered second derivatives of a scalar function of a 3x3 matrix, as ONE fixed table of
  811 distinct stencil points (padded by the caller to a fixed length) and dense coefficient matrices
"""
import itertools

import numpy as onp

from mc.ref.tensor_ref import rot_x, rot_y, rot_z, generic_rotation  # noqa: F401  (numpy only)

I3 = onp.eye(3)
EPS = 2.220446049250313e-16

# ---------------------------------------------------------------------------------------------------
# alphabets
# ---------------------------------------------------------------------------------------------------

MODULI = [("E=1,nu=0.3", 1.0, 0.3), ("E=1e-2,nu=0", 1e-2, 0.0), ("E=1e6,nu=0.49", 1e6, 0.49)]

# principal stretches 1+eps over several decades, plus 2 and 10
STRETCHES = [("1-0.3", 1.0 - 0.3), ("1-1e-2", 1.0 - 1e-2), ("1-1e-4", 1.0 - 1e-4), ("1-1e-8", 1.0 - 1e-8),
             ("1+1e-8", 1.0 + 1e-8), ("1+1e-4", 1.0 + 1e-4), ("1+1e-2", 1.0 + 1e-2), ("1+0.3", 1.0 + 0.3),
             ("2", 2.0), ("10", 10.0)]
STRETCH = dict(STRETCHES)

THETAS = [("0", 0.0), ("0.3", 0.3), ("pi/6", onp.pi / 6), ("pi/4", onp.pi / 4), ("1", 1.0), ("pi/2", onp.pi / 2)]

INPLANE_Q = [("0.1", 0.1), ("0.3", 0.3), ("pi/6", onp.pi / 6), ("pi/4", onp.pi / 4), ("1", 1.0), ("pi/3", onp.pi / 3),
             ("pi/2", onp.pi / 2), ("2", 2.0), ("3pi/4", 3 * onp.pi / 4), ("pi", onp.pi), ("4", 4.0), ("5.5", 5.5)]
AXIS_ANGLES = [("0.3", 0.3), ("pi/4", onp.pi / 4), ("pi/2", onp.pi / 2), ("2", 2.0), ("pi", onp.pi)]

# quick-tier principal-stretch triples for the fully 3-D deformations: distinct / two equal / three equal
TRIPLES_QUICK = [("1-1e-8", "1+1e-8", "1+1e-4"), ("1-0.3", "1+1e-2", "1+0.3"), ("1-0.3", "2", "10"),
                 ("1+0.3", "1+0.3", "1-0.3"), ("2", "2", "1+1e-4"), ("1+1e-8", "1+1e-8", "1-1e-2"),
                 ("10", "1+0.3", "1+0.3"), ("1+0.3", "1+0.3", "1+0.3"), ("1-1e-4", "1-1e-4", "1-1e-4")]


def axis_rotation(axis, t):
    """Rodrigues rotation about a unit axis."""
    a = onp.asarray(axis, dtype=float)
    a = a / onp.sqrt((a * a).sum())
    K = onp.array([[0.0, -a[2], a[1]], [a[2], 0.0, -a[0]], [-a[1], a[0], 0.0]])
    return I3 + onp.sin(t) * K + (1.0 - onp.cos(t)) * (K @ K)


def rotations(seed):
    """28 labelled proper rotations: 12 in-plane angles, 3 axes x 5 angles, one generic (seeded)."""
    out = [("z:%s" % l, rot_z(t)) for l, t in INPLANE_Q]
    for al, ax in (("x", (1.0, 0.0, 0.0)), ("y", (0.0, 1.0, 0.0)), ("111", (1.0, 1.0, 1.0))):
        for l, t in AXIS_ANGLES:
            out.append(("%s:%s" % (al, l), axis_rotation(ax, t)))
    out.append(("generic", generic_rotation(seed, 8)))
    return out


def rotation_pairs(seed, thorough=False):
    """(label, R1, R2) for F = R1 diag(stretches) R2^T."""
    E1 = rot_z(0.3) @ rot_x(1.0) @ rot_z(2.0)
    E2 = rot_z(2.0) @ rot_x(1.0) @ rot_z(0.1)
    G = generic_rotation(seed, 9)
    prs = [("I|I", I3, I3), ("z0.3|z1", rot_z(0.3), rot_z(1.0)), ("euler|euler2", E1, E2), ("generic|z0.3", G, rot_z(0.3))]
    if thorough:
        prs += [("I|euler", I3, E1), ("generic|generic", G, G)]
    return prs


def deformations(tier, seed):
    """Labelled deformation gradients of C08: list of (label, kind, F)."""
    out = []
    for sl, lam in STRETCHES:
        for tl, th in THETAS:
            n = onp.array([onp.cos(th), onp.sin(th), 0.0])
            out.append(("uniax:%s@%s" % (sl, tl), "uniaxial", I3 + (lam - 1.0) * onp.outer(n, n)))
    for sl, lam in STRETCHES:
        out.append(("equibiax:%s" % sl, "equibiaxial", onp.diag([lam, lam, 1.0])))
    for sl, lam in STRETCHES:
        out.append(("dilation:%s" % sl, "dilation", lam * I3))
    thorough = tier == "thorough"
    if thorough:
        labels = [s for s, _ in STRETCHES]
        triples = list(itertools.combinations_with_replacement(labels, 3))
    else:
        triples = TRIPLES_QUICK
    for tr in triples:
        lam = onp.array([STRETCH[s] for s in tr])
        for pl, R1, R2 in rotation_pairs(seed, thorough):
            out.append(("3d:%s|%s" % (",".join(tr), pl), "3d", (R1 * lam[None, :]) @ R2.T))
    return out


# ---------------------------------------------------------------------------------------------------
# measured input classes
# ---------------------------------------------------------------------------------------------------

def stretch_info(F):
    """Batched: principal stretches (ascending), relative gap of C = F^T F (min neighbouring gap / largest
    eigenvalue), class label, largest |log stretch|."""
    F = onp.asarray(F, dtype=float)
    C = onp.swapaxes(F, -1, -2) @ F
    C = 0.5 * (C + onp.swapaxes(C, -1, -2))
    w = onp.linalg.eigvalsh(C)
    gap = onp.minimum(w[..., 1] - w[..., 0], w[..., 2] - w[..., 1]) / w[..., 2]
    gap2 = onp.maximum(w[..., 1] - w[..., 0], w[..., 2] - w[..., 1]) / w[..., 2]
    lam = onp.sqrt(onp.maximum(w, 0.0))
    with onp.errstate(all="ignore"):
        e = onp.abs(onp.log(lam)).max(axis=-1)
    return {"lam": lam, "gap": gap, "gap2": gap2, "logmax": e, "lam_max": lam[..., 2]}


def stretch_class(gap, gap2, thr=1e-6):
    if gap2 <= thr:
        return "three-equal"
    if gap <= thr:
        return "two-equal"
    return "distinct"


def rel_gap_sym(A):
    """Smallest neighbouring eigenvalue gap / spectral radius of symmetric A (0 for the zero tensor). Batched."""
    A = onp.asarray(A, dtype=float)
    A = 0.5 * (A + onp.swapaxes(A, -1, -2))
    out = onp.zeros(A.shape[:-2])
    ok = onp.all(onp.isfinite(A), axis=(-2, -1))
    if onp.any(ok):
        w = onp.linalg.eigvalsh(A[ok])
        r = onp.abs(w).max(axis=-1)
        g = onp.minimum(w[..., 1] - w[..., 0], w[..., 2] - w[..., 1])
        with onp.errstate(all="ignore"):
            out[ok] = onp.where(r > 0, g / onp.where(r > 0, r, 1.0), 0.0)
    return out


def lame(E, nu):
    mu = 0.5 * E / (1.0 + nu)
    kappa = E / 3.0 / (1.0 - 2.0 * nu)
    return mu, kappa


def gent_ratio(F, Jm):
    """(I1bar - 3)/Jm : the Gent energy is defined for values < 1."""
    F = onp.asarray(F, dtype=float)
    J = onp.linalg.det(F)
    I1b = J ** (-2.0 / 3.0) * (F * F).sum(axis=(-2, -1))
    return (I1b - 3.0) / Jm


def fro(A):
    A = onp.asarray(A, dtype=float)
    return onp.sqrt((A * A).sum(axis=(-2, -1)))


# ---------------------------------------------------------------------------------------------------
# finite-difference stencil (6th-order central, Richardson h & h/2)
# ---------------------------------------------------------------------------------------------------

C1 = {-3: -1.0 / 60, -2: 9.0 / 60, -1: -45.0 / 60, 1: 45.0 / 60, 2: -9.0 / 60, 3: 1.0 / 60}
C2 = {-3: 2.0 / 180, -2: -27.0 / 180, -1: 270.0 / 180, 0: -490.0 / 180, 1: 270.0 / 180, 2: -27.0 / 180, 3: 2.0 / 180}
PAIRS = [(a, b) for a in range(9) for b in range(a, 9)]       # 45 unordered pairs, (a,a) first in each row
BASIS = onp.eye(9).reshape(9, 3, 3)


class Stencil:
    """offsets (N,3,3) in units of h (point = H + h*offset); point 0 is the centre.
    grad  = (G  @ f) / h     (9,)   Richardson-extrapolated 6th-order first derivatives
    grad0 = (G0 @ f) / h            plain 6th-order with step h      (for the error estimate)
    hess  = (S  @ f) / h^2   (45,)  second derivatives for PAIRS
    hess0 = (S0 @ f) / h^2
    radius1 / radius2: largest |offset|_F used by the first / second derivative rows (in units of h)."""

    def __init__(self):
        idx = {}
        pts = []

        def pid(off):
            key = tuple(onp.round(off.ravel() * 4).astype(int).tolist())     # offsets are multiples of 1/2
            if key not in idx:
                idx[key] = len(pts)
                pts.append(off.copy())
            return idx[key]
        pid(onp.zeros((3, 3)))
        rows_g, rows_g0, rows_s, rows_s0 = [], [], [], []

        def d1(d, u):
            return {pid(k * u * d): c / u for k, c in C1.items()}

        def d2(d, u):
            r = {}
            for k, c in C2.items():
                j = pid(k * u * d)
                r[j] = r.get(j, 0.0) + c / (u * u)
            return r

        def comb(terms):
            r = {}
            for w, row in terms:
                for j, c in row.items():
                    r[j] = r.get(j, 0.0) + w * c
            return r
        for a in range(9):
            rows_g.append(comb([(64.0 / 63, d1(BASIS[a], 0.5)), (-1.0 / 63, d1(BASIS[a], 1.0))]))
            rows_g0.append(d1(BASIS[a], 1.0))
        for a, b in PAIRS:
            if a == b:
                rows_s.append(comb([(64.0 / 63, d2(BASIS[a], 0.5)), (-1.0 / 63, d2(BASIS[a], 1.0))]))
                rows_s0.append(d2(BASIS[a], 1.0))
            else:
                p, m = BASIS[a] + BASIS[b], BASIS[a] - BASIS[b]
                rows_s.append(comb([(64.0 / 63 / 4, d2(p, 0.5)), (-1.0 / 63 / 4, d2(p, 1.0)),
                                    (-64.0 / 63 / 4, d2(m, 0.5)), (1.0 / 63 / 4, d2(m, 1.0))]))
                rows_s0.append(comb([(0.25, d2(p, 1.0)), (-0.25, d2(m, 1.0))]))
        self.offsets = onp.stack(pts)
        self.n = len(pts)

        def dense(rows):
            M = onp.zeros((len(rows), self.n))
            for i, r in enumerate(rows):
                for j, c in r.items():
                    M[i, j] = c
            return M
        self.G, self.G0, self.S, self.S0 = dense(rows_g), dense(rows_g0), dense(rows_s), dense(rows_s0)
        self.radius1 = 3.0
        self.radius2 = 3.0 * onp.sqrt(2.0)
        self.used1 = onp.abs(self.G).sum(axis=0) > 0
        self.used2 = onp.abs(self.S).sum(axis=0) > 0

    def points(self, H, h):
        return onp.asarray(H, dtype=float)[None, :, :] + h * self.offsets

    def derivatives(self, f, h):
        """f: (n,) energies at points(H, h) -> dict of Richardson / plain gradient (3,3) and hessian (9,9)."""
        f = onp.asarray(f, dtype=float)
        f = f - f[0]                       # derivatives do not see a constant; removes cancellation noise of the sums
        g, g0 = self.G @ f / h, self.G0 @ f / h
        s, s0 = self.S @ f / h ** 2, self.S0 @ f / h ** 2
        Hs, Hs0 = onp.zeros((9, 9)), onp.zeros((9, 9))
        for k, (a, b) in enumerate(PAIRS):
            Hs[a, b] = Hs[b, a] = s[k]
            Hs0[a, b] = Hs0[b, a] = s0[k]
        return {"grad": g.reshape(3, 3), "grad_plain": g0.reshape(3, 3), "hess": Hs, "hess_plain": Hs0}


# ---------------------------------------------------------------------------------------------------
# closed-form sanity model (used by the framework self-test of this file only)
# ---------------------------------------------------------------------------------------------------

def neohookean_adagio(H, E, nu):
    mu, kappa = lame(E, nu)
    F = onp.asarray(H, dtype=float) + I3
    J = onp.linalg.det(F)
    I1b = J ** (-2.0 / 3.0) * (F * F).sum(axis=(-2, -1))
    return 0.5 * mu * (I1b - 3.0) + 0.5 * kappa * (0.5 * J * J - 0.5 - onp.log(J))


def _selftest():
    st = Stencil()
    assert st.n == 811, st.n   # 973 stencil points, 811 distinct (h/2 and h stencils share points)
    rng = onp.random.default_rng(0)
    H = 0.1 * rng.normal(size=(3, 3))
    h = 1e-3
    d = st.derivatives(neohookean_adagio(st.points(H, h), 2.0, 0.3), h)
    # analytic gradient by complex step is overkill; compare Richardson vs plain and symmetry of a polynomial
    assert onp.abs(d["grad"] - d["grad_plain"]).max() < 1e-9
    assert onp.abs(d["hess"] - d["hess_plain"]).max() < 1e-6
    A = rng.normal(size=(9, 9)); A = A + A.T
    b = rng.normal(size=9)
    q = lambda X: 0.5 * onp.einsum("ni,ij,nj->n", X.reshape(-1, 9), A, X.reshape(-1, 9)) + X.reshape(-1, 9) @ b  # noqa
    d = st.derivatives(q(st.points(H, h)), h)
    assert onp.abs(d["hess"] - A).max() < 1e-6, onp.abs(d["hess"] - A).max()
    assert onp.abs(d["grad"].ravel() - (A @ H.ravel() + b)).max() < 1e-9
    return True


if __name__ == "__main__":
    print(_selftest())


# ---------------------------------------------------------------------------------------------------
# float64 replica of the data-dependent decisions of the closed-form 3x3 eigen-solver (classification only)
# ---------------------------------------------------------------------------------------------------

def eigen_decision_margins(A):
    """Relative margins of the exact floating-point comparisons that TensorMath.eigen_sym33_unit takes on the
    symmetric matrix A (replica of the arithmetic read off the source, numpy float64): which row has the largest norm
    (column pivot), which deflated row is larger, the sign of the Wilkinson shift, and which 2x2 eigenvector formula is
    used.  A margin of 0 is an exact tie (decided by rounding).  Used ONLY to classify batched-mode failures; never a
    verdict.  Returns {} for a (numerically) spherical tensor."""
    A = onp.asarray(A, dtype=float)
    with onp.errstate(all="ignore"):
        cmax = onp.abs(A).sum(axis=1).max()
        if not onp.isfinite(cmax) or cmax == 0.0:
            return {}
        T = A / cmax
        cxx, cyy, czz = T[0, 0], T[1, 1], T[2, 2]
        cxy, cyz, czx = 0.5 * (T[0, 1] + T[1, 0]), 0.5 * (T[1, 2] + T[2, 1]), 0.5 * (T[2, 0] + T[0, 2])
        c1 = (cxx + cyy + czz) / 3.0
        cxx, cyy, czz = cxx - c1, cyy - c1, czz - c1
        c2 = cxx * cyy + cyy * czz + czz * cxx - cxy * cxy - cyz * cyz - czx * czx
        if not (c2 < (c1 * c1) * (-1.0e-30)):
            return {}
        a3 = -3.0 / c2
        sq = onp.sqrt(a3)
        c3 = cxx * cyz * cyz + cyy * czx * czx - 2.0 * cxy * cyz * czx + czz * (cxy * cxy - cxx * cyy)
        rr = -0.5 * c3 * a3 * sq
        ev2 = 2.0 * onp.cos(onp.arccos(min(abs(rr), 1.0)) / 3.0) * (-1.0 if rr < 0 else 1.0) / sq
        C = onp.array([[cxx - ev2, cxy, czx], [cxy, cyy - ev2, cyz], [czx, cyz, czz - ev2]])
        k = (C * C).sum(axis=1)
        if k[1] <= k[0] and k[2] <= k[0]:
            p = 0
        elif k[2] <= k[1] and not (k[1] <= k[0]):
            p = 1
        else:
            p = 2
        others = [k[j] for j in range(3) if j != p]
        m = {"pivot-row": float((k[p] - max(others)) / k[p]) if k[p] > 0 else 0.0,
             "largest-root-sign": float(abs(rr))}
        r1 = C[p]
        r2 = C[1] if p == 0 else C[0]
        r3 = C[1] if p == 2 else C[2]
        r2 = r2 - (r1 @ r2) / k[p] * r1
        r3 = r3 - (r1 @ r3) / k[p] * r1
        a0, a1 = r2 @ r2, r3 @ r3
        amax = max(a0, a1)
        m["second-row"] = float(abs(a0 - a1) / amax) if amax > 0 else 0.0
        ar = r3 if a0 <= a1 else r2
        S = onp.array([[cxx, cxy, czx], [cxy, cyy, cyz], [czx, cyz, czz]])
        xx = (r1 @ S @ r1) / k[p]
        yy = (ar @ S @ ar) / amax if amax > 0 else 0.0
        xy2 = (r1 @ S @ ar) ** 2 / (k[p] * amax) if amax > 0 else 0.0
        b = 0.5 * (xx - yy)
        scale = abs(xx) + abs(yy) + onp.sqrt(xy2)
        m["wilkinson-shift-sign"] = float(abs(b) / scale) if scale > 0 else 0.0
        ev0 = yy + b - onp.sqrt(b * b + xy2) * onp.sign(b)
        x2, y2 = (xx - ev0) ** 2, (yy - ev0) ** 2
        m["2x2-eigenvector-formula"] = float(abs(x2 - y2) / max(x2, y2)) if max(x2, y2) > 0 else 0.0
    return m


def eigen_decision_tie(A, thr=1e-6):
    """(is_tie, name of the closest decision, its margin)."""
    m = eigen_decision_margins(A)
    if not m:
        return True, "spherical", 0.0
    name = min(m, key=lambda q: m[q])
    return bool(m[name] <= thr), name, m[name]


# ---------------------------------------------------------------------------------------------------
# evolved internal states (C08): pre-load alphabet of the E-BFS, probing deformations, measured classes
# ---------------------------------------------------------------------------------------------------

CANON_STATE = 1e-10                                     # rounding of the internal state for de-duplication (as C09-C11)
PRELOAD_DT_RATIOS = [("0.1", 0.1), ("10", 10.0)]        # viscous models: pre-load step dt / relaxation time
PRELOAD_J2_AMPLITUDES = [("2.5ey", 2.5), ("8ey", 8.0)]  # J2: multiples of the uniaxial-strain yield strain Y0/(2 mu)
PRELOAD_VISCO_AMPLITUDES = {"uniax-x": 0.4, "shear-xy": 0.4, "uniax-30deg": 0.3}
PROBE_STRETCHES = ["1-0.3", "1+1e-4", "1+1e-2", "1+0.3", "2"]


def preload_patterns():
    """(label, D) with the pre-load target H = a D: uniaxial stretch along x, simple shear, stretch along an in-plane axis at
    30 degrees.  None of them is coaxial with the whole probing alphabet (measured per case by `noncoaxiality`)."""
    e1, e2 = onp.array([1.0, 0.0, 0.0]), onp.array([0.0, 1.0, 0.0])
    n = onp.array([onp.cos(onp.pi / 6), onp.sin(onp.pi / 6), 0.0])
    return [("uniax-x", onp.outer(e1, e1)), ("shear-xy", onp.outer(e1, e2)), ("uniax-30deg", onp.outer(n, n))]


def preload_targets_visco():
    return [("%s:%g" % (l, PRELOAD_VISCO_AMPLITUDES[l]), PRELOAD_VISCO_AMPLITUDES[l] * D) for l, D in preload_patterns()]


def preload_targets_j2(ey):
    return [("%s:%s" % (l, al), a * ey * D) for al, a in PRELOAD_J2_AMPLITUDES for l, D in preload_patterns()]


def probe_deformations(tier, seed):
    """Probing deformation gradients at the evolved internal states: a labelled subset of deformations('quick', seed)
    (uniaxial strain along all 6 in-plane axes x 5 stretches, 2 equibiaxial, 1 dilation, the 9 quick 3-D triples with the
    fixed Euler pair; thorough: also with the generic pair) plus two simple shears."""
    pairs = ("euler|euler2", "generic|z0.3") if tier == "thorough" else ("euler|euler2",)
    out = []
    for l, kind, F in deformations("quick", seed):
        head, _, rest = l.partition(":")
        if kind == "uniaxial":
            keep = rest.split("@")[0] in PROBE_STRETCHES
        elif kind == "equibiaxial":
            keep = rest in ("1-0.3", "2")
        elif kind == "dilation":
            keep = rest == "1+0.3"
        else:
            keep = rest.split("|", 1)[1] in pairs
        if keep:
            out.append((l, kind, F))
    for l, i, j, g in (("shear-xy:0.5", 0, 1, 0.5), ("shear-yx:1e-2", 1, 0, 1e-2)):
        F = I3.copy()
        F[i, j] = g
        out.append((l, "shear", F))
    return out


def state_parts(model, opt, S):
    """Reference-side view of internal-state rows S (..., nstate): ('multiplicative', Fin (..., nb, 3, 3)) for the viscous
    distortions / the plastic distortion, ('additive', Ep (..., 1, 3, 3)) for the Seth-Hill plastic strain."""
    S = onp.asarray(S, dtype=float)
    lead = S.shape[:-1]
    if model == "J2Plastic":
        X = S[..., 1:10].reshape(lead + (1, 3, 3))
        return ("additive" if opt == "kinematics=seth hill" else "multiplicative"), X
    nb = S.shape[-1] // 9
    return "multiplicative", S.reshape(lead + (nb, 3, 3))


def elastic_info(F, how, X):
    """Measured classes of the symmetric tensor the model decomposes for (F, internal state): C_e = Fe^T Fe with Fe = F Fin^-1
    per branch (multiplicative), C = F^T F (additive).  F (..., 3, 3), X (..., nb, 3, 3).  Returns the worst over the
    branches: relative gap (and the larger gap of that branch), largest |log elastic stretch|, largest stretch ratio."""
    F = onp.asarray(F, dtype=float)
    if how == "multiplicative":
        Fe = F[..., None, :, :] @ onp.linalg.inv(X)
    else:
        Fe = onp.broadcast_to(F[..., None, :, :], onp.broadcast_shapes(F[..., None, :, :].shape, X.shape))
    inf = stretch_info(Fe)
    k = onp.argmin(inf["gap"], axis=-1)[..., None]
    return {"gap": onp.take_along_axis(inf["gap"], k, -1)[..., 0], "gap2": onp.take_along_axis(inf["gap2"], k, -1)[..., 0],
            "logmax": inf["logmax"].max(axis=-1), "ratio": (inf["lam_max"] / inf["lam"][..., 0]).max(axis=-1),
            "Ce": onp.swapaxes(Fe, -1, -2) @ Fe}


def noncoaxiality(F, how, X):
    """max over branches of |C B - B C|_F / (|C|_F |B|_F), C = F^T F, B = (Fin^T Fin)^-1 (multiplicative) or Ep (additive):
    0 when the probing deformation and the internal state share principal axes (then F Fin^-1 and Fin^-1 F have the same
    invariants for symmetric F, Fin) and for the virgin state."""
    F = onp.asarray(F, dtype=float)
    C = (onp.swapaxes(F, -1, -2) @ F)[..., None, :, :]
    if how == "multiplicative":
        Xi = onp.linalg.inv(X)
        B = Xi @ onp.swapaxes(Xi, -1, -2)
    else:
        B = 0.5 * (X + onp.swapaxes(X, -1, -2))
    nb = fro(B)
    with onp.errstate(all="ignore"):
        r = fro(C @ B - B @ C) / (fro(C) * onp.where(nb > 0, nb, 1.0))
    return r.max(axis=-1)


# ---------------------------------------------------------------------------------------------------
# nearly (not exactly) repeated principal stretches (C10): probing deformations with a prescribed small relative gap
# ---------------------------------------------------------------------------------------------------

NEAR_GAPS = [("1e-5", 1e-5), ("1e-6", 1e-6), ("1e-7", 1e-7)]      # relative gap (c1 - c0) / max(c) of the decomposed tensor
NEAR_ORIENTATIONS = [("coax", 0.0), ("rot0.5", 0.5)]              # turn of the probe's principal frame about the odd axis
SETH_HILL_M = 0.25                                                # exponent of J2 'seth hill': E = (C^m - I) / (2 m)


def pair_frame(B, angle=0.0):
    """Principal frame of the symmetric tensor B, ordered (pair, pair, odd) with 'pair' the two closest eigenvalues, as a
    proper rotation, turned by `angle` about the odd axis.  Returns (eigenvalues in that order, Q).  For a spherical B this
    is the identity frame turned about z."""
    B = onp.asarray(B, dtype=float)
    w, V = onp.linalg.eigh(0.5 * (B + B.T))
    order = [0, 1, 2] if (w[1] - w[0]) <= (w[2] - w[1]) else [1, 2, 0]
    w, V = w[order], V[:, order].copy()
    if onp.linalg.det(V) < 0.0:
        V[:, 2] = -V[:, 2]
    return w, V @ rot_z(angle)


def near_repeated_stretch(Q, c0, c2, gap):
    """Symmetric stretch U = Q diag(sqrt(c0), sqrt(c1), sqrt(c2)) Q^T whose square has the eigenvalues (c0, c1, c2) with
    c1 = c0 + gap * max(c): relative gap `gap` (neighbouring gap / largest eigenvalue, the measure of rel_gap_sym and
    stretch_info) between the pair (c0, c1); c2 must stay away from the pair by more than 2 gaps (asserted), so that the pair
    is the closest pair and `gap` is the measured relative gap."""
    c0, c2, gap = float(c0), float(c2), float(gap)
    c1 = c0 + gap * c2 if c2 >= c0 / (1.0 - gap) else c0 / (1.0 - gap)
    assert c0 > 0.0 and c2 > 0.0 and min(abs(c2 - c0), abs(c2 - c1)) > 2.0 * gap * max(c1, c2), (c0, c1, c2, gap)
    lam = onp.sqrt(onp.array([c0, c1, c2]))
    Q = onp.asarray(Q, dtype=float)
    return (Q * lam[None, :]) @ Q.T


def seth_hill_c(e, m=SETH_HILL_M):
    """Eigenvalue of C = F^T F that has the Seth-Hill strain e = (c^m - 1) / (2 m)."""
    return (1.0 + 2.0 * m * onp.asarray(e, dtype=float)) ** (1.0 / m)


def pair_plane_offdiagonal(T, B):
    """|v_i . B v_j| / |B|_F for the eigenvectors v_i, v_j of the two closest eigenvalues of the symmetric tensor T: measures
    whether B (the internal state seen by the model) is turned against T's principal axes INSIDE the plane of the nearly
    repeated pair (the commutator |TB - BT| vanishes with the gap there and cannot show it).  0 for B = 0."""
    T = onp.asarray(T, dtype=float)
    B = onp.asarray(B, dtype=float)
    w, V = onp.linalg.eigh(0.5 * (T + T.T))
    i, j = (0, 1) if (w[1] - w[0]) <= (w[2] - w[1]) else (1, 2)
    nb = fro(B)
    return float(abs(V[:, i] @ (0.5 * (B + B.T)) @ V[:, j]) / nb) if nb > 0 else 0.0
