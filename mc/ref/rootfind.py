"""Reference model for C17 (safeguarded scalar root finder).  numpy only, never imports optimism.

Contains
  * the function families in closed form: value, d/dx, d/dtheta, magnitude of the terms (for the
    evaluation-noise bound), real roots;
  * builders for brackets and initial guesses from discrete labels;
  * the admissibility rule for "must have converged" (iteration budget / attainable tolerance);
  * the tolerance predicate of the property ("meets the requested tolerance");
  * a plain port of the Numerical-Recipes rtsafe control skeleton that is used ONLY to label which
    branches an execution went through (coverage accounting and finding-key labels, never a verdict).
"""
import math

import numpy as np

EPS = 2.0 ** -52


def ulp(x):
    x = abs(float(x))
    if not np.isfinite(x):
        return float("inf")
    return float(np.spacing(x))


# ------------------------------------------------------------------------------------------------
# families: f(x, th), fx, fth (array), fmag (sum of |terms| + |fx||x|), roots(th)
# ------------------------------------------------------------------------------------------------

def _lin_f(x, th): return th[0] * x - th[1]
def _lin_fx(x, th): return th[0] + 0.0 * x
def _lin_fth(x, th): return np.array([x, -1.0])
def _lin_mag(x, th): return abs(th[0] * x) + abs(th[1])
def _lin_roots(th): return [th[1] / th[0]]


def _cm_f(x, th): return x ** 3 + th[0] * x - th[1]
def _cm_fx(x, th): return 3.0 * x ** 2 + th[0]
def _cm_fth(x, th): return np.array([x, -1.0])
def _cm_mag(x, th): return abs(x) ** 3 + abs(th[0] * x) + abs(th[1])


def _poly_real_roots(coeffs, f, fx):
    out = []
    for r in np.roots(coeffs):
        if abs(r.imag) <= 1e-9 * max(1.0, abs(r.real)):
            x = float(r.real)
            for _ in range(4):      # polish (simple roots only)
                d = fx(x)
                if d != 0.0:
                    x = x - f(x) / d
            out.append(x)
    return sorted(out)


def _cm_roots(th):
    return _poly_real_roots([1.0, 0.0, th[0], -th[1]], lambda x: _cm_f(x, th), lambda x: _cm_fx(x, th))


def _c3_f(x, th): return x ** 3 - x - th[0]
def _c3_fx(x, th): return 3.0 * x ** 2 - 1.0
def _c3_fth(x, th): return np.array([-1.0])
def _c3_mag(x, th): return abs(x) ** 3 + abs(x) + abs(th[0]) + abs(x) * (3.0 * x ** 2 + 1.0)


def _c3_roots(th):
    if th[0] == 0.0:
        return [-1.0, 0.0, 1.0]
    return _poly_real_roots([1.0, 0.0, -1.0, -th[0]], lambda x: _c3_f(x, th), lambda x: _c3_fx(x, th))


def _tr_f(x, th): return (x - th[0]) ** 3
def _tr_fx(x, th): return 3.0 * (x - th[0]) ** 2
def _tr_fth(x, th): return np.array([-3.0 * (x - th[0]) ** 2])
def _tr_mag(x, th): return abs(x - th[0]) ** 3 + 3.0 * (x - th[0]) ** 2 * (abs(x) + abs(th[0]))
def _tr_roots(th): return [th[0]]


def _th_f(x, th): return np.tanh(th[0] * (x - th[1]))


def _sech2(z):
    with np.errstate(over="ignore"):
        c = np.cosh(z)
        c2 = c * c
    return 0.0 if not np.isfinite(c2) else float(1.0 / c2)


def _th_fx(x, th): return th[0] * _sech2(th[0] * (x - th[1]))
def _th_fth(x, th):
    s = _sech2(th[0] * (x - th[1]))
    return np.array([s * (x - th[1]), -th[0] * s])
def _th_mag(x, th): return abs(_th_f(x, th)) + abs(_th_fx(x, th)) * (abs(x) + abs(th[1]))
def _th_roots(th): return [th[1]]


def _st_f(x, th): return np.sign(x) * abs(x) ** th[1] - th[0]
def _st_fx(x, th): return th[1] * abs(x) ** (th[1] - 1.0)
def _st_fth(x, th):
    a = abs(x)
    dlog = 0.0 if a == 0.0 else np.sign(x) * a ** th[1] * math.log(a)
    return np.array([-1.0, dlog])
def _st_mag(x, th): return abs(x) ** th[1] * (1.0 + th[1]) + abs(th[0])
def _st_roots(th): return [float(np.sign(th[0]) * abs(th[0]) ** (1.0 / th[1]))]


def _ex_f(x, th):
    with np.errstate(over="ignore", under="ignore"):
        return np.exp(x) - th[0]
def _ex_fx(x, th):
    with np.errstate(over="ignore", under="ignore"):
        return np.exp(x) + 0.0
def _ex_fth(x, th): return np.array([-1.0])
def _ex_mag(x, th): return float(_ex_fx(x, th)) * (1.0 + abs(x)) + abs(th[0])
def _ex_roots(th): return [math.log(th[0])]


# quintic, flat at theta0, offset by a tiny theta1: the stationary point theta0 has |f| = |theta1| below a residual
# tolerance of 1e-8 while the root theta0 + theta1**(1/5) is far away (added after a seeded change that tested
# convergence with a stale residual went undetected)
def _fo_f(x, th): return (x - th[0]) ** 5 - th[1]
def _fo_fx(x, th): return 5.0 * (x - th[0]) ** 4
def _fo_fth(x, th): return np.array([-5.0 * (x - th[0]) ** 4, -1.0])
def _fo_mag(x, th): return abs(x - th[0]) ** 5 + abs(th[1]) + 5.0 * (x - th[0]) ** 4 * (abs(x) + abs(th[0]))
def _fo_roots(th): return [float(th[0] + np.sign(th[1]) * abs(th[1]) ** 0.2)]


# steep exponential exp(k x) - c: far up the steep side plain Newton creeps by 1/k per iteration, so only the
# 'Newton is not decreasing fast enough -> bisect' safeguard converges within the budget (added after a seeded change
# that froze the safeguard's reference step went undetected)
def _xk_f(x, th):
    with np.errstate(over="ignore", under="ignore"):
        return np.exp(th[0] * x) - th[1]
def _xk_fx(x, th):
    with np.errstate(over="ignore", under="ignore"):
        return th[0] * np.exp(th[0] * x)
def _xk_fth(x, th):
    with np.errstate(over="ignore", under="ignore"):
        return np.array([x * np.exp(th[0] * x), -1.0])
def _xk_mag(x, th):
    with np.errstate(over="ignore", under="ignore"):
        return float(np.exp(th[0] * x)) * (1.0 + abs(th[0] * x)) + abs(th[1])
def _xk_roots(th): return [math.log(th[1]) / th[0]]


# u / sqrt(1 + u^2), u = x - c: the Newton map is u -> -u^3, an exact 2-cycle at |u| = 1 (same seeded change)
def _rs_f(x, th):
    u = x - th[0]
    return u / np.sqrt(1.0 + u * u)
def _rs_fx(x, th):
    u = x - th[0]
    return (1.0 + u * u) ** -1.5
def _rs_fth(x, th): return np.array([-_rs_fx(x, th)])
def _rs_mag(x, th): return abs(_rs_f(x, th)) + _rs_fx(x, th) * (abs(x) + abs(th[0]))
def _rs_roots(th): return [th[0]]


def stationary(fam, th):
    """a point with f' = 0 that is not a root, or None"""
    return float(th[0]) if fam == "flatoff" else None


FAMILIES = {
    "flatoff": dict(f=_fo_f, fx=_fo_fx, fth=_fo_fth, mag=_fo_mag, roots=_fo_roots, ntheta=2),
    "linear":  dict(f=_lin_f, fx=_lin_fx, fth=_lin_fth, mag=_lin_mag, roots=_lin_roots, ntheta=2),
    "cubmono": dict(f=_cm_f, fx=_cm_fx, fth=_cm_fth, mag=_cm_mag, roots=_cm_roots, ntheta=2),
    "cub3":    dict(f=_c3_f, fx=_c3_fx, fth=_c3_fth, mag=_c3_mag, roots=_c3_roots, ntheta=1),
    "triple":  dict(f=_tr_f, fx=_tr_fx, fth=_tr_fth, mag=_tr_mag, roots=_tr_roots, ntheta=1),
    "tanh":    dict(f=_th_f, fx=_th_fx, fth=_th_fth, mag=_th_mag, roots=_th_roots, ntheta=2),
    "steep":   dict(f=_st_f, fx=_st_fx, fth=_st_fth, mag=_st_mag, roots=_st_roots, ntheta=2),
    "exp":     dict(f=_ex_f, fx=_ex_fx, fth=_ex_fth, mag=_ex_mag, roots=_ex_roots, ntheta=1),
    "expk":    dict(f=_xk_f, fx=_xk_fx, fth=_xk_fth, mag=_xk_mag, roots=_xk_roots, ntheta=2),
    "rsig":    dict(f=_rs_f, fx=_rs_fx, fth=_rs_fth, mag=_rs_mag, roots=_rs_roots, ntheta=1),
}
FAMILY_ORDER = ["flatoff", "triple", "tanh", "steep", "cub3", "cubmono", "exp", "linear", "expk", "rsig"]


def instances(fam, tier, seed):
    """[(label, theta list)].  'e*' instances have a root that is an exactly representable zero of f;
    'g*' are generic hand-picked; 'gs' is the seed-dependent generic representative."""
    rng = np.random.default_rng(1000 + seed)

    def u(a, b):
        return float(rng.uniform(a, b))

    def sgn():
        return 1.0 if rng.uniform() < 0.5 else -1.0

    # draw in a fixed order so every family sees its own stream position independent of the others
    draws = {
        "linear": [sgn() * u(0.2, 5.0), u(-3.0, 3.0)],
        "cubmono": [u(0.05, 4.0), u(-6.0, 6.0)],
        "cub3": [u(-0.33, 0.33)],
        "triple": [u(-3.0, 3.0)],
        "tanh": [u(0.1, 30.0), u(-3.0, 3.0)],
        "steep": [sgn() * u(0.1, 3.0), u(1.05, 6.0)],
        "exp": [math.exp(u(-4.0, 4.0))],
        "flatoff": [u(-1.0, 1.0), sgn() * 1.0e-10],
        "expk": [sgn() * u(110.0, 250.0), math.exp(u(-2.0, 2.0))],
        "rsig": [u(-3.0, 3.0)],
    }
    base = {
        "linear": [("e1", [2.0, 3.0]), ("g1", [0.37, -1.1]), ("gs", draws["linear"])],
        "cubmono": [("e1", [1.0, 2.0]), ("g1", [0.1, 5.0]), ("gs", draws["cubmono"])],
        "cub3": [("e1", [0.0]), ("g1", [0.1]), ("gs", draws["cub3"])],
        "triple": [("e1", [1.7]), ("e2", [0.0]), ("gs", draws["triple"])],
        "tanh": [("e1", [1.0, 0.5]), ("e2", [20.0, -1.25]), ("gs", draws["tanh"])],
        "steep": [("e1", [1.0, 5.0]), ("g1", [0.3, 1.1]), ("gs", draws["steep"])],
        "exp": [("e1", [1.0]), ("g1", [50.0]), ("gs", draws["exp"])],
        "flatoff": [("g1", [0.0, 1.0e-10]), ("g2", [0.5, -1.0e-12]), ("gs", draws["flatoff"])],
        "expk": [("g1", [150.0, 3.0]), ("g2", [-120.0, 0.5]), ("gs", draws["expk"])],
        "rsig": [("e1", [0.0]), ("g1", [0.7]), ("gs", draws["rsig"])],
    }
    extra = {
        "linear": [("g2", [-5.0, 0.013]), ("e2", [-0.5, 0.25])],
        "cubmono": [("g2", [3.0, -0.7]), ("e2", [0.25, 0.25])],     # root 0.5: .125+.125-.25
        "cub3": [("g2", [-0.2]), ("g3", [0.38])],
        "triple": [("e3", [-0.3]), ("e4", [1.0e3])],
        "tanh": [("e3", [0.05, 2.0]), ("e4", [300.0, 0.0])],
        "steep": [("e2", [1.0, 1.1]), ("g2", [-2.0, 3.0])],
        "exp": [("g2", [1.0e-3]), ("g3", [3.0e5])],
        "flatoff": [("g3", [-2.0, 1.0e-9]), ("g4", [1.0, 1.0e-15])],
        "expk": [("g3", [20.0, 3.0]), ("g4", [300.0, 1.0])],
        "rsig": [("e2", [-1.5]), ("g2", [1.0e3])],
    }
    out = list(base[fam])
    if tier == "thorough":
        out += extra[fam]
    return out


def roots_of(fam, th):
    return sorted(float(r) for r in FAMILIES[fam]["roots"](th))


def exact_roots(fam, th, label):
    """roots r (as floats) at which the closed form evaluates to exactly 0.0; only the designated 'e*'
    instances have such roots by construction (dyadic data), generic instances never claim one."""
    if not label.startswith("e"):
        return []
    F = FAMILIES[fam]
    return [r for r in roots_of(fam, th) if float(F["f"](r, th)) == 0.0]


BRACKET_KINDS = ["standard", "lo-root", "hi-root", "both-roots", "no-sign-change", "nosign-2roots", "wide", "narrow",
                 "wrong-slope-lo", "wrong-slope-hi", "cycle"]
BRACKET_KINDS_THOROUGH = BRACKET_KINDS + ["standard-b", "wide-b", "narrow-b"]
X0_KINDS = ["mid", "lo", "hi", "below", "above", "root", "stat"]
X0_KINDS_THOROUGH = X0_KINDS + ["q1", "q3", "far-above"]


def bracket(fam, th, kind, label="e"):
    """-> (lo, hi, r_focus) or None if that kind does not exist for this instance (inadmissible)."""
    rs = roots_of(fam, th)
    rmin, rmax = rs[0], rs[-1]
    ex = exact_roots(fam, th, label)
    rmid = rs[len(rs) // 2]
    if kind == "standard":
        return rmin - 1.3, rmax + 2.1, rmid
    if kind == "cycle":
        # mid point exactly one unit right of the root: for rsig the first bisection lands on the Newton 2-cycle
        return rmid - 3.0, rmid + 5.0, rmid
    if kind == "standard-b":
        return rmin - 4.75, rmax + 0.6, rmid
    if kind == "lo-root":
        if not ex:
            return None
        return ex[0], ex[0] + 2.1, ex[0]
    if kind == "hi-root":
        if not ex:
            return None
        return ex[-1] - 1.3, ex[-1], ex[-1]
    if kind == "both-roots":
        if not ex:
            return None
        return ex[0], ex[-1], ex[0]          # degenerate [r, r] when there is only one exact root
    if kind == "no-sign-change":
        return rmax + 0.4, rmax + 2.1, rmax
    if kind == "nosign-2roots":
        if len(rs) < 3:
            return None
        # from between the two lowest roots to beyond the highest: two roots inside, equal end signs
        return 0.5 * (rs[0] + rs[1]), rmax + 1.0, rs[1]
    if kind == "wrong-slope-lo":
        # lo just right of the middle root of a three-root function: f(lo) and f'(lo) have the same sign, so the
        # Newton step from lo points OUT of the bracket towards a root that is not inside it
        if len(rs) < 3:
            return None
        return rs[1] + 0.05, rs[2] + 1.4, rs[2]
    if kind == "wrong-slope-hi":
        if len(rs) < 3:
            return None
        return rs[0] - 1.4, rs[1] - 0.05, rs[0]
    if kind in ("wide", "wide-b"):
        a, b = (3.0e5, 7.0e5) if kind == "wide" else (9.0e5, 1.0e5)
        if fam == "exp":
            return rmid - 1.0e6, rmid + 5.0, rmid
        return rmin - a, rmax + b, rmid
    if kind in ("narrow", "narrow-b"):
        a, b = (3.0e-7, 7.0e-7) if kind == "narrow" else (9.5e-7, 0.5e-7)
        return rmid - a, rmid + b, rmid
    raise KeyError(kind)


def guess(kind, lo, hi, r):
    w = hi - lo
    return {
        "mid": 0.5 * (lo + hi), "lo": lo, "hi": hi,
        "below": lo - 0.7 * w - 1.0, "above": hi + 0.7 * w + 1.0, "root": r,
        "q1": lo + 0.25 * w, "q3": lo + 0.75 * w, "far-above": hi + 1.0e8,
    }[kind]


# ------------------------------------------------------------------------------------------------
# classification and admissibility
# ------------------------------------------------------------------------------------------------

def classify(fl, fh):
    """contract class of a bracket from the end-point values of the function"""
    if not (np.isfinite(fl) and np.isfinite(fh)):
        return "non-finite"
    if fl == 0.0 and fh == 0.0:
        return "both-roots"
    if fl == 0.0:
        return "lo-root"
    if fh == 0.0:
        return "hi-root"
    p = fl * fh
    if p == 0.0 or not np.isfinite(p):
        return "product-underflow-or-overflow"     # outside the alphabet (stated assumption)
    return "sign-change" if p < 0.0 else "no-sign-change"


def max_slope(fam, th, lo, hi):
    F = FAMILIES[fam]
    xs = np.concatenate([np.linspace(lo, hi, 2001), np.array(roots_of(fam, th))])
    xs = xs[(xs >= lo) & (xs <= hi)]
    return 1.5 * max(abs(float(F["fx"](float(x), th))) for x in xs)


def must_converge(fam, th, lo, hi, x_tol, r_tol, max_iters):
    """DESIGN C17 admissibility of the iteration budget, extended to x_tol = 0 through the slope:
    the effective resolution is x_eff = max(x_tol, r_tol / max|f'|); it must be attainable in floating
    point near the roots inside the bracket (>= 16 ulp) and the budget must be at least twice the pure
    bisection count plus ten.  -> (bool, reason)"""
    w = hi - lo
    if not (w > 0.0):
        return False, "degenerate-bracket"
    L = max_slope(fam, th, lo, hi)
    x_eff = max(x_tol, (r_tol / L) if L > 0.0 else 0.0)
    if x_eff <= 0.0:
        return False, "tolerance-unattainable"
    inside = [r for r in roots_of(fam, th) if lo <= r <= hi]
    rmag = max([abs(r) for r in inside] + [0.0])
    if x_eff < 16.0 * ulp(max(rmag, x_eff)):
        return False, "tolerance-unattainable"
    need = 2 * int(math.ceil(math.log2(max(w / x_eff, 1.0)))) + 10
    if max_iters < need:
        return False, "budget-below-2x-bisection"
    return True, "budget-ok"


def tolerance_met(fam, th, sig, x, x_tol, r_tol):
    """The property's 'meets the requested tolerance': |f(x)| < r_tol (up to evaluation noise), or f
    changes sign within [x - 4 x_tol - 2ulp, x + 4 x_tol + 2ulp].  -> (ok, how, numbers)"""
    F = FAMILIES[fam]
    fx_ = float(sig * F["f"](x, th))
    noise = 16.0 * EPS * float(F["mag"](x, th)) + 1e-9 * r_tol
    w = 4.0 * x_tol + 2.0 * ulp(x)
    fa = float(sig * F["f"](x - w, th))
    fb = float(sig * F["f"](x + w, th))
    nums = {"f(x)": fx_, "window": w, "f(x-w)": fa, "f(x+w)": fb, "noise": noise}
    if r_tol > 0.0 and abs(fx_) < r_tol + noise:
        return True, "r_tol", nums
    if fa * fb <= 0.0 or fa == 0.0 or fb == 0.0 or fx_ == 0.0:
        return True, "x_tol", nums
    return False, "none", nums


def ift(fam, th, x):
    """-(df/dtheta)/(df/dx) at x from the closed forms, or None if the implicit function theorem
    does not apply there (df/dx zero or not finite)."""
    F = FAMILIES[fam]
    d = float(F["fx"](x, th))
    if d == 0.0 or not np.isfinite(d):
        return None
    g = -np.asarray(F["fth"](x, th), dtype=float) / d
    if not np.all(np.isfinite(g)):
        return None
    return g


# ------------------------------------------------------------------------------------------------
# control-skeleton port (coverage labels only)
# ------------------------------------------------------------------------------------------------

def trace(fam, th, sig, x0, lo, hi, x_tol, r_tol, max_iters):
    """Plain-python walk through the rtsafe control skeleton with the closed-form f, f'.
    Returns dict(x, iters, converged, steps=[labels], stop=label, stationary_hit=bool, clipped=label)."""
    F = FAMILIES[fam]

    def f(x):
        return float(sig * F["f"](x, th))

    def df(x):
        return float(sig * F["fx"](x, th))

    with np.errstate(all="ignore"):
        fl, fh = f(lo), f(hi)
        clipped = "x0-clipped-low" if x0 < lo else ("x0-clipped-high" if x0 > hi else "x0-inside")
        x = min(max(x0, lo), hi)
        conv = False
        if not (fl * fh < 0.0):
            x = float("nan")
        if fl == 0.0:
            x, conv = lo, True
        if fh == 0.0:
            x, conv = hi, True
        xl, xh = (lo, hi) if fl < 0 else (hi, lo)
        dxo = abs(hi - lo)
        dx = dxo
        Fv, D = (f(x), df(x)) if x == x else (float("nan"), float("nan"))
        steps, stop, stationary = [], ("stop:endpoint-root" if conv else "none"), False
        i = 0
        while (not conv) and i < max_iters:
            if Fv == 0.0 and D == 0.0:
                stationary = True
            oor = ((x - xh) * D - Fv) * ((x - xl) * D - Fv) > 0
            slow = abs(2.0 * Fv) > abs(dxo * D)
            dxo = dx
            if oor or slow:
                dx = 0.5 * (xh - xl)
                x = xl + dx
                c = (x == xl)
                steps.append("step:bisect-out-of-range" if oor else "step:bisect-slow")
                if c:
                    stop = "stop:stagnation-bisect"
            else:
                dx = float(-np.float64(Fv) / np.float64(D))      # IEEE semantics: 0/0 -> nan
                t = x
                x = x + dx
                c = (x == t)
                steps.append("step:newton" if x == x else "step:nan")
                if c:
                    stop = "stop:stagnation-newton"
            Fv, D = (f(x), df(x)) if x == x else (float("nan"), float("nan"))
            if Fv < 0:
                xl = x
            else:
                xh = x
            i += 1
            if not c:
                if abs(dx) < x_tol:
                    c, stop = True, "stop:x_tol"
                elif abs(Fv) < r_tol:
                    c, stop = True, "stop:r_tol"
            conv = c
        return {"x": x if conv else float("nan"), "iters": i, "converged": conv, "steps": steps, "stop": stop,
                "stationary_hit": stationary, "clipped": clipped, "orient": "orient:f(lo)<0" if fl < 0 else "orient:f(lo)>=0"}
