"""Reference model for C16 (contact geometry).  numpy only, never imports optimism.

Plane geometry of straight segments written the boring way:

* closest point of a segment / signed distance  (closed form in extended precision + brute force)
* projection overlap of two segments along a common normal (interval intersection)
* Gauss points on [0,1], deformed sample points of mesh edges, the three obstacle functions

Conventions taken from the library's *documentation / data layout*, not from its algorithms:
  - the normal of a directed segment a->b is the right-hand normal (t_y, -t_x)/|t|
    (optimism.Surface.compute_normal); positive signed distance = on that side
  - a mesh side is (element, local side s); its nodes are conns[element][[s, (s+1)%3]]
  - the mortar gap g of a point xa of the first segment is defined by xb = xa + g*n
"""
import numpy as np

LD = np.longdouble


# ----------------------------------------------------------------------------- segments
def right_normal(a, b):
    a = np.asarray(a, dtype=LD)
    b = np.asarray(b, dtype=LD)
    t = b - a
    L = np.sqrt(t[0] * t[0] + t[1] * t[1])
    return np.array([t[1] / L, -t[0] / L], dtype=LD)


def closest_point_segment(a, b, p):
    """-> (closest point, clamped parameter, line parameter), extended precision."""
    a = np.asarray(a, dtype=LD)
    b = np.asarray(b, dtype=LD)
    p = np.asarray(p, dtype=LD)
    v = b - a
    w = p - a
    s = (w[0] * v[0] + w[1] * v[1]) / (v[0] * v[0] + v[1] * v[1])
    sc = min(max(s, LD(0)), LD(1))
    return a + sc * v, sc, s


def distance_to_segment(a, b, p):
    c, _, _ = closest_point_segment(a, b, p)
    p = np.asarray(p, dtype=LD)
    return np.sqrt((p[0] - c[0]) ** 2 + (p[1] - c[1]) ** 2)


def side_of_line(a, b, p):
    """n . (p - a): > 0 on the side of the right-hand normal of a->b."""
    n = right_normal(a, b)
    a = np.asarray(a, dtype=LD)
    p = np.asarray(p, dtype=LD)
    return n[0] * (p[0] - a[0]) + n[1] * (p[1] - a[1])


def brute_force_min_distance(a, b, p, n=513):
    """min over n equally spaced points of the segment (upper bound of the true distance)."""
    a = np.asarray(a, dtype=float)
    b = np.asarray(b, dtype=float)
    p = np.asarray(p, dtype=float)
    s = np.linspace(0.0, 1.0, n)[:, None]
    pts = a[None, :] * (1.0 - s) + b[None, :] * s
    return float(np.min(np.hypot(pts[:, 0] - p[0], pts[:, 1] - p[1])))


def rot(theta):
    c, s = np.cos(theta), np.sin(theta)
    return np.array([[c, -s], [s, c]])


def move(x, theta, shift):
    """common rigid motion x -> R x + c of an (..., 2) array (double precision on purpose:
    the moved coordinates are the *input* handed to the library)."""
    return np.asarray(x, dtype=float) @ rot(theta).T + np.asarray(shift, dtype=float)


# ----------------------------------------------------------------------------- mortar pairs
def common_normal(edgeA, edgeB, kind):
    nA = right_normal(edgeA[0], edgeA[1])
    if kind == "fromA":
        return nA
    nB = right_normal(edgeB[0], edgeB[1])
    n = nA - nB
    return n / np.sqrt(n[0] * n[0] + n[1] * n[1])


def projection_overlap(edgeA, edgeB, n):
    """Project both segments along n onto the axis tau perpendicular to n.
    -> (overlap length on the tau axis (negative = separation), interval A, interval B)"""
    tau = np.array([-n[1], n[0]], dtype=LD)
    A = np.asarray(edgeA, dtype=LD)
    B = np.asarray(edgeB, dtype=LD)
    sa = sorted([A[0] @ tau, A[1] @ tau])
    sb = sorted([B[0] @ tau, B[1] @ tau])
    ov = min(sa[1], sb[1]) - max(sa[0], sb[0])
    return ov, sa, sb


def parallel_gap(edgeA, edgeB, n):
    """gap of parallel segments: xb = xa + g n  =>  g = n.(xb - xa)"""
    A = np.asarray(edgeA, dtype=LD)
    B = np.asarray(edgeB, dtype=LD)
    return n @ (B[0] - A[0])


def seg_length(e):
    e = np.asarray(e, dtype=LD)
    return np.sqrt((e[1][0] - e[0][0]) ** 2 + (e[1][1] - e[0][1]) ** 2)


def n_coincident_ends(edgeA, edgeB, n, tol):
    """how many projected end points of one segment fall within tol of an end of the other"""
    _, sa, sb = projection_overlap(edgeA, edgeB, n)
    return sum(1 for x in sa for y in sb if abs(x - y) <= tol)


def chain_overlap(chainA, chainB, n):
    """total overlap of the projections of two polylines of collinear segments (lists of (2,2))."""
    tot = LD(0)
    for eb in chainB:
        for ea in chainA:
            ov, _, _ = projection_overlap(eb, ea, n)
            if ov > 0:
                tot += ov
    return tot


# ----------------------------------------------------------------------------- quadrature / mesh edges
def gauss01(npts):
    x, w = np.polynomial.legendre.leggauss(npts)
    return 0.5 * (x + 1.0), 0.5 * w


def npts_for_degree(degree):
    return int(np.ceil((degree + 1) / 2))


def edge_nodes(conns, edges):
    conns = np.asarray(conns)
    out = []
    for e, s in np.asarray(edges):
        out.append([conns[e][s], conns[e][(s + 1) % 3]])
    return np.array(out, dtype=int)


def sample_points(coords, disp, conns, edges, xi):
    """deformed sample points, shape (nEdges, nq, 2)"""
    x = np.asarray(coords, dtype=float) + np.asarray(disp, dtype=float)
    en = edge_nodes(conns, edges)
    xi = np.asarray(xi, dtype=float)
    x0 = x[en[:, 0]][:, None, :]
    x1 = x[en[:, 1]][:, None, :]
    return x0 * (1.0 - xi)[None, :, None] + x1 * xi[None, :, None]


def deformed_segments(coords, disp, conns, edges):
    x = np.asarray(coords, dtype=float) + np.asarray(disp, dtype=float)
    en = edge_nodes(conns, edges)
    return np.stack([x[en[:, 0]], x[en[:, 1]]], axis=1)


# ----------------------------------------------------------------------------- obstacles
def plane(x, yLoc):
    return yLoc - x[..., 1]


def corner(x, xLoc, yLoc):
    return np.minimum(x[..., 0] - xLoc, x[..., 1] - yLoc)


def circle(x, xLoc, yLoc, R):
    return np.hypot(x[..., 0] - xLoc, x[..., 1] - yLoc) - R
