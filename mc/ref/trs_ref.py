"""Reference models for the trust-region subproblem  min_z  g.z + 1/2 z.H.z   s.t.  ||z||_N <= Delta.

numpy only; never imports optimism or jax.  Deliberately boring:

* more_sorensen(A, b, Delta)   -- global minimiser over the Euclidean ball: numpy eigh, bisection on the
                                  secular equation in the shifted variable mu = lam - max(0, -sig_min)
                                  (so that roots a few ulps above the pole are resolved), analytic hard case
                                  when the gradient has *exactly* no component in the lowest eigenspace.
* certificate(...)             -- the More-Sorensen optimality conditions of a reference solution
                                  (used by the harness to refuse a wrong reference, never for verdicts on the
                                  library).
* cauchy_point(H, g, P, N, Delta) -- minimiser of the model along -P g inside the N-ball.
* dogleg_path_distance(x, cp, newtonP) -- distance of x from the polyline 0 -> cp -> newtonP.
* subspace_minimum(K, b, vectors, Delta) -- global minimum of the model over span(vectors) within the ball.
"""
import numpy as np


def model(H, g, z):
    z = np.asarray(z, dtype=float)
    return float(g @ z + 0.5 * (z @ (H @ z)))


def nnorm_sq(z, N=None):
    z = np.asarray(z, dtype=float)
    return float(z @ z) if N is None else float(z @ (N @ z))


def cg_tol_squared(g, cg_tol, inexact_ratio):
    """The stopping threshold the truncated-CG routines state for themselves."""
    return max(cg_tol ** 2, inexact_ratio * inexact_ratio * float(g @ g))


def more_sorensen(A, b, Delta, max_bisect=1200):
    """Global minimiser of b.s + 1/2 s.A.s over ||s||_2 <= Delta.

    Returns dict(s, value, lam, mu, kind, sig, V, c, pz_zero) with kind in
    {"interior", "boundary", "hard"}; "hard" is the analytic hard case (no gradient component, exactly,
    on the eigen-directions whose shifted eigenvalue is exactly zero, and the minimum-norm stationary
    point strictly inside the ball).
    """
    A = np.asarray(A, dtype=float)
    A = 0.5 * (A + A.T)
    b = np.asarray(b, dtype=float)
    sig, V = np.linalg.eigh(A)
    c = V.T @ b
    out = {"sig": sig, "V": V, "c": c, "pz_zero": False}

    def finish(y, lam, mu, kind):
        s = V @ y
        out.update(s=s, y=y, value=model(A, b, s), lam=float(lam), mu=float(mu), kind=kind)
        return out

    if sig[0] > 0.0:
        y = -c / sig
        if np.sqrt(y @ y) <= Delta:
            return finish(y, 0.0, 0.0, "interior")
        lam_lo = 0.0
        base = sig.copy()
    else:
        lam_lo = -sig[0]
        base = sig - sig[0]          # base[0] == 0 exactly
    zero = base == 0.0
    if zero.any() and not np.any(c[zero] != 0.0):
        # candidate hard case: minimum-norm solution of (A + lam_lo I) p = -b
        y = np.zeros_like(c)
        y[~zero] = -c[~zero] / base[~zero]
        yy = float(y @ y)
        if yy <= Delta * Delta:
            k = int(np.argmax(zero))            # lowest eigenvector
            out["pz_zero"] = bool(float((V @ y) @ V[:, k]) == 0.0)
            y = y.copy()
            y[k] = np.sqrt(max(Delta * Delta - yy, 0.0))
            return finish(y, lam_lo, 0.0, "hard")
    # boundary solution: unique mu > 0 with || c / (base + mu) || = Delta
    cn = float(np.sqrt(c @ c))

    def excess(mu):
        with np.errstate(divide="ignore", invalid="ignore", over="ignore"):
            y = c / (base + mu)
        y = np.where(c == 0.0, 0.0, y)
        return float(np.sqrt(y @ y)) - Delta

    lo, hi = 0.0, cn / Delta
    if hi == 0.0 or not excess(hi) <= 0.0:
        hi = max(hi, 1.0)
        while not excess(hi) <= 0.0:
            hi *= 2.0
    for _ in range(max_bisect):
        mid = 0.5 * (lo + hi)
        if mid <= lo or mid >= hi:
            break
        if excess(mid) > 0.0:
            lo = mid
        else:
            hi = mid
    mu = hi                                     # feasible side
    with np.errstate(divide="ignore", invalid="ignore", over="ignore"):
        y = -c / (base + mu)
    y = np.where(c == 0.0, 0.0, y)
    return finish(y, lam_lo + mu, mu, "boundary")


def certificate(A, b, Delta, sol):
    """More-Sorensen conditions of a reference solution, as relative defects (all should be ~1e-12 or less):
    stationarity (A + lam I)s + b = 0, feasibility, complementarity lam (Delta - ||s||) = 0,
    A + lam I positive semidefinite."""
    A = 0.5 * (np.asarray(A, dtype=float) + np.asarray(A, dtype=float).T)
    s, lam, sig = sol["s"], sol["lam"], sol["sig"]
    sn = float(np.sqrt(s @ s))
    anorm = float(np.max(np.abs(sig))) if len(sig) else 0.0
    bn = float(np.sqrt(b @ b))
    scale = bn + (anorm + lam) * max(sn, Delta) + 1e-300
    stat = float(np.linalg.norm(A @ s + lam * s + b)) / scale
    feas = max(0.0, sn / Delta - 1.0)
    comp = 0.0 if lam == 0.0 else abs(sn / Delta - 1.0)
    psd = max(0.0, -(sig[0] + lam)) / (anorm + lam + 1e-300)
    return {"stationarity": stat, "feasibility": feas, "complementarity": comp, "psd": psd,
            "lam_nonneg": float(max(0.0, -lam))}


def cauchy_point(H, g, P, N, Delta):
    """Minimiser of the model along d = -P g subject to ||t d||_N <= Delta (N=None: Euclidean)."""
    g = np.asarray(g, dtype=float)
    d = -(g if P is None else P @ g)
    dn = np.sqrt(nnorm_sq(d, N))
    if dn == 0.0:
        return {"z": 0.0 * d, "value": 0.0, "kind": "zero", "t": 0.0}
    gd = float(g @ d)
    kap = float(d @ (H @ d))
    tb = Delta / dn
    if kap <= 0.0:
        t, kind = tb, "negcurve"
    else:
        tu = -gd / kap
        t, kind = (tu, "interior") if tu <= tb else (tb, "boundary")
    z = t * d
    return {"z": z, "value": model(H, g, z), "kind": kind, "t": float(t)}


def dogleg_path_distance(x, cp, newtonP):
    """Euclidean distance of x from the polyline 0 -> cp -> newtonP and the parameter of the closest point:
    ("leg1", t) means t*cp, ("leg2", s) means cp + s (newtonP - cp); t, s in [0, 1]."""
    x, cp, q = (np.asarray(v, dtype=float) for v in (x, cp, newtonP))
    best = None
    cc = float(cp @ cp)
    t = 0.0 if cc == 0.0 else min(1.0, max(0.0, float(x @ cp) / cc))
    d1 = float(np.linalg.norm(x - t * cp))
    best = (d1, "leg1", t)
    e = q - cp
    ee = float(e @ e)
    s = 0.0 if ee == 0.0 else min(1.0, max(0.0, float((x - cp) @ e) / ee))
    d2 = float(np.linalg.norm(x - cp - s * e))
    if d2 < d1:
        best = (d2, "leg2", s)
    return best


def subspace_minimum(K, b, vectors, Delta):
    """Global minimum of b.z + 1/2 z.K.z over z in span(vectors), ||z||_2 <= Delta.
    Orthonormal basis by Householder QR (independent of the Gram-Schmidt used by the library)."""
    W = np.array(vectors, dtype=float).T            # n x k
    Qb, R = np.linalg.qr(W)
    Hr = Qb.T @ (K @ Qb)
    Hr = 0.5 * (Hr + Hr.T)
    gr = Qb.T @ b
    sol = more_sorensen(Hr, gr, Delta)
    z = Qb @ sol["s"]
    return {"z": z, "value": model(K, b, z), "reduced": sol, "basis": Qb, "Hr": Hr, "gr": gr,
            "rdiag_min": float(np.min(np.abs(np.diag(R)))) if R.size else 0.0}


def _selftest():
    """python -m mc.ref.trs_ref : closed forms and a dense brute force in 2-D (deterministic)."""
    # hard case, closed form: A = diag(-1, 1), b = (0, 1), Delta = 1  ->  s = (+-sqrt(3)/2, -1/2), value -3/4
    sol = more_sorensen(np.diag([-1.0, 1.0]), np.array([0.0, 1.0]), 1.0)
    assert sol["kind"] == "hard" and abs(sol["value"] + 0.75) < 1e-14 and abs(abs(sol["s"][0]) - np.sqrt(0.75)) < 1e-14
    # interior: A = diag(2, 4), b = (2, 4) -> s = (-1, -1), value -3
    sol = more_sorensen(np.diag([2.0, 4.0]), np.array([2.0, 4.0]), 10.0)
    assert sol["kind"] == "interior" and abs(sol["value"] + 3.0) < 1e-14
    # zero matrix: s = -Delta b/|b|
    sol = more_sorensen(np.zeros((2, 2)), np.array([3.0, 4.0]), 2.0)
    assert np.allclose(sol["s"], [-1.2, -1.6], atol=1e-14) and abs(sol["value"] + 10.0) < 1e-13
    # brute force on circles / disc, n = 2, rotated indefinite / singular / definite matrices
    th = np.linspace(0.0, 2 * np.pi, 200001)
    for ang in (0.0, 0.3, 1.1):
        c, s_ = np.cos(ang), np.sin(ang)
        Q = np.array([[c, -s_], [s_, c]])
        for sig in ([-1.0, 2.0], [0.0, 1.0], [1.0, 3.0], [-2.0, -1.0], [-1.0, -1.0]):
            A = Q @ np.diag(sig) @ Q.T
            for b in (Q[:, 1] * 0.7, Q[:, 0] * 0.3 + Q[:, 1], np.zeros(2), 1e-9 * Q[:, 0]):
                for Delta in (0.1, 1.0, 10.0):
                    sol = more_sorensen(A, b, Delta)
                    best = 0.0                                  # s = 0
                    for rad in np.linspace(0.0, Delta, 41)[1:]:
                        P = rad * np.stack([np.cos(th), np.sin(th)])
                        vals = b @ P + 0.5 * np.einsum("ik,ij,jk->k", P, A, P)
                        best = min(best, float(vals.min()))
                    scale = np.linalg.norm(b) * Delta + max(abs(np.array(sig))) * Delta ** 2
                    assert sol["value"] <= best + 1e-12 * scale, (ang, sig, b, Delta, sol["value"], best)
                    assert sol["value"] >= best - 2e-3 * scale, (ang, sig, b, Delta, sol["value"], best)
                    cert = certificate(A, b, Delta, sol)
                    assert max(cert.values()) < 1e-12, cert
    # Cauchy point: H = I, g = e1, Delta = 0.5 -> boundary, value -0.5 + 0.125
    cp = cauchy_point(np.eye(2), np.array([1.0, 0.0]), None, None, 0.5)
    assert cp["kind"] == "boundary" and abs(cp["value"] + 0.375) < 1e-15
    cp = cauchy_point(np.diag([-1.0, 1.0]), np.array([1.0, 0.0]), None, np.diag([4.0, 1.0]), 2.0)
    assert cp["kind"] == "negcurve" and np.allclose(cp["z"], [-1.0, 0.0])
    # dogleg polyline distance
    d, leg, t = dogleg_path_distance(np.array([0.5, 0.0]), np.array([1.0, 0.0]), np.array([1.0, 1.0]))
    assert d == 0.0 and leg == "leg1" and t == 0.5
    d, leg, t = dogleg_path_distance(np.array([1.0, 0.25]), np.array([1.0, 0.0]), np.array([1.0, 1.0]))
    assert d == 0.0 and leg == "leg2" and t == 0.25
    print("trs_ref selftest ok")


if __name__ == "__main__":
    _selftest()
