"""Reference model for C07 (numpy only, never imports optimism or jax).

Energy family (x in R^n; p0 in R^k0 'bc', p1 in R^k1 'state', p2 in R^n 'design', p4 scalar 'time'):

    E(x;p) = 1/2 x'(A + diag(p2)) x + 1/4 c4 sum x_i^4 - s (B p0).x - sin(p4) (w.x) + 1/2 (x . C p1)^2 - (D p2).x
    s      = 1 + a1.p1 + a2.p2 + mu sin(p4)

    (the last term makes G2 non-symmetric, so that a transposed design Jacobian is observable; the factor s couples the
    bc slot to every other slot -- added after a seeded change that evaluated the bc Jacobian with stale state/design/
    time went undetected because G0 was constant)

    grad_x E = (A + diag(p2)) x + c4 x^3 - s B p0 - sin(p4) w + (x . C p1) C p1 - D p2
    H        = A + diag(p2) + 3 c4 diag(x^2) + (C p1)(C p1)'
    G0 = d grad / d p0 = -s B
    G1 = d grad / d p1 = (C p1)(x' C) + (x . C p1) C - (B p0) a1'
    G2 = d grad / d p2 = diag(x) - D - (B p0) a2'
    G4 = d grad / d p4 = -cos(p4) (w + mu B p0)

Implicit function theorem: dx*/dp_k = -H^-1 G_k; the reverse-mode cotangent for v is -v' H^-1 G_k.
Load-step chains: forward (tangent) chain rule with dense matrices.
"""
import numpy as onp


def bc_scale(p1, p2, p4, d):
    """s(p1,p2,p4) = 1 + a1.p1 + a2.p2 + mu sin(p4): the bc load term is -s (B p0).x, so the bc Jacobian -s B depends on
    every other slot (a stale state/design/time inside the bc cotangent is observable) and vanishing slots drop out."""
    return 1.0 + d["a1"] @ p1 + d["a2"] @ p2 + d["mu"] * onp.sin(p4)


def grad(x, p0, p1, p2, p4, d):
    cp = d["C"] @ p1
    return ((d["A"] + onp.diag(p2)) @ x + d["c4"] * x ** 3 - bc_scale(p1, p2, p4, d) * (d["B"] @ p0)
            - onp.sin(p4) * d["w"] + (x @ cp) * cp - d["D"] @ p2)


def hess(x, p1, p2, d):
    cp = d["C"] @ p1
    return d["A"] + onp.diag(p2) + 3.0 * d["c4"] * onp.diag(x ** 2) + onp.outer(cp, cp)


def param_jacobians(x, p0, p1, p2, p4, d):
    """{slot: G_slot} dense, shapes (n,k0), (n,k1), (n,n), (n,1)."""
    cp = d["C"] @ p1
    b = d["B"] @ p0
    return {0: -bc_scale(p1, p2, p4, d) * d["B"],
            1: onp.outer(cp, x @ d["C"]) + (x @ cp) * d["C"] - onp.outer(b, d["a1"]),
            2: onp.diag(x) - d["D"] - onp.outer(b, d["a2"]),
            4: (-onp.cos(p4) * d["w"] - d["mu"] * onp.cos(p4) * b).reshape(-1, 1)}


def solve(p0, p1, p2, p4, d, x0=None, iters=200):
    """Dense damped Newton on the raw energy; the energy is strictly convex on the alphabet (H SPD everywhere when
    A + diag(p2) is SPD), so the stationary point is unique. Returns (x, gradient norm)."""
    n = d["A"].shape[0]
    x = onp.zeros(n) if x0 is None else onp.array(x0, dtype=float)
    g = grad(x, p0, p1, p2, p4, d)
    for _ in range(iters):
        gn = onp.linalg.norm(g)
        if gn == 0.0:
            break
        dx = -onp.linalg.solve(hess(x, p1, p2, d), g)
        t = 1.0
        while t > 1e-12:
            xn = x + t * dx
            g_new = grad(xn, p0, p1, p2, p4, d)
            if onp.linalg.norm(g_new) < gn or t < 1e-10:
                break
            t *= 0.5
        if not onp.linalg.norm(g_new) < gn:
            break                       # no further decrease possible in floating point
        x, g = xn, g_new
    return x, float(onp.linalg.norm(g))


def ift(x, p0, p1, p2, p4, d):
    """Dense sensitivities at the solution x: returns dict with H, Hinv_norm, {slot: (G, dxdp=-H^-1 G, ||G||_2)}."""
    H = hess(x, p1, p2, d)
    w = onp.linalg.eigvalsh(0.5 * (H + H.T))
    G = param_jacobians(x, p0, p1, p2, p4, d)
    out = {"H": H, "lam_min": float(w[0]), "lam_max": float(w[-1]), "Hinv_norm": 1.0 / float(w[0]), "slots": {}}
    # Lipschitz constants in x (used to bound the effect of the forward-solve error on the derivative):
    # dH/dx = 6 c4 diag(x) (per component), dG1/dx: G1 is linear in x, |dG1| <= 2 |C p1| |C| |dx|, dG2/dx = identity
    cp = d["C"] @ p1
    lipH = 6.0 * abs(d["c4"]) * float(onp.max(onp.abs(x))) if x.size else 0.0
    lipG = {0: 0.0, 1: 2.0 * float(onp.linalg.norm(cp)) * float(onp.linalg.norm(d["C"], 2)), 2: 1.0, 4: 0.0}
    for k, Gk in G.items():
        gn = float(onp.linalg.norm(Gk, 2))
        out["slots"][k] = {"G": Gk, "dxdp": -onp.linalg.solve(H, Gk), "Gnorm": gn,
                           # | d(-H^-1 G_k) | <= lip * |dx|
                           "lip": out["Hinv_norm"] * (lipG[k] + out["Hinv_norm"] * gn * lipH)}
    return out


# ------------------------------------------------------------------------------------------------
# load-step chains
def state_update(kind, x, s, d):
    """Smooth path dependence of the state slot. kind 'T': s_new = tanh(M x) + 1/2 s; 'L': s_new = 0.8 s + 0.3 M x;
    'Q': s_new = s + 0.1 (M x)^2 - 0.2 s^2."""
    mx = d["M"] @ x
    if kind == "T":
        return onp.tanh(mx) + 0.5 * s
    if kind == "L":
        return 0.8 * s + 0.3 * mx
    return s + 0.1 * mx ** 2 - 0.2 * s ** 2


def state_update_jac(kind, x, s, d):
    mx = d["M"] @ x
    k1 = s.shape[0]
    if kind == "T":
        return (1.0 - onp.tanh(mx) ** 2)[:, None] * d["M"], 0.5 * onp.eye(k1)
    if kind == "L":
        return 0.3 * d["M"], 0.8 * onp.eye(k1)
    return (0.2 * mx)[:, None] * d["M"], onp.diag(1.0 - 0.4 * s)


def design_update(kind, x, q, d):
    """Smooth path dependence of the design slot (entry nonlinear_solve). 'T': q + 0.1 tanh(x); 'Q': q + 0.05 x^2;
    'N': 0.9 q + 0.02 (no dependence on the solution)."""
    if kind == "T":
        return q + 0.1 * onp.tanh(x)
    if kind == "Q":
        return q + 0.05 * x ** 2
    return 0.9 * q + 0.02


def design_update_jac(kind, x, q, d):
    n = q.shape[0]
    if kind == "T":
        return 0.1 * onp.diag(1.0 - onp.tanh(x) ** 2), onp.eye(n)
    if kind == "Q":
        return onp.diag(0.1 * x), onp.eye(n)
    return onp.zeros((n, n)), 0.9 * onp.eye(n)


def chain_with_state(theta, steps, d):
    """theta = (p0_1, p1_1, p2, p4_1); steps = [(dbc_j, dt_j, kind_j)]: the bc / time increments are applied cumulatively
    *before* solve j, the state update of kind_j after it. Returns xs (list), J = d x_L / d theta
    (n x (k0+k1+n+1)), an a-priori norm bound of J, the largest Hessian condition number, the final (bc, s, t).
    Forward (tangent) chain rule, dense."""
    p0, p1, p2, p4 = [onp.array(t, dtype=float) for t in theta]
    k0, k1, n = p0.shape[0], p1.shape[0], p2.shape[0]
    m = k0 + k1 + n + 1
    D0 = onp.zeros((k0, m)); D0[:, :k0] = onp.eye(k0)
    D1 = onp.zeros((k1, m)); D1[:, k0:k0 + k1] = onp.eye(k1)
    D2 = onp.zeros((n, m)); D2[:, k0 + k1:k0 + k1 + n] = onp.eye(n)
    D4 = onp.zeros((1, m)); D4[0, m - 1] = 1.0
    s, Ds = p1.copy(), D1
    bc, t = p0.copy(), float(p4)
    x = None
    xs, scale, sn, kappa = [], 0.0, 1.0, 0.0
    for dbc, dt, kind in steps:
        bc = bc + dbc
        t = t + dt
        x, gn = solve(bc, s, p2, t, d, x0=x)
        r = ift(x, bc, s, p2, t, d)
        sl = r["slots"]
        Dx = sl[0]["dxdp"] @ D0 + sl[1]["dxdp"] @ Ds + sl[2]["dxdp"] @ D2 + sl[4]["dxdp"] @ D4
        scale = r["Hinv_norm"] * (sl[0]["Gnorm"] + sl[1]["Gnorm"] * sn + sl[2]["Gnorm"] + sl[4]["Gnorm"])
        kappa = max(kappa, r["lam_max"] / r["lam_min"])
        xs.append(x.copy())
        Sx, Ss = state_update_jac(kind, x, s, d)
        sn = onp.linalg.norm(Sx, 2) * scale + onp.linalg.norm(Ss, 2) * sn
        Ds = Sx @ Dx + Ss @ Ds
        s = state_update(kind, x, s, d)
    return xs, Dx, float(scale), float(kappa), (bc, s, t)


def chain_design(q1, fixed, kinds, d):
    """Entry nonlinear_solve: the other slots are fixed (they live in objective.p); the design slot after step j is
    design_update(kind_j, x_j, q_j). Returns xs, J = d x_L / d q_1 (n x n), norm bound, condition, final q."""
    p0, p1, p4 = fixed
    q = onp.array(q1, dtype=float)
    n = q.shape[0]
    Dq = onp.eye(n)
    x = None
    xs, scale, qn, kappa = [], 0.0, 1.0, 0.0
    for kind in kinds:
        x, gn = solve(p0, p1, q, p4, d, x0=x)
        r = ift(x, p0, p1, q, p4, d)
        Dx = r["slots"][2]["dxdp"] @ Dq
        scale = r["Hinv_norm"] * r["slots"][2]["Gnorm"] * qn
        kappa = max(kappa, r["lam_max"] / r["lam_min"])
        xs.append(x.copy())
        Qx, Qq = design_update_jac(kind, x, q, d)
        qn = onp.linalg.norm(Qx, 2) * scale + onp.linalg.norm(Qq, 2) * qn
        Dq = Qx @ Dx + Qq @ Dq
        q = design_update(kind, x, q, d)
    return xs, Dx, float(scale), float(kappa), q
