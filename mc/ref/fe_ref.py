"""Reference models for C03 (numpy / scipy only; never imports optimism).

* monomial bases, values and gradients;
* exact moments of monomials over triangles by an independent degree-31 Duffy x Gauss-Legendre rule
  (numpy.polynomial.legendre.leggauss), cross-checked against the closed barycentric form;
* shoelace area of the boundary polygon(s), boundary extraction by edge counting;
* boundary flux of monomial vector fields with outward normals (16-point Gauss per edge);
* physical quadrature points of an affine triangle from its three vertices;
* the small triangle meshes of the alphabet and the cyclic vertex-rotation patterns.

Conventions that belong to the *statement* (documented in optimism/Interpolants.py and asserted by the
upstream tests): the parent triangle has vertex 0 at (1,0), vertex 1 at (0,1), vertex 2 at (0,0), so a
parametric point (xi, eta) of an affine element with vertices v0, v1, v2 is xi*v0 + eta*v1 + (1-xi-eta)*v2.
"""
import itertools
import math

import numpy as np

TWO_PI = 2.0 * math.pi


# ------------------------------------------------------------------------------------ monomials
def monomials(maxdeg):
    """[(a, b)] with a + b <= maxdeg, ordered by total degree, then decreasing a."""
    return [(d - j, j) for d in range(maxdeg + 1) for j in range(d + 1)]


def mono_degrees(monos):
    return np.array([a + b for a, b in monos], dtype=int)


def mono_eval(pts, monos):
    """pts (..., 2) -> (..., k) values x^a y^b (integer powers, valid for negative coordinates)."""
    pts = np.asarray(pts, dtype=float)
    x, y = pts[..., 0], pts[..., 1]
    return np.stack([x ** a * y ** b for a, b in monos], axis=-1)


def mono_grad(pts, monos):
    """pts (..., 2) -> (..., k, 2) gradients of x^a y^b."""
    pts = np.asarray(pts, dtype=float)
    x, y = pts[..., 0], pts[..., 1]
    out = np.zeros(pts.shape[:-1] + (len(monos), 2))
    for k, (a, b) in enumerate(monos):
        if a > 0:
            out[..., k, 0] = a * x ** (a - 1) * y ** b
        if b > 0:
            out[..., k, 1] = b * x ** a * y ** (b - 1)
    return out


# ------------------------------------------------------------------------------------ triangles
def phys_points(verts, xi):
    """verts (ne,3,2), xi (nq,2) parametric points -> (ne,nq,2) physical points (statement convention)."""
    verts = np.asarray(verts, dtype=float)
    xi = np.asarray(xi, dtype=float)
    l0, l1 = xi[:, 0], xi[:, 1]
    l2 = 1.0 - l0 - l1
    return (l0[None, :, None] * verts[:, None, 0, :] + l1[None, :, None] * verts[:, None, 1, :]
            + l2[None, :, None] * verts[:, None, 2, :])


def signed_areas(verts):
    verts = np.asarray(verts, dtype=float)
    e1 = verts[:, 1] - verts[:, 0]
    e2 = verts[:, 2] - verts[:, 0]
    return 0.5 * (e1[:, 0] * e2[:, 1] - e1[:, 1] * e2[:, 0])


_NG = 16
_gx, _gw = np.polynomial.legendre.leggauss(_NG)
_GS = 0.5 * (_gx + 1.0)          # nodes on [0,1]
_GW = 0.5 * _gw


def duffy_rule(verts):
    """Independent rule on each triangle: points (ne, NG*NG, 2), weights (ne, NG*NG); exact for total
    degree <= 2*NG-2 = 30 (one degree is spent on the Duffy Jacobian)."""
    verts = np.asarray(verts, dtype=float)
    s, t = np.meshgrid(_GS, _GS, indexing="ij")
    ws, wt = np.meshgrid(_GW, _GW, indexing="ij")
    l1 = s.ravel()
    l2 = (t * (1.0 - s)).ravel()
    l0 = 1.0 - l1 - l2
    w = (ws * wt * (1.0 - s)).ravel()
    pts = (l0[None, :, None] * verts[:, None, 0, :] + l1[None, :, None] * verts[:, None, 1, :]
           + l2[None, :, None] * verts[:, None, 2, :])
    wts = 2.0 * np.abs(signed_areas(verts))[:, None] * w[None, :]
    return pts, wts


def tri_moments(verts, monos, axisymmetric=False):
    """Exact integrals over the union of the triangles of every monomial (times 2*pi*x if axisymmetric).
    Returns (moments (k,), abs_moments (k,)); abs_moments = integral of |integrand| (tolerance scale)."""
    pts, wts = duffy_rule(verts)
    vals = mono_eval(pts, monos)                      # (ne, n, k)
    if axisymmetric:
        vals = vals * (TWO_PI * pts[..., 0])[..., None]
    m = np.einsum("enk,en->k", vals, wts)
    am = np.einsum("enk,en->k", np.abs(vals), wts)
    return m, am


def tri_moment_closed(v, a, b):
    """Closed form for one triangle: expand x^a y^b in barycentric coordinates and use
    int lambda^g = 2|T| g0! g1! g2! / (|g| + 2)!  (exact rational coefficients, floating vertex powers)."""
    v = np.asarray(v, dtype=float)
    area2 = abs(2.0 * signed_areas(v[None])[0])
    terms = []
    for al in _compositions(a):
        ca = math.factorial(a) // (math.factorial(al[0]) * math.factorial(al[1]) * math.factorial(al[2]))
        xa = v[0, 0] ** al[0] * v[1, 0] ** al[1] * v[2, 0] ** al[2]
        for be in _compositions(b):
            cb = math.factorial(b) // (math.factorial(be[0]) * math.factorial(be[1]) * math.factorial(be[2]))
            yb = v[0, 1] ** be[0] * v[1, 1] ** be[1] * v[2, 1] ** be[2]
            g = (al[0] + be[0], al[1] + be[1], al[2] + be[2])
            lam = (math.factorial(g[0]) * math.factorial(g[1]) * math.factorial(g[2])
                   / math.factorial(a + b + 2))
            terms.append(ca * cb * xa * yb * lam)
    return area2 * math.fsum(terms)


def _compositions(n):
    return [(i, j, n - i - j) for i in range(n + 1) for j in range(n + 1 - i)]


def selfcheck():
    """Duffy rule against the closed form on a few triangles; returns the worst relative discrepancy."""
    tris = [np.array([[0.0, 0.0], [1.0, 0.0], [0.0, 1.0]]),
            np.array([[0.3, -0.2], [2.1, 0.4], [-0.5, 1.7]]),
            np.array([[1.0, 1.0], [1.5, 11.0], [0.5, 6.0]])]
    monos = monomials(12)
    worst = 0.0
    for t in tris:
        m, am = tri_moments(t[None], monos)
        for k, (a, b) in enumerate(monos):
            c = tri_moment_closed(t, a, b)
            worst = max(worst, abs(c - m[k]) / max(am[k], 1e-300))
    # reference triangle: a! b! / (a+b+2)!
    m, _ = tri_moments(tris[0][None], monos)
    for k, (a, b) in enumerate(monos):
        ex = math.factorial(a) * math.factorial(b) / math.factorial(a + b + 2)
        worst = max(worst, abs(ex - m[k]) / ex)
    return worst


# ------------------------------------------------------------------------------------ boundary
def boundary_edges(conns):
    """Directed edges (in each triangle's own sense) that have no reversed partner.
    Returns list of (element, local side, node i, node j); side s joins local vertices s and (s+1)%3."""
    conns = np.asarray(conns)
    seen = {}
    for e, c in enumerate(conns):
        for s in range(3):
            seen[(int(c[s]), int(c[(s + 1) % 3]))] = (e, s)
    out = []
    for (i, j), (e, s) in sorted(seen.items(), key=lambda kv: kv[1]):
        if (j, i) not in seen:
            out.append((e, s, i, j))
    return out


def shoelace_area(coords, bedges):
    """Area enclosed by the directed boundary edges (outer loops counter-clockwise, holes clockwise)."""
    coords = np.asarray(coords, dtype=float)
    return 0.5 * math.fsum(coords[i, 0] * coords[j, 1] - coords[j, 0] * coords[i, 1] for _, _, i, j in bedges)


def boundary_flux(coords, bedges, monos):
    """For every monomial m and component c: sum over boundary edges of int m(x) n_c ds with the outward
    unit normal n = (t_y, -t_x)/|t| of the directed edge. Returns (flux (k,2), abs_flux (k,2))."""
    coords = np.asarray(coords, dtype=float)
    flux = np.zeros((len(monos), 2))
    aflux = np.zeros((len(monos), 2))
    for _, _, i, j in bedges:
        p0, p1 = coords[i], coords[j]
        t = p1 - p0
        L = math.hypot(t[0], t[1])
        n = np.array([t[1], -t[0]]) / L
        pts = p0[None, :] + _GS[:, None] * t[None, :]
        vals = mono_eval(pts, monos)                  # (ng, k)
        integ = (vals * (_GW * L)[:, None]).sum(0)
        ainteg = (np.abs(vals) * (_GW * L)[:, None]).sum(0)
        flux += integ[:, None] * n[None, :]
        aflux += ainteg[:, None] * np.abs(n)[None, :]
    return flux, aflux


def perimeter(coords, bedges):
    coords = np.asarray(coords, dtype=float)
    return math.fsum(math.hypot(*(coords[j] - coords[i])) for _, _, i, j in bedges)


def divergence_integrals(moments, monos):
    """Given the moments of all monomials up to degree D (ordered as monomials(D)), the exact integral of
    d/dx_c (x^a y^b) for every monomial: (k,2)."""
    idx = {m: k for k, m in enumerate(monos)}
    out = np.zeros((len(monos), 2))
    for k, (a, b) in enumerate(monos):
        if a > 0:
            out[k, 0] = a * moments[idx[(a - 1, b)]]
        if b > 0:
            out[k, 1] = b * moments[idx[(a, b - 1)]]
    return out


# ------------------------------------------------------------------------------------ meshes
def _rot(theta):
    c, s = math.cos(theta), math.sin(theta)
    return np.array([[c, -s], [s, c]])


def _structured(nx, ny, xs=None, ys=None):
    xs = np.linspace(0.0, 1.0, nx) if xs is None else np.asarray(xs, dtype=float)
    ys = np.linspace(0.0, 1.0, ny) if ys is None else np.asarray(ys, dtype=float)
    coords = np.array([[xs[i], ys[j]] for j in range(ny) for i in range(nx)])
    conns = []
    for j in range(ny - 1):
        for i in range(nx - 1):
            n0 = i + nx * j
            conns.append([n0, n0 + 1, n0 + 1 + nx])
            conns.append([n0, n0 + 1 + nx, n0 + nx])
    return coords, np.array(conns, dtype=int)


def _orient(coords, conns):
    conns = np.array(conns, dtype=int)
    a = signed_areas(coords[conns])
    flip = a < 0
    conns[flip] = conns[flip][:, [0, 2, 1]]
    return conns


def delaunay_mesh(seed, npts):
    """Delaunay triangulation of a seeded point set inside a conditioning-controlled family: points in
    [0,1]^2, every triangle with minimum angle >= 12 degrees (deterministic resampling otherwise)."""
    from scipy.spatial import Delaunay
    rng = np.random.default_rng(1000 + seed)
    for _ in range(500):
        pts = rng.uniform(0.0, 1.0, size=(npts, 2))
        tri = Delaunay(pts)
        conns = _orient(pts, tri.simplices)
        if min_angle_deg(pts[conns]) >= 12.0:
            return pts, conns
    raise RuntimeError("no well-conditioned Delaunay point set found")


def min_angle_deg(verts):
    verts = np.asarray(verts, dtype=float)
    worst = 180.0
    for v in verts:
        for i in range(3):
            a, b, c = v[i], v[(i + 1) % 3], v[(i + 2) % 3]
            u, w = b - a, c - a
            cosang = np.dot(u, w) / (np.linalg.norm(u) * np.linalg.norm(w))
            worst = min(worst, math.degrees(math.acos(max(-1.0, min(1.0, cosang)))))
    return worst


TOPOLOGIES = ("tri1", "s2x2", "fan3", "fan4", "ring6", "s3x3", "delaunay")


def topologies(tier):
    if tier == "quick":
        return TOPOLOGIES
    return ("tri1", "s2x2", "fan3", "fan4", "ring6", "s3x3", "s4x3", "delaunay6", "delaunay9")


def base_topology(topo, seed):
    if topo == "tri1":
        return np.array([[0.0, 0.0], [1.0, 0.0], [0.0, 1.0]]), np.array([[0, 1, 2]])
    if topo == "s2x2":
        return _structured(2, 2)
    if topo == "fan3":
        c = np.array([[0.0, 0.0], [2.0, 0.0], [0.5, 1.5], [0.8, 0.5]])
        return c, np.array([[0, 1, 3], [1, 2, 3], [2, 0, 3]])
    if topo == "fan4":
        c = np.array([[0.0, 0.0], [1.0, 0.0], [1.2, 1.1], [-0.1, 0.9], [0.45, 0.55]])
        return c, np.array([[0, 1, 4], [1, 2, 4], [2, 3, 4], [3, 0, 4]])
    if topo == "ring6":
        # triangle with a triangular hole: the boundary has an outer (ccw) and an inner (cw) loop
        c = np.array([[0.0, 0.0], [4.0, 0.0], [1.0, 3.5], [1.2, 0.8], [2.4, 0.9], [1.5, 1.9]])
        return c, np.array([[0, 1, 4], [0, 4, 3], [1, 2, 5], [1, 5, 4], [2, 0, 3], [2, 3, 5]])
    if topo == "s3x3":
        return _structured(3, 3)
    if topo == "s4x3":
        return _structured(4, 3, np.array([0.0, 0.5, 1.25, 2.0]), np.array([0.0, 0.4, 1.0]))
    if topo == "delaunay":
        return delaunay_mesh(seed, 6 + seed % 4)
    if topo.startswith("delaunay"):
        return delaunay_mesh(seed, int(topo[len("delaunay"):]))
    raise KeyError(topo)


def geometries(topo, tier, seed):
    """[(name, coords, conns)] geometric variants of one topology (same connectivity, so the compiled
    kernels are shared). Names are discrete labels; the only seed-dependent variants are 'generic*' and
    the Delaunay point set."""
    c0, conns = base_topology(topo, seed)
    S = np.array([[1.0, 0.6], [0.0, 1.0]])
    out = []

    def add(name, coords):
        coords = np.asarray(coords, dtype=float)
        assert np.all(signed_areas(coords[conns]) > 0), (topo, name)
        out.append((name, coords, conns))

    if topo == "tri1":
        add("ref", c0)
        ks = (1, 3, 5, 9, 12) if tier == "quick" else tuple(range(1, 14))
        for k in ks:
            add("rot%d" % k, c0 @ _rot(k * math.pi / 7.0).T)
        add("aniso1x10", c0 * np.array([1.0, 10.0]))
        add("shear", c0 @ S.T + np.array([0.3, -0.2]))
        rng = np.random.default_rng(2000 + seed)
        A = _rot(rng.uniform(0, 2 * math.pi)) @ np.diag([1.0, rng.uniform(0.3, 3.0)]) @ _rot(rng.uniform(0, math.pi))
        add("generic", c0 @ A.T + rng.uniform(-1.0, 1.0, size=2))
        if tier != "quick":
            add("aniso10x1", c0 * np.array([10.0, 1.0]))
            add("small", c0 * 1e-3 + np.array([0.002, 0.001]))
            add("large", c0 * 1e3 - np.array([200.0, 300.0]))
            add("shear-rot", (c0 @ S.T) @ _rot(2 * math.pi / 7.0).T)
    elif topo == "s2x2":
        add("unit", c0)
        add("rot-shear", (c0 @ S.T) @ _rot(math.pi / 7.0).T)
        if tier != "quick":
            add("aniso1x10", c0 * np.array([1.0, 10.0]))
            add("rot4", c0 @ _rot(4 * math.pi / 7.0).T + np.array([0.5, 0.5]))
    elif topo in ("fan3", "fan4", "ring6"):
        add("base", c0)
        if tier != "quick":
            add("rot-shear", (c0 @ S.T) @ _rot(3 * math.pi / 7.0).T)
            add("aniso1x10", c0 * np.array([1.0, 10.0]))
    elif topo == "s3x3":
        add("unit", c0)
        cd = c0.copy()
        cd[4] += np.array([0.13, -0.09])                      # interior node displaced
        add("distorted", (cd @ S.T) @ _rot(3 * math.pi / 7.0).T)
        g = np.array([0.0, 0.08, 1.0])
        add("graded", _structured(3, 3, g, g * 1.5)[0])
        if tier != "quick":
            add("aniso1x10", c0 * np.array([1.0, 10.0]))
            add("graded-rot", _structured(3, 3, g, g * 1.5)[0] @ _rot(5 * math.pi / 7.0).T)
    elif topo == "s4x3":
        add("graded", c0)
        add("rot-shear", (c0 @ S.T) @ _rot(6 * math.pi / 7.0).T)
    elif topo.startswith("delaunay"):
        add("seeded", c0)
        if tier != "quick":
            add("seeded-rot-aniso", (c0 * np.array([1.0, 4.0])) @ _rot(2 * math.pi / 7.0).T)
    return out


def axisymmetric_shift(coords):
    """Translation in r that puts the whole mesh at r > 0 (r_min = a quarter of the mesh diameter)."""
    coords = np.asarray(coords, dtype=float)
    diam = float(np.max(coords.max(0) - coords.min(0)))
    return np.array([0.25 * diam - coords[:, 0].min(), 0.0])


def rotation_patterns(ne, seed):
    """Cyclic vertex rotation per element. ALL 3^ne patterns for ne <= 4; otherwise all-0, all-1, all-2,
    alternating, and one seeded generic pattern."""
    if ne <= 4:
        return [tuple(p) for p in itertools.product(range(3), repeat=ne)]
    rng = np.random.default_rng(3000 + seed)
    pats = [tuple([0] * ne), tuple([1] * ne), tuple([2] * ne), tuple(e % 3 for e in range(ne)),
            tuple(int(v) for v in rng.integers(0, 3, size=ne))]
    out = []
    for p in pats:
        if p not in out:
            out.append(p)
    return out


def rotate_conns(conns, pattern):
    conns = np.asarray(conns)
    return np.array([[c[(i + r) % 3] for i in range(3)] for c, r in zip(conns, pattern)], dtype=int)


def pattern_label(p):
    return "".join(str(int(r)) for r in p)
