"""Independent strict parser for legacy-VTK ASCII unstructured grids (harness side, no optimism import).

parse(text) -> dict with points, cells, cell_types, point_data, cell_data and a list `problems`
of structural defects (strings with a discrete signature prefix `sig:`), never raising on malformed
input: the checker turns problems into violations.
"""
KEYWORDS = {"POINTS", "CELLS", "CELL_TYPES", "POINT_DATA", "CELL_DATA", "SCALARS", "VECTORS", "TENSORS",
            "LOOKUP_TABLE", "FIELD", "NORMALS", "TEXTURE_COORDINATES", "COLOR_SCALARS", "DATASET"}
INT_TYPES = {"bit", "unsigned_char", "char", "unsigned_short", "short", "unsigned_int", "int", "unsigned_long", "long"}
FLOAT_TYPES = {"float", "double"}


def _isnum(tok):
    try:
        float(tok)
        return True
    except ValueError:
        return False


class _Tok:
    def __init__(self, toks):
        self.t = toks
        self.i = 0

    def peek(self):
        return self.t[self.i] if self.i < len(self.t) else None

    def next(self):
        tok = self.peek()
        self.i += 1
        return tok

    def count(self, what, problems):
        vals, ok = self.numbers(1, what, problems, integer=True)
        if not ok or vals[0] < 0:
            return None
        return vals[0]

    def numbers(self, n, what, problems, integer=False):
        out = []
        for _ in range(n):
            tok = self.peek()
            if tok is None or not _isnum(tok):
                problems.append("too-few-records:%s" % what)
                return out, False
            self.i += 1
            if integer:
                try:
                    out.append(int(tok))
                except ValueError:
                    problems.append("non-integer:%s" % what)
                    out.append(int(float(tok)))
            else:
                out.append(float(tok))
        return out, True


def parse(text):
    problems = []
    lines = text.split("\n")
    res = {"problems": problems, "points": None, "cells": None, "cell_types": None,
           "point_data": {}, "cell_data": {}, "point_data_n": None, "cell_data_n": None,
           "point_data_order": [], "cell_data_order": []}
    if len(lines) < 4 or not lines[0].startswith("# vtk DataFile Version"):
        problems.append("bad-header:version-line")
    if len(lines) >= 3 and lines[2].strip() != "ASCII":
        problems.append("bad-header:format")
    if len(lines) < 4 or lines[3].split() != ["DATASET", "UNSTRUCTURED_GRID"]:
        problems.append("bad-header:dataset")
    if not text.endswith("\n"):
        problems.append("no-trailing-newline")
    tk = _Tok(" ".join(lines[4:]).split())
    section = None
    while tk.peek() is not None:
        kw = tk.next()
        if kw == "POINTS":
            n = tk.count("POINTS-count", problems)
            if n is None:
                break
            dtype = tk.next()
            vals, ok = tk.numbers(3 * n, "POINTS", problems)
            res["points"] = [vals[3 * i:3 * i + 3] for i in range(len(vals) // 3)]
            res["points_n"] = n
            res["points_dtype"] = dtype
        elif kw == "CELLS":
            hdr, ok = tk.numbers(2, "CELLS-header", problems, integer=True)
            if not ok:
                break
            n, size = hdr
            cells, used = [], 0
            for c in range(n):
                k, ok = tk.numbers(1, "CELLS", problems, integer=True)
                if not ok:
                    break
                ids, ok = tk.numbers(k[0], "CELLS", problems, integer=True)
                cells.append(ids)
                used += 1 + k[0]
                if not ok:
                    break
            res["cells"] = cells
            res["cells_n"] = n
            res["cells_size"] = size
            if used != size:
                problems.append("cells-size-mismatch")
        elif kw == "CELL_TYPES":
            n = tk.count("CELL_TYPES-count", problems)
            if n is None:
                break
            vals, ok = tk.numbers(n, "CELL_TYPES", problems, integer=True)
            res["cell_types"] = vals
            res["cell_types_n"] = n
        elif kw in ("POINT_DATA", "CELL_DATA"):
            n = tk.count(kw + "-count", problems)
            if n is None:
                break
            section = "point_data" if kw == "POINT_DATA" else "cell_data"
            if res[section + "_n"] is not None:
                problems.append("duplicate-section:" + kw)
            res[section + "_n"] = n
        elif kw in ("SCALARS", "VECTORS", "TENSORS"):
            if section is None:
                problems.append("attribute-outside-data-section")
                break
            name = tk.next()
            dtype = tk.next()
            ncomp = {"SCALARS": 1, "VECTORS": 3, "TENSORS": 9}[kw]
            if kw == "SCALARS":
                if tk.peek() == "LOOKUP_TABLE":
                    tk.next()
                    tk.next()
                else:
                    problems.append("scalars-without-lookup-table:" + str(name))
            n = res[section + "_n"]
            integer = dtype in INT_TYPES
            if dtype not in INT_TYPES and dtype not in FLOAT_TYPES:
                problems.append("unknown-data-type:" + str(dtype))
            start = tk.i
            vals, ok = tk.numbers(ncomp * n, "%s:%s:%s" % (section, kw, name), problems, integer=False)
            if integer:
                raw = tk.t[start:start + len(vals)]
                for r in raw:
                    try:
                        int(r)
                    except ValueError:
                        problems.append("non-integer-literal:%s:%s" % (section, name))
                        break
            if name in res[section]:
                problems.append("duplicate-array:%s:%s" % (section, name))
            res[section][name] = {"kind": kw, "dtype": dtype,
                                  "values": [vals[ncomp * i:ncomp * i + ncomp] for i in range(len(vals) // ncomp)]}
            res[section + "_order"].append(name)
            nxt = tk.peek()
            if nxt is not None and _isnum(nxt):
                problems.append("too-many-records:%s:%s:%s" % (section, kw, name))
                while tk.peek() is not None and _isnum(tk.peek()):
                    tk.next()
        else:
            problems.append("unexpected-token:%s" % ("number" if _isnum(kw) else kw))
            while tk.peek() is not None and tk.peek() not in KEYWORDS:
                tk.next()
    # cross-section structure
    if res["points"] is None:
        problems.append("missing:POINTS")
    if res["cells"] is None:
        problems.append("missing:CELLS")
    if res["cell_types"] is None:
        problems.append("missing:CELL_TYPES")
    if res["points"] is not None and res["cells"] is not None:
        np_ = len(res["points"])
        for c in res["cells"]:
            if any(i < 0 or i >= np_ for i in c):
                problems.append("connectivity-out-of-range")
                break
        if res["cell_types"] is not None and (len(res["cell_types"]) != len(res["cells"])
                                              or res.get("cell_types_n") != res.get("cells_n")):
            problems.append("cell-types-count-mismatch")
        if res["point_data_n"] is not None and res["point_data_n"] != np_:
            problems.append("point-data-count-mismatch")
        if res["cell_data_n"] is not None and res["cell_data_n"] != len(res["cells"]):
            problems.append("cell-data-count-mismatch")
    return res
