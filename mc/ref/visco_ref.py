"""Reference model for C11 (finite-deformation viscoelasticity with Prony branches).

numpy only -- never imports optimism or jax.  Deliberately boring.  All functions accept a leading
batch axis (`...`).

Formulas read off optimism/material/HyperViscoelastic.py and MultiBranchHyperViscoelastic.py:

  F    = H + I                                   H = displacement gradient
  Fe   = F Fv^-1                                 Fv = viscous distortion of one branch
  Ee   = log sqrt(Fe^T Fe)                       elastic logarithmic (right) strain of that branch
  W_eq = G/2 (J^-2/3 F:F - 3) + K/2 (J^2/2 - 1/2 - log J)        equilibrium (neo-Hookean) energy
  stored non-equilibrium energy of a branch = G_neq |dev Ee|^2
  instantaneous (all branches elastic) energy at the virgin state = W_eq + sum_i G_neq,i |dev log U|^2

The update rule of the library (backward Euler on the viscous strain) is NOT re-implemented here: the
property's invariants are evaluated on the states the real code returns.
"""
import numpy as onp

I3 = onp.eye(3)


def dev(A):
    A = onp.asarray(A, dtype=float)
    tr = onp.trace(A, axis1=-2, axis2=-1)
    return A - tr[..., None, None] * I3 / 3.0


def right_cauchy_green_elastic(H, Fv):
    """C_e = Fe^T Fe with Fe = (H+I) Fv^-1; the tensor whose spectral decomposition the library takes."""
    F = onp.asarray(H, dtype=float) + I3
    Fe = F @ onp.linalg.inv(onp.asarray(Fv, dtype=float))
    return onp.swapaxes(Fe, -1, -2) @ Fe


def log_sqrt_spd(C):
    """0.5 log C for symmetric positive definite C (numpy eigh)."""
    C = onp.asarray(C, dtype=float)
    C = 0.5 * (C + onp.swapaxes(C, -1, -2))
    lam, V = onp.linalg.eigh(C)
    return (V * (0.5 * onp.log(lam))[..., None, :]) @ onp.swapaxes(V, -1, -2)


def elastic_log_strain(H, Fv):
    return log_sqrt_spd(right_cauchy_green_elastic(H, Fv))


def norm_dev_sq(E):
    d = dev(E)
    return onp.sum(d * d, axis=(-2, -1))


def branch_dev_strain_sq(H, Fvs):
    """|dev Ee_i|^2 per branch.  H: (...,3,3); Fvs: (...,nb,3,3)  ->  (...,nb)"""
    H = onp.asarray(H, dtype=float)
    Fvs = onp.asarray(Fvs, dtype=float)
    return norm_dev_sq(elastic_log_strain(H[..., None, :, :], Fvs))


def stored_neq_energy(H, Fvs, G_neq):
    """sum_i G_neq,i |dev Ee_i(F, Fv_i)|^2  ->  (...)"""
    return onp.sum(onp.asarray(G_neq, dtype=float) * branch_dev_strain_sq(H, Fvs), axis=-1)


def equilibrium_energy(H, K, G):
    F = onp.asarray(H, dtype=float) + I3
    J = onp.linalg.det(F)
    I1bar = J ** (-2.0 / 3.0) * onp.sum(F * F, axis=(-2, -1))
    return 0.5 * G * (I1bar - 3.0) + 0.5 * K * (0.5 * J * J - 0.5 - onp.log(J))


def virgin_branch_energies(H, G_neq):
    """G_neq,i |dev log U|^2 per branch for Fv = I  ->  (...,nb)"""
    H = onp.asarray(H, dtype=float)
    e2 = norm_dev_sq(elastic_log_strain(H, I3))
    return onp.asarray(G_neq, dtype=float) * e2[..., None]


def det(A):
    return onp.linalg.det(onp.asarray(A, dtype=float))


def rel_gap_sym(C):
    """Smallest gap between neighbouring eigenvalues of symmetric C relative to the spectral radius."""
    C = onp.asarray(C, dtype=float)
    C = 0.5 * (C + onp.swapaxes(C, -1, -2))
    lam = onp.linalg.eigvalsh(C)
    r = onp.max(onp.abs(lam), axis=-1)
    g = onp.minimum(lam[..., 1] - lam[..., 0], lam[..., 2] - lam[..., 1])
    return onp.where(r > 0, g / onp.where(r > 0, r, 1.0), 0.0)


def rot_z(t):
    c, s = onp.cos(t), onp.sin(t)
    return onp.array([[c, -s, 0.0], [s, c, 0.0], [0.0, 0.0, 1.0]])
