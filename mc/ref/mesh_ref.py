"""Reference model for C13 (numpy / python sets only; never imports optimism).

A mesh is handed over as a *plain mesh*: a dict of python / numpy values

    coords   (nn, 2) float array
    elems    list of tuples of node ids (all nodes of each element, in the element's local order)
    vtris    list of 3-tuples: the vertex nodes of each element in local vertex order
    blocks   dict name -> list of element ids        (or None)
    nodeSets dict name -> list of node ids           (or None)
    sideSets dict name -> list of (element, side)    (or None)

Everything here is brute force: python sets, dictionaries keyed by vertex pairs, O(n^2) distance
checks. The functions return lists of (signature, detail) problems; an empty list means "holds".
"""
import itertools
from collections import Counter

import numpy as np


# ----------------------------------------------------------------------------------- edge dictionary
def edge_dict(vtris):
    """Brute-force edge dictionary: frozenset({a, b}) -> list of (elem, side, a, b), where local side s
    of a triangle (v0, v1, v2) runs from v_s to v_{(s+1) % 3}."""
    d = {}
    for e, t in enumerate(vtris):
        for s in range(3):
            a, b = int(t[s]), int(t[(s + 1) % 3])
            d.setdefault(frozenset((a, b)), []).append((e, s, a, b))
    return d


def input_topology_problems(vtris):
    """Preconditions of a 'valid simplex mesh' (checked on harness-made inputs, never reported as
    library violations): no degenerate triangle, every edge in one or two triangles, and the two
    triangles of an interior edge traverse it in opposite directions."""
    out = []
    for e, t in enumerate(vtris):
        if len(set(int(v) for v in t)) != 3:
            out.append("degenerate-connectivity:%d" % e)
    for k, uses in edge_dict(vtris).items():
        if len(k) != 2:
            continue
        if len(uses) > 2:
            out.append("edge-in-%d-triangles" % len(uses))
        if len(uses) == 2 and (uses[0][2], uses[0][3]) != (uses[1][3], uses[1][2]):
            out.append("inconsistent-orientation")
    return out


def signed_area(p0, p1, p2):
    return 0.5 * ((p1[0] - p0[0]) * (p2[1] - p0[1]) - (p1[1] - p0[1]) * (p2[0] - p0[0]))


def _ints(seq):
    """list of python ints, or None if some entry is not integer valued."""
    out = []
    for v in seq:
        f = float(v)
        if f != f or f != int(f):
            return None
        out.append(int(f))
    return out


# ----------------------------------------------------------------------------------- validity predicate
def validity_problems(pm):
    """connectivity in range and uses every node; vertex triangles counter-clockwise with positive
    area; every block / node-set / side-set member indexes an existing entity."""
    probs = []
    coords = np.asarray(pm["coords"], dtype=float)
    nn = coords.shape[0]
    ne = len(pm["elems"])
    if coords.ndim != 2 or coords.shape[1] != 2 or not np.all(np.isfinite(coords)):
        probs.append(("coords-malformed", {"shape": list(coords.shape)}))
        return probs
    used = set()
    bad = []
    for e, el in enumerate(pm["elems"]):
        ids = _ints(el)
        if ids is None or any(i < 0 or i >= nn for i in ids):
            bad.append(e)
        else:
            used.update(ids)
    if bad:
        probs.append(("conn-out-of-range", {"elements": bad[:10], "nNodes": nn}))
        return probs
    unused = sorted(set(range(nn)) - used)
    if unused:
        probs.append(("unused-node", {"nodes": unused[:20], "count": len(unused)}))
    lens = set(len(el) for el in pm["elems"])
    if len(lens) > 1:
        probs.append(("ragged-connectivity", {"lengths": sorted(lens)}))
    rep = [e for e, el in enumerate(pm["elems"]) if len(set(el)) != len(el)]
    if rep:
        probs.append(("repeated-node-in-element", {"elements": rep[:10]}))
    notccw = []
    for e, t in enumerate(pm["vtris"]):
        a = signed_area(coords[t[0]], coords[t[1]], coords[t[2]])
        if not a > 0.0:
            notccw.append((e, float(a)))
    if notccw:
        probs.append(("element-not-ccw-positive-area", {"elements": notccw[:10], "count": len(notccw)}))
    if pm.get("blocks") is not None:
        for name, mem in pm["blocks"].items():
            ids = _ints(mem)
            if ids is None or any(i < 0 or i >= ne for i in ids):
                probs.append(("block-member-out-of-range", {"block": name, "members": list(map(float, mem))[:20],
                                                            "nElements": ne}))
    if pm.get("nodeSets") is not None:
        for name, mem in pm["nodeSets"].items():
            ids = _ints(mem)
            if ids is None or any(i < 0 or i >= nn for i in ids):
                probs.append(("nodeset-member-out-of-range", {"set": name, "members": list(map(float, mem))[:20],
                                                              "nNodes": nn}))
    if pm.get("sideSets") is not None:
        for name, mem in pm["sideSets"].items():
            badm = []
            for es in mem:
                ids = _ints(es)
                if ids is None or len(ids) != 2 or not (0 <= ids[0] < ne) or not (0 <= ids[1] < 3):
                    badm.append([float(x) for x in es])
            if badm:
                probs.append(("sideset-member-out-of-range", {"set": name, "members": badm[:20], "nElements": ne}))
    return probs


# ----------------------------------------------------------------------------------- create_edges oracle
def edges_problems(vtris, edgeConns, edges):
    """each undirected edge listed exactly once; row = [leftT, leftP, rightT, rightP]; the listed vertex
    pair (a, b) is side leftP of leftT (so the body is on the left, boundary edges counter-clockwise);
    rightT has the reversed pair (b, a) as its side rightP; boundary edges have rightT = rightP = -1."""
    probs = []
    ref = edge_dict(vtris)
    edgeConns = np.asarray(edgeConns)
    edges = np.asarray(edges)
    if edgeConns.ndim != 2 or edgeConns.shape[1] != 2 or edges.ndim != 2 or edges.shape[1] != 4 \
            or edges.shape[0] != edgeConns.shape[0]:
        return [("edge-table-shape", {"edgeConns": list(edgeConns.shape), "edges": list(edges.shape)})]
    listed = Counter(frozenset((int(a), int(b))) for a, b in edgeConns)
    dup = [sorted(k) for k, c in listed.items() if c > 1]
    missing = [sorted(k) for k in ref if k not in listed]
    extra = [sorted(k) for k in listed if k not in ref]
    if dup:
        probs.append(("edge-listed-more-than-once", {"edges": dup[:10]}))
    if missing:
        probs.append(("edge-missing", {"edges": missing[:10], "listed": int(edgeConns.shape[0]), "expected": len(ref)}))
    if extra:
        probs.append(("edge-not-in-mesh", {"edges": extra[:10]}))
    wrong_left, wrong_right, wrong_bnd, not_ccw = [], [], [], []
    ne = len(vtris)
    for i in range(edgeConns.shape[0]):
        a, b = int(edgeConns[i, 0]), int(edgeConns[i, 1])
        k = frozenset((a, b))
        if k not in ref:
            continue
        lt, lp, rt, rp = (int(x) for x in edges[i])
        uses = ref[k]
        ok_left = (0 <= lt < ne and 0 <= lp < 3 and int(vtris[lt][lp]) == a and int(vtris[lt][(lp + 1) % 3]) == b)
        if not ok_left:
            if len(uses) == 1:
                not_ccw.append({"row": i, "edge": [a, b], "entry": [lt, lp, rt, rp], "owner": list(uses[0])})
            else:
                wrong_left.append({"row": i, "edge": [a, b], "entry": [lt, lp, rt, rp]})
        if len(uses) == 1:
            if (rt, rp) != (-1, -1):
                wrong_bnd.append({"row": i, "edge": [a, b], "entry": [lt, lp, rt, rp]})
        else:
            ok_right = (0 <= rt < ne and 0 <= rp < 3 and rt != lt and int(vtris[rt][rp]) == b
                        and int(vtris[rt][(rp + 1) % 3]) == a)
            if not ok_right:
                wrong_right.append({"row": i, "edge": [a, b], "entry": [lt, lp, rt, rp],
                                    "uses": [list(u) for u in uses]})
    if wrong_left:
        probs.append(("left-adjacency-wrong", {"rows": wrong_left[:6], "count": len(wrong_left)}))
    if not_ccw:
        probs.append(("boundary-edge-not-ccw", {"rows": not_ccw[:6], "count": len(not_ccw)}))
    if wrong_right:
        probs.append(("right-adjacency-wrong", {"rows": wrong_right[:6], "count": len(wrong_right)}))
    if wrong_bnd:
        probs.append(("boundary-edge-has-right-element", {"rows": wrong_bnd[:6], "count": len(wrong_bnd)}))
    return probs


# ----------------------------------------------------------------------------------- higher-order oracle
def n_interior(p, bubble):
    return p * (p - 1) // 2 if bubble else (p - 1) * (p - 2) // 2


def nodes_per_element(p, bubble):
    return 3 * p + n_interior(p, bubble)


def barycentric(pcoords, vcols):
    """barycentric coordinates of the reference-element nodes w.r.t. the reference element's own
    vertex triangle (rows: nodes; columns: vertex 0, 1, 2)."""
    pc = np.asarray(pcoords, dtype=float)
    P = pc[list(vcols)]
    T = np.array([[P[0, 0] - P[2, 0], P[1, 0] - P[2, 0]], [P[0, 1] - P[2, 1], P[1, 1] - P[2, 1]]])
    l01 = np.linalg.solve(T, (pc - P[2]).T).T
    return np.column_stack([l01[:, 0], l01[:, 1], 1.0 - l01[:, 0] - l01[:, 1]])


def side_local_nodes(lam, s, tol=1e-12):
    """local node indices on side s (vertex s -> vertex s+1), ordered from vertex s to vertex s+1."""
    on = [k for k in range(lam.shape[0]) if abs(lam[k, (s + 2) % 3]) < tol]
    return sorted(on, key=lambda k: lam[k, (s + 1) % 3])


def high_order_problems(pm, pcoords, vcols, p, bubble, tol_rel=1e-13):
    """each element's nodes are the affine image of the reference-element nodes; shared edge nodes
    coincide between neighbours in matching (reversed) order; no two nodes coincide; node count =
    n_v + n_e (p-1) + n_t n_interior. Returns (problems, maxima)."""
    probs = []
    maxima = {}
    coords = np.asarray(pm["coords"], dtype=float)
    elems = pm["elems"]
    nn = coords.shape[0]
    npe = nodes_per_element(p, bubble)
    pcoords = np.asarray(pcoords, dtype=float)
    if pcoords.shape != (npe, 2) or any(len(el) != npe for el in elems):
        probs.append(("nodes-per-element", {"expected": npe, "reference": list(pcoords.shape),
                                            "found": sorted(set(len(el) for el in elems))}))
        return probs, maxima
    lam = barycentric(pcoords, vcols)
    sides = [side_local_nodes(lam, s) for s in range(3)]
    if any(len(sd) != p + 1 for sd in sides):
        probs.append(("reference-side-node-count", {"expected": p + 1, "found": [len(sd) for sd in sides]}))
        return probs, maxima
    # affine image
    worst = 0.0
    badaff = []
    for e, el in enumerate(elems):
        V = coords[[el[vcols[0]], el[vcols[1]], el[vcols[2]]]]
        X = coords[list(el)]
        pred = lam @ V
        h = max(np.linalg.norm(V[0] - V[1]), np.linalg.norm(V[1] - V[2]), np.linalg.norm(V[2] - V[0]))
        scale = max(h, float(np.max(np.abs(V))))
        err = float(np.max(np.abs(X - pred))) / scale if scale > 0 else float("inf")
        worst = max(worst, err)
        if not err <= tol_rel:
            k = int(np.argmax(np.max(np.abs(X - pred), axis=1)))
            badaff.append({"element": e, "local_node": k, "node": int(el[k]), "found": X[k].tolist(),
                           "expected": pred[k].tolist(), "rel_err": err})
    maxima["affine_rel_err"] = worst
    if badaff:
        probs.append(("nodes-not-affine-image", {"first": badaff[:4], "count": len(badaff)}))
    # shared edges: same node ids, reversed order
    mism = []
    for k, uses in edge_dict(pm["vtris"]).items():
        if len(uses) != 2:
            continue
        (e1, s1, _, _), (e2, s2, _, _) = uses
        ids1 = [int(elems[e1][j]) for j in sides[s1]]
        ids2 = [int(elems[e2][j]) for j in sides[s2]]
        if ids1 != ids2[::-1]:
            mism.append({"edge": sorted(k), "left": [e1, s1, ids1], "right": [e2, s2, ids2]})
    if mism:
        probs.append(("shared-edge-nodes-differ", {"first": mism[:4], "count": len(mism)}))
    # no two nodes coincide
    if nn > 1:
        span = float(np.max(coords.max(axis=0) - coords.min(axis=0)))
        d2 = ((coords[:, None, :] - coords[None, :, :]) ** 2).sum(axis=2)
        d2[np.arange(nn), np.arange(nn)] = np.inf
        i, j = np.unravel_index(int(np.argmin(d2)), d2.shape)
        dmin = float(np.sqrt(d2[i, j]))
        maxima["inv_min_node_distance_rel"] = span / dmin if dmin > 0 else float("inf")
        if not dmin > 1e-9 * span:
            probs.append(("coincident-nodes", {"nodes": [int(i), int(j)], "distance": dmin,
                                               "coords": [coords[i].tolist(), coords[j].tolist()]}))
    # node count
    nv = len(set(int(v) for t in pm["vtris"] for v in t))
    nedge = len(edge_dict(pm["vtris"]))
    expect = nv + nedge * (p - 1) + len(elems) * n_interior(p, bubble)
    if nn != expect:
        probs.append(("node-count", {"found": nn, "expected": expect, "n_v": nv, "n_e": nedge, "n_t": len(elems),
                                     "n_interior": n_interior(p, bubble)}))
    return probs, maxima


# ----------------------------------------------------------------------------------- nothing-lost oracle
def _node_key(xy):
    return (float(xy[0]), float(xy[1]))


def loss_problems(inputs, out):
    """merge / read lose no element, no node-set member and no side-set member of any input.

    inputs: list of plain meshes (for a read: the single mesh the harness wrote). Entities are
    identified through coordinates (inputs have no coincident nodes and occupy disjoint regions):
    a node by its coordinate pair (exact), an element by the set of its nodes, a side by its directed
    vertex pair. A set name of None means 'unnamed in the file': its members must then appear together
    under some name of the output that is not an explicit name. Returns a list of
    (kind, signature, name_class, detail); name_class is 'equal-names' when the set name occurs in more
    than one input, else 'distinct-names'."""
    probs = []
    ocoords = np.asarray(out["coords"], dtype=float)
    onode = {}
    for i, xy in enumerate(ocoords):
        onode.setdefault(_node_key(xy), []).append(i)
    maps = []
    for k, pm in enumerate(inputs):
        m = {}
        lost_nodes = []
        for i, xy in enumerate(np.asarray(pm["coords"], dtype=float)):
            cand = onode.get(_node_key(xy))
            if not cand:
                lost_nodes.append(i)
            else:
                m[i] = cand[0]
        if lost_nodes:
            probs.append(("nodes", "nodes-lost", "n/a", {"input": k, "nodes": lost_nodes[:20]}))
        maps.append(m)
    # elements
    oelems = {}
    for e, el in enumerate(out["elems"]):
        oelems.setdefault(frozenset(int(i) for i in el), []).append(e)
    oside = {}
    for e, t in enumerate(out["vtris"]):
        for s in range(3):
            oside[(e, s)] = (int(t[s]), int(t[(s + 1) % 3]))
    emaps = []
    for k, pm in enumerate(inputs):
        m = maps[k]
        em = {}
        lost = []
        need = Counter()
        for e, el in enumerate(pm["elems"]):
            if any(int(i) not in m for i in el):
                lost.append(e)
                continue
            key = frozenset(m[int(i)] for i in el)
            need[key] += 1
            if key not in oelems or len(oelems[key]) < need[key]:
                lost.append(e)
            else:
                em[e] = oelems[key]
        if lost:
            probs.append(("elements", "members-lost", "n/a", {"input": k, "elements": lost[:20]}))
        emaps.append(em)

    def names_in(kind):
        c = Counter()
        for pm in inputs:
            for nm in (pm.get(kind) or {}):
                if nm is not None and not isinstance(nm, tuple):
                    c[nm] += 1
        return c

    for kind in ("blocks", "nodeSets", "sideSets"):
        cnt = names_in(kind)
        osets = out.get(kind)
        explicit = set(cnt)
        claimed = set()
        for k, pm in enumerate(inputs):
            sets = pm.get(kind)
            if not sets:
                continue
            for nm, mem in sets.items():
                # translate the input's members to output entities
                if kind == "nodeSets":
                    want = [maps[k].get(int(i)) for i in mem]
                elif kind == "blocks":
                    want = [tuple(emaps[k].get(int(e), ())) for e in mem]
                else:
                    want = []
                    for (e, s) in mem:          # inputs are valid meshes (checked by the caller)
                        t = pm["vtris"][int(e)]
                        a, b = maps[k].get(int(t[int(s) % 3])), maps[k].get(int(t[(int(s) + 1) % 3]))
                        want.append((a, b))

                def missing_from(omem):
                    if kind == "nodeSets":
                        have = set(int(i) for i in omem)
                        return [w for w in want if w is None or w not in have]
                    if kind == "blocks":
                        have = set(int(i) for i in omem)
                        return [list(w) for w in want if not w or not (set(w) & have)]
                    have = set()
                    for es in omem:
                        try:
                            have.add(oside.get((int(es[0]), int(es[1]))))
                        except Exception:  # malformed member; range check reports it
                            pass
                    return [list(w) for w in want if None in w or w not in have]

                unnamed = isinstance(nm, tuple)      # ('unnamed', index)
                cls = "distinct-names" if unnamed or cnt[nm] <= 1 else "equal-names"
                if osets is None:
                    if len(want):
                        probs.append((kind, "members-lost", cls, {"input": k, "set": repr(nm), "output": None}))
                    continue
                if not unnamed:
                    if nm not in osets:
                        if len(want):
                            probs.append((kind, "members-lost", cls,
                                          {"input": k, "set": nm, "output_sets": sorted(map(str, osets))}))
                        continue
                    miss = missing_from(_members(osets[nm]))
                    if miss:
                        probs.append((kind, "members-lost", cls,
                                      {"input": k, "set": nm, "input_members": _show(mem),
                                       "output_members": _show(_members(osets[nm])), "missing(output ids)": miss[:20]}))
                else:
                    hit = None
                    for onm in osets:
                        if onm in explicit or onm in claimed:
                            continue
                        if not missing_from(_members(osets[onm])):
                            hit = onm
                            break
                    if hit is None:
                        probs.append((kind, "members-lost", cls,
                                      {"input": k, "set": "unnamed#%d" % nm[1], "input_members": _show(mem),
                                       "output_sets": {str(o): _show(_members(osets[o])) for o in osets}}))
                    else:
                        claimed.add(hit)
    return probs


def _members(x):
    a = np.asarray(x)
    if a.ndim == 2:
        return [tuple(r) for r in a.tolist()]
    return a.tolist()


def _show(mem):
    return [list(m) if isinstance(m, (tuple, list)) else m for m in list(mem)[:30]]


# ----------------------------------------------------------------------------------- harness-side geometry
def boundary_sides(vtris):
    """[(elem, side)] of edges used by exactly one triangle, ordered by element then side."""
    return sorted((u[0][0], u[0][1]) for u in edge_dict(vtris).values() if len(u) == 1)


def rotate(vtris, pattern):
    """cyclic rotation of each triangle's vertex order by pattern[e] positions."""
    out = []
    for t, r in zip(vtris, pattern):
        t = [int(v) for v in t]
        out.append(tuple(t[r % 3:] + t[:r % 3]))
    return out


def make_tri6(coords, vtris):
    """Harness-side quadratic mesh in EXODUS node order: (v0, v1, v2, mid01, mid12, mid20), mid-side
    nodes at the exact edge midpoints, one node per undirected edge, numbered after the vertices in
    order of first appearance."""
    coords = [tuple(map(float, c)) for c in np.asarray(coords, dtype=float)]
    mid = {}
    elems = []
    for t in vtris:
        row = [int(v) for v in t]
        for s in range(3):
            a, b = row[s], row[(s + 1) % 3]
            k = frozenset((a, b))
            if k not in mid:
                mid[k] = len(coords)
                coords.append((0.5 * (coords[a][0] + coords[b][0]), 0.5 * (coords[a][1] + coords[b][1])))
            row.append(mid[k])
        elems.append(tuple(row))
    return np.array(coords), elems


def renumber_nodes(coords, elems, nodeSets, new_of_old):
    coords = np.asarray(coords, dtype=float)
    c2 = np.zeros_like(coords)
    c2[new_of_old] = coords
    e2 = [tuple(int(new_of_old[i]) for i in el) for el in elems]
    n2 = None if nodeSets is None else {k: [int(new_of_old[i]) for i in v] for k, v in nodeSets.items()}
    return c2, e2, n2


def delaunay_mesh(npts, seed, min_quality=0.18):
    """A Delaunay triangulation of npts seeded points in [0,1.5]x[-0.5,0.75], oriented counter-clockwise,
    re-drawn until every point is used and every triangle has area >= min_quality * (longest edge)^2 / 2
    (conditioning control; the seed only picks the representative)."""
    from scipy.spatial import Delaunay
    rng = np.random.default_rng(1000 * int(seed) + npts)
    for _ in range(10000):
        pts = rng.random((npts, 2)) * np.array([1.5, 1.25]) + np.array([0.0, -0.5])
        pts = np.round(pts, 3)
        try:
            tri = Delaunay(pts)
        except Exception:
            continue
        tris = []
        ok = True
        for t in tri.simplices:
            t = [int(v) for v in t]
            a = signed_area(pts[t[0]], pts[t[1]], pts[t[2]])
            if a < 0:
                t = [t[0], t[2], t[1]]
                a = -a
            L = max(np.linalg.norm(pts[t[i]] - pts[t[(i + 1) % 3]]) for i in range(3))
            if a < 0.5 * min_quality * L * L:
                ok = False
                break
            tris.append(tuple(t))
        if not ok or len(set(v for t in tris for v in t)) != npts:
            continue
        tris.sort()
        return pts, tris
    raise RuntimeError("no admissible Delaunay point set found")


def ring_mesh(kind):
    """Meshes with a hole. 'ring6': triangular annulus (6 nodes, 6 triangles); 'ring8': square annulus
    (8 nodes, 8 triangles); 'grid4h': 4x4 grid of nodes with the central cell removed (16 nodes, 16 triangles)."""
    if kind == "ring6":
        outer = [(0.0, -0.5), (1.5, -0.4), (0.6, 0.75)]
        cx, cy = 0.7, -0.05
        inner = [(cx + 0.3 * (x - cx), cy + 0.3 * (y - cy)) for x, y in outer]
        pts = np.array(outer + inner)
        tris = []
        for i in range(3):
            j = (i + 1) % 3
            tris.append((i, j, 3 + j))
            tris.append((i, 3 + j, 3 + i))
        return pts, tris
    if kind == "ring8":
        outer = [(0.0, -0.5), (1.5, -0.5), (1.5, 0.75), (0.0, 0.75)]
        inner = [(0.5, -0.125), (1.0, -0.125), (1.0, 0.375), (0.5, 0.375)]
        pts = np.array(outer + inner)
        tris = []
        for i in range(4):
            j = (i + 1) % 4
            tris.append((i, j, 4 + j))
            tris.append((i, 4 + j, 4 + i))
        return pts, tris
    if kind == "grid4h":
        xs = np.linspace(0.0, 1.5, 4)
        ys = np.linspace(-0.5, 0.75, 4)
        pts = np.array([(x, y) for y in ys for x in xs])
        tris = []
        for ey in range(3):
            for ex in range(3):
                if ex == 1 and ey == 1:
                    continue
                n0 = ex + 4 * ey
                if (ex + ey) % 2 == 0:
                    tris.append((n0, n0 + 1, n0 + 5))
                    tris.append((n0, n0 + 5, n0 + 4))
                else:
                    tris.append((n0, n0 + 1, n0 + 4))
                    tris.append((n0 + 1, n0 + 5, n0 + 4))
        return pts, tris
    raise ValueError(kind)


def grid_mesh(nx, ny):
    """Harness-side structured grid on [0,1.5]x[-0.5,0.75] with ALTERNATING diagonals (deliberately not
    the library generator's layout), counter-clockwise triangles."""
    xs = np.linspace(0.0, 1.5, nx)
    ys = np.linspace(-0.5, 0.75, ny)
    pts = np.array([(x, y) for y in ys for x in xs])
    tris = []
    for ey in range(ny - 1):
        for ex in range(nx - 1):
            n0 = ex + nx * ey
            if (ex + ey) % 2 == 0:
                tris.append((n0, n0 + 1, n0 + nx + 1))
                tris.append((n0, n0 + nx + 1, n0 + nx))
            else:
                tris.append((n0, n0 + 1, n0 + nx))
                tris.append((n0 + 1, n0 + nx + 1, n0 + nx))
    return pts, tris
