"""Reference model for C18 (smoothed min/max/abs, ramp, edge parameter, friction regularisation).

numpy + exact rational arithmetic (fractions) only, never imports optimism.  Everything the property
states is an inequality or an equality between the library value and elementary quantities (the true
minimum, the smoothing width, the Coulomb value); those elementary quantities are formed exactly here.
"""
from fractions import Fraction as Fr
import math

import numpy as np

FLOOR = 1e-14      # the library's documented floor on the smoothing width (SmoothFunctions.safeTol)


def ulp(x):
    x = abs(float(x))
    return float(np.spacing(x)) if np.isfinite(x) else float("inf")


TINY = float(np.finfo(float).tiny)      # smallest normal number


def nudge(x, k):
    """x moved by k floating-point neighbours (k may be negative).  Denormal numbers are not part of the
    alphabet (compiled XLA code flushes them to zero): the neighbours of 0 are taken to be +-k*TINY."""
    x = float(x)
    if x == 0.0:
        return float(k) * TINY
    for _ in range(abs(int(k))):
        x = float(np.nextafter(x, math.inf if k > 0 else -math.inf))
    return x


def eff_width(eps):
    return eps if (eps == 0.0 or eps >= FLOOR) else FLOOR


def in_band_exact(x, y, eps):
    """|x - y| < eps in exact arithmetic"""
    return abs(Fr(x) - Fr(y)) < Fr(eps)


SHARP_ULPS = 128.0     # a-priori bound of a backward-stable evaluation is ~8 ulp; worst observed 1 ulp; 100x margin
CANCEL_ULPS = 256.0    # worst observed 2.6 ulp((x+y)^2/4)/eps


def sharp_tol(x, y, eps):
    """rounding allowance of a backward-stable evaluation: ulps of the largest quantity involved"""
    return SHARP_ULPS * ulp(max(abs(x), abs(y), abs(eps), TINY))


def cancel_bound(x, y, eps):
    """A-priori rounding bound of the formula the library uses inside the band,
    (-(x+y-eps)^2/4 + x y)/eps : two O((x+y)^2/4) terms are subtracted and the difference is divided by eps."""
    e = max(eff_width(eps), 5e-324)
    a = 0.25 * (abs(x) + abs(y) + e) ** 2
    return CANCEL_ULPS * ulp(max(a, abs(x * y))) / e + sharp_tol(x, y, eps)


def min_excess(x, y, eps, v):
    """Exact excesses of the two one-sided bounds for a smoothed MINIMUM value v of (x, y):
    over  = v - min(x,y)                       (must be <= 0: never exceeds the true minimum)
    under = (min(x,y) - v) - eps_eff/4 (1+1e-12)   (must be <= 0: at most a quarter width below)"""
    m = Fr(min(x, y))
    V = Fr(v)
    q = Fr(eff_width(eps)) / 4 * (1 + Fr(1, 10 ** 12))
    return float(V - m), float((m - V) - q)


def friction(s, mu, sReg):
    """exact classification and elementary reference quantities for the regularised friction potential"""
    n2 = sum(Fr(float(c)) ** 2 for c in s)
    inside = n2 <= Fr(sReg) ** 2
    # |s| correctly rounded-ish: sqrt of the exact rational through integer square root scaling
    nf = math.sqrt(float(n2)) if n2 > 0 else 0.0
    if n2 > 0:       # one Newton polish in exact arithmetic keeps the error well below 1 ulp
        nfr = (Fr(nf) + n2 / Fr(nf)) / 2
        nf = float(nfr)
    return {"norm": nf, "inside": bool(inside), "coulomb": mu * nf, "outside_value": mu * (nf - 0.5 * sReg)}


def smooth_linear_switches(l):
    return [("lower", float(l)), ("upper", float(1.0 - l))]
