"""Reference model for C15 (numpy only; never imports optimism).

Newmark time integration of  M a + f_int(u) = 0  written directly from the textbook formulas

    u_{n+1} = u_n + dt v_n + dt^2 [ (1/2 - beta) a_n + beta a_{n+1} ]
    v_{n+1} = v_n + dt [ (1 - gamma) a_n + gamma a_{n+1} ]
    M a_{n+1} + f_int(u_{n+1}) = 0

on dense matrices.  All fields are flat vectors over the *unknown* dofs unless stated otherwise.
"""
import numpy as np


# ----------------------------------------------------------------------------------------- geometry
def triangle_area_sum(coords, simplex_conns):
    """Sum of |signed area| of straight-sided triangles given by their three vertex nodes."""
    c = np.asarray(coords, dtype=float)
    t = np.asarray(simplex_conns, dtype=int)
    a, b, d = c[t[:, 0]], c[t[:, 1]], c[t[:, 2]]
    cr = (b[:, 0] - a[:, 0]) * (d[:, 1] - a[:, 1]) - (b[:, 1] - a[:, 1]) * (d[:, 0] - a[:, 0])
    return float(np.sum(np.abs(cr)) * 0.5)


# ----------------------------------------------------------------------------------------- assembly
def assemble_dense(el_mats, conns, n_nodes):
    """el_mats (ne, nen, d, nen, d), conns (ne, nen) -> dense (n_nodes*d, n_nodes*d), node-major dofs."""
    el = np.asarray(el_mats, dtype=float)
    conns = np.asarray(conns, dtype=int)
    ne, nen, d = el.shape[0], el.shape[1], el.shape[2]
    out = np.zeros((n_nodes * d, n_nodes * d))
    for e in range(ne):
        dofs = np.array([conns[e, a] * d + c for a in range(nen) for c in range(d)])
        out[np.ix_(dofs, dofs)] += el[e].reshape(nen * d, nen * d)
    return out


def component_mass_sums(M, d=2):
    """Sum of all entries of the (c, c) component block, c = 0..d-1; and the largest |off-block sum|."""
    M = np.asarray(M, dtype=float)
    sums = [float(M[c::d, c::d].sum()) for c in range(d)]
    off = max(abs(float(M[c::d, e::d].sum())) for c in range(d) for e in range(d) if c != e) if d > 1 else 0.0
    return sums, off


# ----------------------------------------------------------------------------------------- Newmark
def initial_acceleration(Muu, fu):
    """Consistent initial acceleration: M a0 = -f_int(u0) on the unknowns."""
    return np.linalg.solve(np.asarray(Muu, dtype=float), -np.asarray(fu, dtype=float))


def update_residuals(u0, v0, a0, u1, v1, a1, dt, gamma, beta):
    """Residuals of the two Newmark update formulas with their conditioning scales (max norms).

    returns (ru, su, rv, sv): ru = |u1 - (u0 + dt v0 + dt^2((1/2-beta) a0 + beta a1))|_inf,
    su = |u1| + |u0| + dt|v0| + dt^2(|1/2-beta||a0| + beta|a1|) (max norm of the sum of magnitudes), same for v.
    """
    u0, v0, a0, u1, v1, a1 = (np.asarray(x, dtype=float).ravel() for x in (u0, v0, a0, u1, v1, a1))
    pu = u0 + dt * v0 + dt * dt * ((0.5 - beta) * a0 + beta * a1)
    su = np.abs(u1) + np.abs(u0) + dt * np.abs(v0) + dt * dt * (abs(0.5 - beta) * np.abs(a0) + beta * np.abs(a1))
    pv = v0 + dt * ((1.0 - gamma) * a0 + gamma * a1)
    sv = np.abs(v1) + np.abs(v0) + dt * (abs(1.0 - gamma) * np.abs(a0) + gamma * np.abs(a1))
    return (float(np.max(np.abs(u1 - pu))), float(np.max(su)),
            float(np.max(np.abs(v1 - pv))), float(np.max(sv)))


def linear_step(Muu, Kuu, u, v, a, dt, gamma, beta):
    """One Newmark step of the linear system M a + K u = 0 (unknown dofs), solved for u_{n+1} directly."""
    Muu, Kuu = np.asarray(Muu, dtype=float), np.asarray(Kuu, dtype=float)
    u, v, a = (np.asarray(x, dtype=float) for x in (u, v, a))
    c = 1.0 / (beta * dt * dt)
    up = u + dt * v + dt * dt * (0.5 - beta) * a
    u1 = np.linalg.solve(Kuu + c * Muu, c * (Muu @ up))
    a1 = c * (u1 - up)
    v1 = v + dt * ((1.0 - gamma) * a + gamma * a1)
    return u1, v1, a1


def linear_energy(Muu, Kuu, u, v):
    u, v = np.asarray(u, dtype=float), np.asarray(v, dtype=float)
    return 0.5 * float(v @ (Muu @ v)), 0.5 * float(u @ (Kuu @ u))


def selfcheck():
    """Closed forms: trapezoidal rule on a single oscillator conserves energy for every step size and is
    exact for constant velocity when K = 0."""
    M = np.array([[2.0]])
    K = np.array([[18.0]])
    u, v = np.array([0.3]), np.array([-0.2])
    a = initial_acceleration(M, K @ u)
    e0 = sum(linear_energy(M, K, u, v))
    for dt in (1e-3, 0.1, 0.75, 10.0, 0.1):
        u1, v1, a1 = linear_step(M, K, u, v, a, dt, 0.5, 0.25)
        ru, su, rv, sv = update_residuals(u, v, a, u1, v1, a1, dt, 0.5, 0.25)
        assert ru <= 1e-13 * su and rv <= 1e-13 * sv
        assert abs(M[0, 0] * a1[0] + K[0, 0] * u1[0]) <= 1e-9 * (abs(M[0, 0] * a1[0]) + 1.0)
        u, v, a = u1, v1, a1
        assert abs(sum(linear_energy(M, K, u, v)) - e0) <= 1e-10 * e0
    K0 = np.array([[0.0]])
    u, v, a, t = np.array([0.0]), np.array([1.5]), np.array([0.0]), 0.0
    for dt in (0.75, 10.0, 1e-3):
        u, v, a = linear_step(M, K0, u, v, a, dt, 0.6, 0.3025)
        t += dt
        assert abs(u[0] - 1.5 * t) <= 1e-12 * t and abs(v[0] - 1.5) <= 1e-12 and abs(a[0]) <= 1e-6
    return True
