"""Reference models for C12 (symmetric 3x3 tensor functions, general matrix sqrt/log).

numpy / scipy / fractions only -- never imports optimism or jax.  Deliberately boring:

* alphabets: spectra, scales, orientations, symmetric directions (labelled, discrete)
* f(A) for A = Q diag(lam) Q^T is Q diag(f(lam)) Q^T *from the construction* (no eigen-solver)
* Frechet derivatives that stay accurate at repeated eigenvalues:
    exp : scipy.linalg.expm_frechet
    sqrt: Sylvester equation  S X + X S = E
    log : inverse of the exp-Frechet operator at L = log A
    pow : composition  Dexp(m L)[ m Dlog(A)[E] ]
* det(A+I)-1 in exact rational arithmetic
"""
import itertools
from fractions import Fraction

import numpy as onp
import scipy.linalg as sla

# --------------------------------------------------------------------------------------------
# alphabets
# --------------------------------------------------------------------------------------------

GAPS = [("0", 0.0), ("1e-15", 1e-15), ("1e-12", 1e-12), ("1e-9", 1e-9), ("1e-6", 1e-6), ("1e-3", 1e-3),
        ("0.1", 0.1)]


EXTRA_GAPS = [("1e-14", 1e-14), ("1e-13", 1e-13), ("1e-11", 1e-11), ("1e-10", 1e-10), ("1e-8", 1e-8),
              ("1e-7", 1e-7), ("1e-5", 1e-5), ("1e-4", 1e-4), ("1e-2", 1e-2)]


def spectra(gaps=None):
    """Labelled eigenvalue patterns (ascending); 30 with the default 7 gaps.
    Returns list of (label, (l0,l1,l2), kind) with kind in spd / psd / indef."""
    gaps = GAPS if gaps is None else gaps
    out = [("distinct", (0.5, 1.3, 3.1), "spd")]
    for gl, d in gaps:                       # (a, a(1+d), b): lower pair (nearly) repeated
        out.append(("aab:%s" % gl, (1.0, 1.0 * (1.0 + d), 2.0), "spd"))
    for gl, d in gaps:                       # (a, b, b(1+d)): upper pair (nearly) repeated
        out.append(("abb:%s" % gl, (1.0, 2.0, 2.0 * (1.0 + d)), "spd"))
    out.append(("aaa", (1.5, 1.5, 1.5), "spd"))
    for gl, d in gaps:                       # all three nearly equal (C = I + 2 strain at tiny strain); added after a
        if d > 0.0:                          # seeded change of the spherical-tensor threshold went undetected
            out.append(("aaa:%s" % gl, (1.5, 1.5 * (1.0 + d), 1.5 * (1.0 + 2.0 * d)), "spd"))
    # C = I + 2 strain at a strain of 1e-9: log/pow/sqrt of it are O(1e-9) tensors, so a spectrum flattened to its mean
    # is a 100 % error of the function value although it is a 1e-9 error of the eigen-decomposition
    out.append(("nearI:1e-9", (1.0, 1.0 + 1.0e-9, 1.0 + 2.0e-9), "spd"))
    out.append(("rank2", (0.0, 1.0, 2.0), "psd"))
    out.append(("rank1", (0.0, 0.0, 1.0), "psd"))
    out.append(("rank0", (0.0, 0.0, 0.0), "psd"))
    out.append(("mixed:-3,-2,-2", (-3.0, -2.0, -2.0), "indef"))
    out.append(("mixed:-1,0.5,2", (-1.0, 0.5, 2.0), "indef"))
    out.append(("mixed:-2,-2,1", (-2.0, -2.0, 1.0), "indef"))
    # spectra symmetric about their mean: the deviator has determinant exactly 0 (pure shear), which is the
    # sign(0) corner of the trigonometric root selection in eigen_sym33_unit
    out.append(("sym:1,2,3", (1.0, 2.0, 3.0), "spd"))
    out.append(("sym:-1,0,1", (-1.0, 0.0, 1.0), "indef"))
    return out


SCALES = [("1e-20", 1e-20), ("1e-10", 1e-10), ("1e-5", 1e-5), ("1", 1.0), ("1e5", 1e5), ("1e10", 1e10),
          ("1e20", 1e20)]

INPLANE = [("0.1", 0.1), ("0.3", 0.3), ("pi/6", onp.pi / 6), ("pi/4", onp.pi / 4), ("1", 1.0),
           ("pi/3", onp.pi / 3), ("2", 2.0)]

EULER = [(0.1, 0.2, 0.3), (0.3, 1.0, 2.0), (onp.pi / 4, onp.pi / 4, onp.pi / 4), (1.0, 0.0, 1.0),
         (0.0, onp.pi / 2, 0.3), (2.0, 1.0, 0.1), (onp.pi / 6, onp.pi / 3, onp.pi / 4), (1e-3, 1.0, 1e-3),
         (1.0, 1e-8, 2.0), (0.7, 2.4, 5.1)]


def rot_x(t):
    c, s = onp.cos(t), onp.sin(t)
    return onp.array([[1.0, 0, 0], [0, c, -s], [0, s, c]])


def rot_y(t):
    c, s = onp.cos(t), onp.sin(t)
    return onp.array([[c, 0, s], [0, 1.0, 0], [-s, 0, c]])


def rot_z(t):
    c, s = onp.cos(t), onp.sin(t)
    return onp.array([[c, -s, 0], [s, c, 0], [0, 0, 1.0]])


def generic_rotation(seed, salt=0):
    """Generic proper rotation, bounded away from axis alignment (all |entries| in [0.15, 0.95])."""
    rng = onp.random.default_rng([int(seed), 1200 + int(salt)])
    for _ in range(1000):
        q, r = onp.linalg.qr(rng.normal(size=(3, 3)))
        q = q * onp.sign(onp.diag(r))
        if onp.linalg.det(q) < 0:
            q[:, 2] = -q[:, 2]
        if 0.15 <= onp.abs(q).min() and onp.abs(q).max() <= 0.95:
            return q
    raise RuntimeError("no generic rotation found")


def orientations(seed, extended=False):
    """31 labelled orthogonal matrices: 6 permutations (identity first), 7 in-plane angles about z (the
    plane-strain block form), the same 7 about x, 10 fixed Euler triples, one generic (seeded).
    extended: additionally the 7 angles about y and two more generic rotations (40)."""
    out = []
    for p in itertools.permutations(range(3)):
        out.append(("perm:%d%d%d" % p, onp.eye(3)[:, list(p)]))
    for l, t in INPLANE:
        out.append(("rz:%s" % l, rot_z(t)))
    for l, t in INPLANE:
        out.append(("rx:%s" % l, rot_x(t)))
    for i, (a, b, c) in enumerate(EULER):
        out.append(("euler:%d" % i, rot_z(a) @ rot_x(b) @ rot_z(c)))
    out.append(("generic", generic_rotation(seed)))
    for axis in range(3):
        for kout in range(3):
            out.append(("q45:%d%d" % (axis, kout), exact45(axis, kout)))
    if extended:
        for l, t in INPLANE:
            out.append(("ry:%s" % l, rot_y(t)))
        out.append(("generic2", generic_rotation(seed, 1)))
        out.append(("generic3", generic_rotation(seed, 2)))
    return out


def sym_directions():
    """The 6 basis directions of symmetric 3x3 matrices, unit Frobenius norm."""
    out = []
    for i in range(3):
        for j in range(i, 3):
            E = onp.zeros((3, 3))
            if i == j:
                E[i, i] = 1.0
            else:
                E[i, j] = E[j, i] = onp.sqrt(0.5)
            out.append(("e%d%d" % (i, j), E))
    return out


def exact45(axis, kout):
    """Orthogonal matrix of the exactly representable 45-degree in-plane configuration: eigenvalue number `kout`
    belongs to the coordinate axis `axis`, the other two to (e_i -+ e_j)/sqrt(2) in the plane normal to it."""
    i, j = [a for a in range(3) if a != axis]
    h = onp.sqrt(0.5)
    vi, vj, vk = onp.zeros(3), onp.zeros(3), onp.zeros(3)
    vi[i], vi[j] = h, -h
    vj[i], vj[j] = h, h
    vk[axis] = 1.0
    cols = [vi, vj]
    cols.insert(kout, vk)
    return onp.stack(cols, axis=1)


def compose_labelled(label, Q, lam, scale):
    """compose(), except that the q45 orientations are built entry by entry so that the two in-plane diagonal
    entries are EXACTLY equal and the out-of-plane couplings EXACTLY zero (a rotation matrix with rounded
    1/sqrt(2) entries never produces that; simple-shear and pure-shear states in user code do)."""
    if not label.startswith("q45:"):
        return compose(Q, lam, scale)
    axis, kout = int(label[4]), int(label[5])
    i, j = [a for a in range(3) if a != axis]
    ls = [float(x) for x in lam]
    lk = ls.pop(kout)
    li, lj = ls
    A = onp.zeros((3, 3))
    A[i, i] = A[j, j] = 0.5 * (li + lj)
    A[i, j] = A[j, i] = 0.5 * (lj - li)
    A[axis, axis] = lk
    return scale * A


def compose(Q, lam, scale):
    """A = scale * Q diag(lam) Q^T, exactly symmetric."""
    A = (Q * onp.asarray(lam)[None, :]) @ Q.T
    A = 0.5 * (A + A.T)
    return scale * A


def rel_gap(lam):
    """Smallest gap between neighbouring eigenvalues relative to the spectral radius (0 for the zero tensor)."""
    l = onp.sort(onp.asarray(lam, dtype=float))
    r = onp.abs(l).max()
    if r == 0.0:
        return 0.0
    return float(min(l[1] - l[0], l[2] - l[1]) / r)


def spectrum_class(lam):
    g = rel_gap(lam)
    if g == 0.0:
        return "repeated"
    if g <= 1e-6:
        return "near-repeated"
    return "separated"


# --------------------------------------------------------------------------------------------
# function values and Frechet derivatives
# --------------------------------------------------------------------------------------------

def fun_from_construction(Q, lam, f):
    V = onp.asarray(Q)
    F = (V * f(onp.asarray(lam, dtype=float))[None, :]) @ V.T
    return 0.5 * (F + F.T)


def _eigh_fun(A, f):
    w, V = onp.linalg.eigh(0.5 * (A + A.T))
    return (V * f(w)[None, :]) @ V.T


def frechet_exp(A, E):
    return sla.expm_frechet(A, E, compute_expm=False)


def frechet_sqrt(A, E):
    S = _eigh_fun(A, lambda w: onp.sqrt(onp.maximum(w, 0.0)))
    return sla.solve_sylvester(S, S, E)


def _exp_frechet_operator(L):
    n = L.shape[0]
    K = onp.zeros((n * n, n * n))
    for k in range(n * n):
        B = onp.zeros(n * n)
        B[k] = 1.0
        K[:, k] = sla.expm_frechet(L, B.reshape(n, n), compute_expm=False).ravel()
    return K


def frechet_log(A, E):
    L = _eigh_fun(A, onp.log)
    K = _exp_frechet_operator(L)
    return onp.linalg.solve(K, onp.asarray(E).ravel()).reshape(A.shape)


def frechet_pow(A, m, E):
    L = _eigh_fun(A, onp.log)
    K = _exp_frechet_operator(L)
    DL = onp.linalg.solve(K, onp.asarray(E).ravel()).reshape(A.shape)
    return sla.expm_frechet(m * L, m * DL, compute_expm=False)


class FrechetCache:
    """Frechet derivative operators per matrix, applied to many directions.
    log_op: optionally the (L, K) pair of another cache of the same matrix (shared between exponents)."""

    def __init__(self, A, fn, m=None, log_op=None):
        self.A = onp.asarray(A)
        self.fn = fn
        self.m = m
        self.log_op = None
        if fn in ("log", "pow"):
            if log_op is None:
                L = _eigh_fun(self.A, onp.log)
                log_op = (L, _exp_frechet_operator(L))
            self.log_op = log_op
            self.L, self.K = log_op
        if fn == "sqrt":
            self.S = _eigh_fun(self.A, lambda w: onp.sqrt(onp.maximum(w, 0.0)))

    def apply(self, E):
        if self.fn == "exp":
            return sla.expm_frechet(self.A, E, compute_expm=False)
        if self.fn == "sqrt":
            return sla.solve_sylvester(self.S, self.S, E)
        DL = onp.linalg.solve(self.K, onp.asarray(E).ravel()).reshape(3, 3)
        if self.fn == "log":
            return DL
        return sla.expm_frechet(self.m * self.L, self.m * DL, compute_expm=False)


# --------------------------------------------------------------------------------------------
# det(A + I) - 1 in exact rational arithmetic
# --------------------------------------------------------------------------------------------

def detpIm1_exact(A):
    """Returns (value as float of the exact rational result, sum of |terms|) for a 3x3 float matrix.
    Every float is an exact rational, so the value is the exactly rounded truth."""
    a = [[Fraction(float(A[i][j])) for j in range(3)] for i in range(3)]
    tr = a[0][0] + a[1][1] + a[2][2]
    i2 = (a[0][0] * a[1][1] - a[0][1] * a[1][0]) + (a[0][0] * a[2][2] - a[0][2] * a[2][0]) \
        + (a[1][1] * a[2][2] - a[1][2] * a[2][1])
    det_terms = [a[0][0] * a[1][1] * a[2][2], a[0][1] * a[1][2] * a[2][0], a[0][2] * a[1][0] * a[2][1],
                 -a[0][0] * a[1][2] * a[2][1], -a[0][1] * a[1][0] * a[2][2], -a[0][2] * a[1][1] * a[2][0]]
    val = tr + i2 + sum(det_terms)
    # magnitude of the terms as the library groups them: trace, 0.5*(tr^2 - A:A^T), six cubic products
    atr = abs(a[0][0]) + abs(a[1][1]) + abs(a[2][2])
    adot = sum(abs(a[i][j] * a[j][i]) for i in range(3) for j in range(3))
    bound = atr + Fraction(1, 2) * (atr * atr + adot) + sum(abs(t) for t in det_terms)
    return float(val), float(bound)


# --------------------------------------------------------------------------------------------
# general matrices with positive spectrum
# --------------------------------------------------------------------------------------------

def positive_spectrum_matrix(n, kind, spread, seed):
    """kind 'spd': Q diag(d) Q^T; kind 'nonsym': X diag(d) X^-1 with cond(X) <= 10.
    d log-spaced in [1/sqrt(spread), sqrt(spread)]. Returns (A, cond estimate of the construction)."""
    rng = onp.random.default_rng([int(seed), 1210, n, int(round(onp.log10(spread))), 0 if kind == "spd" else 1])
    d = onp.logspace(-0.5 * onp.log10(spread), 0.5 * onp.log10(spread), n) if spread > 1 else onp.ones(n)
    if spread == 1:
        d = onp.linspace(1.0, 1.5, n)     # spread 1: eigenvalues in [1, 1.5]
    q, _ = onp.linalg.qr(rng.normal(size=(n, n)))
    if kind == "spd":
        A = (q * d[None, :]) @ q.T
        return 0.5 * (A + A.T), float(d.max() / d.min())
    q2, _ = onp.linalg.qr(rng.normal(size=(n, n)))
    s = onp.logspace(0.0, 1.0, n)         # singular values 1..10  -> cond(X) = 10
    X = (q * s[None, :]) @ q2.T
    A = X @ onp.diag(d) @ onp.linalg.inv(X)
    return A, float(d.max() / d.min()) * 100.0


def expm(A):
    return sla.expm(A)


# --------------------------------------------------------------------------------------------
# coverage accounting only (never used for a verdict): which data-dependent branch of the
# closed-form 3x3 eigen-solver a given input is expected to take, evaluated in plain float64.
# --------------------------------------------------------------------------------------------

def eigen_branch_labels(A):
    A = onp.asarray(A, dtype=float)
    labels = []
    with onp.errstate(all="ignore"):
        cmax = onp.abs(A).sum(axis=1).max()
        if cmax == 0.0:
            labels.append("prescale:zero-tensor")
            return labels + ["spectrum:triple(c2>=tol)"]
        labels.append("prescale:nonzero")
        T = A / cmax
        cxx, cyy, czz = T[0, 0], T[1, 1], T[2, 2]
        cxy, cyz, czx = 0.5 * (T[0, 1] + T[1, 0]), 0.5 * (T[1, 2] + T[2, 1]), 0.5 * (T[2, 0] + T[0, 2])
        c1 = (cxx + cyy + czz) / 3.0
        cxx, cyy, czz = cxx - c1, cyy - c1, czz - c1
        c2 = cxx * cyy + cyy * czz + czz * cxx - cxy * cxy - cyz * cyz - czx * czx
        if not (c2 < (c1 * c1) * (-1.0e-30)):
            labels.append("spectrum:triple(c2>=tol)")
            return labels
        labels.append("spectrum:c2<tol")
        a3 = -3.0 / c2
        c3 = cxx * cyz * cyz + cyy * czx * czx - 2.0 * cxy * cyz * czx + czz * (cxy * cxy - cxx * cyy)
        rr = -0.5 * c3 * a3 * onp.sqrt(a3)
        labels.append("acos-arg:clamped" if abs(rr) >= 1.0 else "acos-arg:interior")
        labels.append("largest-root:sign=%+d" % int(onp.sign(rr)))
        w = onp.linalg.eigvalsh(onp.array([[cxx, cxy, czx], [cxy, cyy, cyz], [czx, cyz, czz]]))
        ev2 = w[2] if rr >= 0 else w[0]
        C = onp.array([[cxx - ev2, cxy, czx], [cxy, cyy - ev2, cyz], [czx, cyz, czz - ev2]])
        k = (C * C).sum(axis=1)
        if k[1] <= k[0] and k[2] <= k[0]:
            p = 0
        elif k[2] <= k[1] and not (k[1] <= k[0]):
            p = 1
        else:
            p = 2
        labels.append("pivot:k%d" % p)
        r1 = C[p]
        r2 = C[1] if p == 0 else C[0]
        r3 = C[1] if p == 2 else C[2]
        r2 = r2 - (r1 @ r2) / k[p] * r1
        r3 = r3 - (r1 @ r3) / k[p] * r1
        a0, a1 = r2 @ r2, r3 @ r3
        labels.append("second-row:a0<=a1" if a0 <= a1 else "second-row:a0>a1")
        amax = max(a0, a1)
        labels.append("deflated-rows:noise(rank-1 shift)" if amax <= 1e-24 * k[p] else "deflated-rows:resolved")
        gap2 = (w[1] - w[0]) if rr >= 0 else (w[2] - w[1])
        labels.append("2x2-block:degenerate(gap<=1e-12)" if gap2 <= 1e-12 else "2x2-block:split")
    return labels


# --------------------------------------------------------------------------------------------
# exact sums / dot products (Math.sum2 / Math.dot2, tracked only)
# --------------------------------------------------------------------------------------------

def exact_sum(a):
    s = sum((Fraction(float(x)) for x in a), Fraction(0))
    return float(s), float(sum(abs(Fraction(float(x))) for x in a))


def exact_dot(x, y):
    terms = [Fraction(float(a)) * Fraction(float(b)) for a, b in zip(x, y)]
    return float(sum(terms, Fraction(0))), float(sum(abs(t) for t in terms))
