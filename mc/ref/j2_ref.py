"""Reference model for C09 (J2 plasticity update).  numpy only -- never imports optimism or jax.

Everything is vectorised over a leading batch axis and deliberately boring:

* elastic strain      finite: dev(1/2 log(Fe^T Fe)) + log(det F)/3 I with Fe = F Fp^-1, log through numpy `eigh`
                      small : sym(H) - eps_p
                      seth hill (m = 1/4): (C^m - I)/(2m) - eps_p with C = F^T F, power through numpy `eigh`
* hardening           linear / Voce / power law free energies and flow stresses in closed form
* rate sensitivity    power-law kinetic potential  m/(m+1) S e0 dt (d/(dt e0))^((m+1)/m)  and its derivative
* incremental potential along the radial-return direction N = sqrt(3/2) dev/|dev|:
      Phi(e) = 3/2 mu (a - (e - e_old))^2 + psi(e) + psi_rate(e - e_old, dt),   a = sqrt(2/3) |dev Ee_trial|
  (the volumetric part does not depend on e and is left out), its derivative r(e), and its minimiser over
  [e_old, inf) by plain bisection (r is increasing: Phi is strictly convex).
"""
import numpy as onp

SQ32 = float(onp.sqrt(1.5))
SQ23 = float(onp.sqrt(2.0 / 3.0))
I3 = onp.eye(3)


def _dev(A):
    tr = onp.trace(A, axis1=-2, axis2=-1)
    return A - tr[..., None, None] / 3.0 * I3


def _fro2(A):
    return (A * A).sum(axis=(-2, -1))


def _sym_fun(C, f):
    C = 0.5 * (C + onp.swapaxes(C, -1, -2))
    w, V = onp.linalg.eigh(C)
    return (V * f(w)[..., None, :]) @ onp.swapaxes(V, -1, -2), w


def rel_gap_sym(A):
    """Smallest neighbouring eigenvalue gap / spectral radius of symmetric A (0 for the zero tensor). Batched."""
    A = onp.asarray(A, dtype=float)
    A = 0.5 * (A + onp.swapaxes(A, -1, -2))
    out = onp.zeros(A.shape[:-2])
    ok = onp.all(onp.isfinite(A), axis=(-2, -1))
    if onp.any(ok):
        w = onp.linalg.eigvalsh(A[ok])
        r = onp.abs(w).max(axis=-1)
        g = onp.minimum(w[..., 1] - w[..., 0], w[..., 2] - w[..., 1])
        with onp.errstate(all="ignore"):
            out[ok] = onp.where(r > 0, g / onp.where(r > 0, r, 1.0), 0.0)
    return out


class J2Ref:
    def __init__(self, E, nu, Y0, law, lawp, rate=None, kin="large"):
        """law: 'linear' {H} | 'voce' {Ysat, eps0} | 'power law' {n, eps0}; rate: None or {S, m, epsDot0};
        kin: 'large' | 'small' | 'seth hill'."""
        self.E, self.nu, self.Y0 = float(E), float(nu), float(Y0)
        self.mu = 0.5 * E / (1.0 + nu)
        self.kappa = E / 3.0 / (1.0 - 2.0 * nu)
        self.law, self.lawp, self.rate, self.kin = law, dict(lawp), (dict(rate) if rate else None), kin

    # ---- hardening ------------------------------------------------------------------------------
    def psi(self, e):
        e = onp.asarray(e, dtype=float)
        p, Y0 = self.lawp, self.Y0
        if self.law == "linear":
            return Y0 * e + 0.5 * p["H"] * e * e
        if self.law == "voce":
            return p["Ysat"] * e + (p["Ysat"] - Y0) * p["eps0"] * onp.expm1(-e / p["eps0"])
        if self.law == "power law":
            n, e0 = p["n"], p["eps0"]
            return n * Y0 * e0 / (1.0 + n) * ((1.0 + e / e0) ** ((n + 1.0) / n) - 1.0)
        raise KeyError(self.law)

    def Y(self, e):
        e = onp.asarray(e, dtype=float)
        p, Y0 = self.lawp, self.Y0
        if self.law == "linear":
            return Y0 + p["H"] * e
        if self.law == "voce":
            return p["Ysat"] - (p["Ysat"] - Y0) * onp.exp(-e / p["eps0"])
        if self.law == "power law":
            return Y0 * (1.0 + e / p["eps0"]) ** (1.0 / p["n"])
        raise KeyError(self.law)

    def psi_rate(self, d, dt):
        if self.rate is None:
            return onp.zeros_like(onp.asarray(d, dtype=float))
        S, m, r0 = self.rate["S"], self.rate["m"], self.rate["epsDot0"]
        x = onp.maximum(onp.asarray(d, dtype=float), 0.0) / dt / r0
        return m / (m + 1.0) * S * r0 * dt * x ** ((m + 1.0) / m)

    def sig_rate(self, d, dt):
        if self.rate is None:
            return onp.zeros_like(onp.asarray(d, dtype=float))
        S, m, r0 = self.rate["S"], self.rate["m"], self.rate["epsDot0"]
        x = onp.maximum(onp.asarray(d, dtype=float), 0.0) / dt / r0
        return S * x ** (1.0 / m)

    def dY(self, e):
        e = onp.asarray(e, dtype=float)
        p, Y0 = self.lawp, self.Y0
        if self.law == "linear":
            return p["H"] + 0.0 * e
        if self.law == "voce":
            return (p["Ysat"] - Y0) / p["eps0"] * onp.exp(-e / p["eps0"])
        n, e0 = p["n"], p["eps0"]
        return Y0 / (n * e0) * (1.0 + e / e0) ** (1.0 / n - 1.0)

    def dsig_rate(self, d, dt):
        d = onp.asarray(d, dtype=float)
        if self.rate is None:
            return onp.zeros_like(d)
        S, m, r0 = self.rate["S"], self.rate["m"], self.rate["epsDot0"]
        with onp.errstate(all="ignore"):
            x = onp.maximum(d, 0.0) / dt / r0
            return S / m * x ** (1.0 / m - 1.0) / (dt * r0)

    def rootfind_path_labels(self, a, e_old, dt, r_tol, max_iters=50):
        """COVERAGE ACCOUNTING ONLY (never a verdict): which steps a Newton iteration safeguarded by bisection
        (Numerical Recipes rtsafe, as ScalarRootFind states it) takes on the reference residual from the mid-point
        of [e_old, e_old + (mises_trial - Y(e_old))/(3 mu)].  Scalar inputs."""
        f = lambda x: float(self.resid(x, a, e_old, dt))                                   # noqa
        df = lambda x: float(3.0 * self.mu + self.dY(x) + self.dsig_rate(x - e_old, dt))   # noqa
        lb = e_old
        ub = e_old + (3.0 * self.mu * a - float(self.Y(e_old))) / (3.0 * self.mu)
        labels = []
        fl, fh = f(lb), f(ub)
        if not (fl * fh < 0.0):
            labels.append("bracket: no sign change" if fh != 0.0 else "bracket: upper end is the root")
            return labels
        xl, xh = (lb, ub) if fl < 0 else (ub, lb)
        x = 0.5 * (lb + ub)
        dxold = abs(ub - lb)
        dx = dxold
        F, DF = f(x), df(x)
        nb = nn = 0
        for it in range(max_iters):
            out_of_range = ((x - xh) * DF - F) * ((x - xl) * DF - F) > 0
            slow = abs(2.0 * F) > abs(dxold * DF)
            dxold = dx
            if out_of_range or slow:
                nb += 1
                dx = 0.5 * (xh - xl)
                x = xl + dx
                stag = x == xl
            else:
                nn += 1
                dx = -F / DF
                t = x
                x = x + dx
                stag = x == t
            F, DF = f(x), df(x)
            if F < 0:
                xl = x
            else:
                xh = x
            if stag or abs(F) < r_tol:
                labels.append("exit: |r| < r_tol" if abs(F) < r_tol else "exit: stagnation (x unchanged)")
                break
        else:
            labels.append("exit: iteration budget")
        if nb:
            labels.append("bisection step taken")
        if nn:
            labels.append("newton step taken")
        k = nb + nn
        labels.append("iterations: %s" % ("1" if k <= 1 else ("2-5" if k <= 5 else ("6-20" if k <= 20 else ">20"))))
        return labels

    # ---- kinematics -----------------------------------------------------------------------------
    def elastic_strain(self, H, state):
        """H (n,3,3), state (n,10) -> elastic (trial) strain (n,3,3) for the given internal state."""
        H = onp.asarray(H, dtype=float)
        P = onp.asarray(state, dtype=float)[..., 1:10].reshape(H.shape[:-2] + (3, 3))
        if self.kin == "small":
            return 0.5 * (H + onp.swapaxes(H, -1, -2)) - P
        F = H + I3
        if self.kin == "seth hill":
            m = 0.25
            C = onp.swapaxes(F, -1, -2) @ F
            Cm, _ = _sym_fun(C, lambda w: onp.abs(w) ** m)
            return (Cm - I3) / (2.0 * m) - P
        Fe = F @ onp.linalg.inv(P)
        Ce = onp.swapaxes(Fe, -1, -2) @ Fe
        with onp.errstate(all="ignore"):
            L, _ = _sym_fun(Ce, lambda w: 0.5 * onp.log(w))
            trE = onp.log(onp.linalg.det(F))
        return _dev(L) + trE[..., None, None] / 3.0 * I3

    def decomposed_tensors(self, H, state):
        """The symmetric tensors the library hands to its eigen-solver for (H, state): the one the strain is
        built from, and the deviatoric elastic strain (parallel to the argument of the exponential map)."""
        H = onp.asarray(H, dtype=float)
        P = onp.asarray(state, dtype=float)[..., 1:10].reshape(H.shape[:-2] + (3, 3))
        F = H + I3
        if self.kin == "small":
            return []
        if self.kin == "seth hill":
            return [onp.swapaxes(F, -1, -2) @ F]
        with onp.errstate(all="ignore"):
            Fe = F @ onp.linalg.inv(P)
            Ce = onp.swapaxes(Fe, -1, -2) @ Fe
            D = _dev(self.elastic_strain(H, state))
        return [Ce, D]

    def measures(self, H, state):
        Ee = self.elastic_strain(H, state)
        D = _dev(Ee)
        n2 = _fro2(D)
        nrm = onp.sqrt(n2)
        with onp.errstate(all="ignore"):
            N = onp.where((n2 > 1e-16)[..., None, None], SQ32 * D / onp.where(n2 > 1e-16, nrm, 1.0)[..., None, None], 0.0)
        return {"Ee": Ee, "dev": D, "a": SQ23 * nrm, "mises": 2.0 * self.mu * SQ32 * nrm, "N": N,
                "tr": onp.trace(Ee, axis1=-2, axis2=-1), "flow_dir_defined": n2 > 1e-16}

    # ---- incremental potential along the radial-return direction ------------------------------------
    def phi(self, e, a, e_old, dt):
        d = e - e_old
        return 1.5 * self.mu * (a - d) ** 2 + self.psi(e) + self.psi_rate(d, dt)

    def resid(self, e, a, e_old, dt):
        d = e - e_old
        return -3.0 * self.mu * (a - d) + self.Y(e) + self.sig_rate(d, dt)

    def solve(self, a, e_old, dt, iters=200):
        """argmin of phi over [e_old, inf) by bisection on the increasing residual."""
        a = onp.asarray(a, dtype=float)
        e_old = onp.asarray(e_old, dtype=float)
        lo = e_old.copy()
        hi = e_old + onp.maximum(a, 0.0) + 1e-300
        elastic = self.resid(lo, a, e_old, dt) >= 0.0
        for _ in range(iters):
            mid = 0.5 * (lo + hi)
            neg = self.resid(mid, a, e_old, dt) < 0.0
            lo = onp.where(neg, mid, lo)
            hi = onp.where(neg, hi, mid)
        root = onp.where(onp.abs(self.resid(lo, a, e_old, dt)) <= onp.abs(self.resid(hi, a, e_old, dt)), lo, hi)
        return onp.where(elastic, e_old, root)

    def committed_potential(self, H, state_new, e_old, dt):
        """Deviatoric incremental potential evaluated at a *committed* state (no flow direction involved):
        mu |dev Ee(H, state_new)|^2 + psi(e_new) + psi_rate(e_new - e_old)."""
        D = _dev(self.elastic_strain(H, state_new))
        e = onp.asarray(state_new, dtype=float)[..., 0]
        return self.mu * _fro2(D) + self.psi(e) + self.psi_rate(e - e_old, dt)

    # ---- lock-step update (tracked, and used to continue exploring) ---------------------------------
    def step(self, H, state, dt):
        state = onp.asarray(state, dtype=float)
        m = self.measures(H, state)
        e_old = state[..., 0]
        e = self.solve(m["a"], e_old, dt)
        d = e - e_old
        inc = d[..., None, None] * m["N"]
        P = state[..., 1:10].reshape(state.shape[:-1] + (3, 3))
        if self.kin == "large":
            X, _ = _sym_fun(inc, onp.exp)
            Pn = X @ P
        else:
            Pn = P + inc
        return onp.concatenate([e[..., None], Pn.reshape(state.shape[:-1] + (9,))], axis=-1)

    def virgin(self):
        s = onp.zeros(10)
        if self.kin == "large":
            s[1:10] = I3.ravel()
        return s

    # ---- target construction ----------------------------------------------------------------------
    def uniaxial_for_mises(self, target, sign):
        """Float e (with the given sign) such that the virgin-state Mises stress of H = diag(e,0,0) computed by
        THIS model is as close as a float allows to `target` (bisection down to neighbouring floats)."""
        v = self.virgin()[None, :]

        def mises(x):
            H = onp.zeros((1, 3, 3))
            H[0, 0, 0] = sign * x
            return float(self.measures(H, v)["mises"][0])
        lo, hi = 0.0, 0.5
        assert mises(hi) > target
        while True:
            mid = 0.5 * (lo + hi)
            if mid == lo or mid == hi:
                break
            if mises(mid) < target:
                lo = mid
            else:
                hi = mid
        best = lo if abs(mises(lo) - target) <= abs(mises(hi) - target) else hi
        return sign * best, mises(best)
