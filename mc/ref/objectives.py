"""Reference side of the solver checks: objective families in plain numpy (never imports optimism).

Every family provides value / grad / hess / resolution (sum of |terms|, the floating-point resolution
of the objective) as functions of (x, data) where data is the dict of runtime coefficients that the
JAX twin (defined in the property module) receives through Objective.Params.
"""
import math

import numpy as onp

EPS = onp.finfo(float).eps


def generic_orthogonal(n, seed):
    rng = onp.random.default_rng(1000 + seed)
    for _ in range(100):
        M = rng.standard_normal((n, n))
        Q, R = onp.linalg.qr(M)
        Q = Q * onp.sign(onp.diag(R))
        # conditioning-controlled family: reject near-axis-aligned draws
        if n == 1 or onp.max(onp.abs(Q)) < 0.98:
            return Q
    return Q


SPECTRA = {
    # name: (function n -> eigenvalues, c4)
    "spd1": (lambda n: onp.ones(n), 0.0),
    "spd100": (lambda n: onp.logspace(0, 2, n) if n > 1 else onp.array([100.0]), 0.0),
    "badscale": (lambda n: onp.logspace(-4, 4, n) if n > 1 else onp.array([1e-4]), 0.0),
    "indef": (lambda n: onp.array([-1.0, 0.5, 2.0, 3.0, 0.25, -0.5, 1.5, 4.0][:n]), 1.0),
    "zeroA": (lambda n: onp.zeros(n), 1.0),
    "semidef": (lambda n: onp.array([0.0, 1.0, 2.0, 3.0, 0.5, 1.5, 2.5, 4.0][:n]), 1.0),
}


def quartic_data(n, spec, basis, seed):
    lam, c4 = SPECTRA[spec][0](n), SPECTRA[spec][1]
    Q = onp.eye(n) if basis == "I" else generic_orthogonal(n, seed)
    A = (Q * lam) @ Q.T
    A = 0.5 * (A + A.T)
    b = Q @ onp.array([1.0, -0.5, 0.25, 2.0, -1.0, 0.75, -0.3, 1.2][:n])
    return {"A": A, "b": b, "c4": float(c4), "lam": lam, "Q": Q}


def q_value(x, d):
    return 0.5 * x @ d["A"] @ x - d["b"] @ x + 0.25 * d["c4"] * onp.sum(x ** 4)


def q_grad(x, d):
    return d["A"] @ x - d["b"] + d["c4"] * x ** 3


def q_hess(x, d):
    return d["A"] + 3.0 * d["c4"] * onp.diag(x ** 2)


def q_resolution(x, d):
    return (0.5 * onp.abs(x) @ onp.abs(d["A"]) @ onp.abs(x) + onp.abs(d["b"]) @ onp.abs(x)
            + 0.25 * abs(d["c4"]) * onp.sum(x ** 4))


def q_minimiser(d, x0=None):
    """A stationary point with PSD Hessian, by damped Newton in numpy to gradient ~1e-15."""
    n = d["b"].size
    if d["c4"] == 0.0:
        return onp.linalg.solve(d["A"], d["b"])
    x = onp.array(x0, dtype=float) if x0 is not None else onp.sign(d["b"] + 1e-3) * (1.0 + onp.abs(d["b"])) ** (1 / 3)
    for it in range(400):
        g = q_grad(x, d)
        H = q_hess(x, d)
        w, V = onp.linalg.eigh(H)
        w = onp.maximum(onp.abs(w), 1e-8)
        step = -V @ ((V.T @ g) / w)
        t = 1.0
        f0 = q_value(x, d)
        while t > 1e-12 and q_value(x + t * step, d) > f0 - 1e-4 * t * abs(g @ step):
            t *= 0.5
        xn = x + t * step
        if onp.linalg.norm(q_grad(xn, d)) <= 1e-15 * (1 + onp.linalg.norm(d["b"])) or onp.array_equal(xn, x):
            x = xn
            break
        x = xn
    return x


# -- Rosenbrock 2-D ---------------------------------------------------------------------------------
def ros_value(x, d):
    return (d["a"] - x[0]) ** 2 + d["bb"] * (x[1] - x[0] ** 2) ** 2


def ros_grad(x, d):
    return onp.array([-2 * (d["a"] - x[0]) - 4 * d["bb"] * x[0] * (x[1] - x[0] ** 2),
                      2 * d["bb"] * (x[1] - x[0] ** 2)])


def ros_resolution(x, d):
    return (abs(d["a"]) + abs(x[0])) ** 2 + d["bb"] * (abs(x[1]) + x[0] ** 2) ** 2


# -- log barrier, NaN outside the open box (-1,1)^n ---------------------------------------------------
def bar_value(x, d):
    with onp.errstate(invalid="ignore", divide="ignore"):
        return 0.5 * onp.sum((x - d["c"]) ** 2) - d["mu"] * onp.sum(onp.log(1 - x ** 2))


def bar_grad(x, d):
    with onp.errstate(invalid="ignore", divide="ignore"):
        return (x - d["c"]) + d["mu"] * 2 * x / (1 - x ** 2)


def bar_resolution(x, d):
    with onp.errstate(invalid="ignore", divide="ignore"):
        # last term: conditioning of log(1-x^2) near the wall (relative error of 1-x^2 is eps*(1+x^2)/(1-x^2))
        return (0.5 * onp.sum((onp.abs(x) + onp.abs(d["c"])) ** 2) + d["mu"] * onp.sum(onp.abs(onp.log(1 - x ** 2)))
                + d["mu"] * onp.sum((1 + x ** 2) / onp.abs(1 - x ** 2)))


# -- 1-D cosine with the crafted start ---------------------------------------------------------------
def cos_value(x, d):
    return -math.cos(x[0])


def cos_grad(x, d):
    return onp.array([math.sin(x[0])])


def cos_resolution(x, d):
    return 1.0


def tan_fixed_point():
    """u* in (pi, 3pi/2) with tan u = u (4.4934094579...), to full precision by bisection/Newton."""
    lo, hi = math.pi + 1e-6, 1.5 * math.pi - 1e-9
    f = lambda u: math.sin(u) - u * math.cos(u)
    for _ in range(200):
        mid = 0.5 * (lo + hi)
        if f(lo) * f(mid) <= 0:
            hi = mid
        else:
            lo = mid
    return 0.5 * (lo + hi)


# floating-point resolution of the *gradient* (component-wise sum of |terms|): a gradient norm can only be judged
# against a tolerance up to a few eps of this
def q_gres(x, d):
    return onp.abs(d["A"]) @ onp.abs(x) + onp.abs(d["b"]) + abs(d["c4"]) * onp.abs(x) ** 3


def ros_gres(x, d):
    return onp.array([2 * (abs(d["a"]) + abs(x[0])) + 4 * d["bb"] * abs(x[0]) * (abs(x[1]) + x[0] ** 2),
                      2 * d["bb"] * (abs(x[1]) + x[0] ** 2)])


def bar_gres(x, d):
    with onp.errstate(invalid="ignore", divide="ignore"):
        return onp.abs(x) + onp.abs(d["c"]) + d["mu"] * 2 * onp.abs(x) * (1 + x ** 2) / onp.abs(1 - x ** 2) ** 2


def cos_gres(x, d):
    return onp.array([1.0 + abs(d.get("t", 0.0))])


GRAD_RESOLUTION = {"quartic": q_gres, "rosenbrock": ros_gres, "barrier": bar_gres, "cos1d": cos_gres}


def grad_allowance(fam, x, d):
    """absolute allowance on a gradient norm computed in floating point at x: 8(n+2) eps ||sum |terms| ||"""
    g = GRAD_RESOLUTION[fam](onp.asarray(x, dtype=float), d)
    return 8.0 * (len(g) + 2) * EPS * float(onp.linalg.norm(g))


# -- quadratic + radial quartic c (x.x)^2 (couples the coordinates), with a given stale-preconditioner point -------
def rq_value(x, d):
    return 0.5 * x @ d["A"] @ x - d["b"] @ x + d["c4"] * (x @ x) ** 2


def rq_grad(x, d):
    return d["A"] @ x - d["b"] + 4.0 * d["c4"] * (x @ x) * x


def rq_resolution(x, d):
    return 0.5 * onp.abs(x) @ onp.abs(d["A"]) @ onp.abs(x) + onp.abs(d["b"]) @ onp.abs(x) + abs(d["c4"]) * (x @ x) ** 2


def rq_gres(x, d):
    return onp.abs(d["A"]) @ onp.abs(x) + onp.abs(d["b"]) + 4.0 * abs(d["c4"]) * (x @ x) * onp.abs(x)


# -- multi-well: 1/2|x|^2 - b.x + a sum cos(3 x) ------------------------------------------------------------------------
def mw_value(x, d):
    return 0.5 * x @ x - d["b"] @ x + d["a"] * onp.sum(onp.cos(3.0 * x))


def mw_grad(x, d):
    return x - d["b"] - 3.0 * d["a"] * onp.sin(3.0 * x)


def mw_resolution(x, d):
    return 0.5 * x @ x + onp.abs(d["b"]) @ onp.abs(x) + abs(d["a"]) * x.size


def mw_gres(x, d):
    return onp.abs(x) + onp.abs(d["b"]) + 3.0 * abs(d["a"]) * onp.ones_like(x)


FAMILIES = {
    "radialquartic": (rq_value, rq_grad, rq_resolution),
    "multiwell": (mw_value, mw_grad, mw_resolution),
    "quartic": (q_value, q_grad, q_resolution),
    "rosenbrock": (ros_value, ros_grad, ros_resolution),
    "barrier": (bar_value, bar_grad, bar_resolution),
    "cos1d": (cos_value, cos_grad, cos_resolution),
}


GRAD_RESOLUTION.update({"radialquartic": rq_gres, "multiwell": mw_gres})


# -- naive softplus sum log(1+exp(x)) - c.x: smooth and convex, but its floating-point evaluation overflows for x > 709
# (value inf, gradient inf/inf = NaN) -- a far trial point has a NaN gradient although the function is harmless --------
def sp_value(x, d):
    return float(onp.sum(onp.logaddexp(0.0, x)) - d["c"] @ x)


def sp_grad(x, d):
    with onp.errstate(over="ignore"):
        return 1.0 / (1.0 + onp.exp(-x)) - d["c"]


def sp_resolution(x, d):
    return float(onp.sum(onp.abs(onp.logaddexp(0.0, x))) + onp.abs(d["c"]) @ onp.abs(x))


def sp_gres(x, d):
    return onp.ones_like(x) + onp.abs(d["c"])


FAMILIES["softplus"] = (sp_value, sp_grad, sp_resolution)
GRAD_RESOLUTION["softplus"] = sp_gres
