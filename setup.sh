#!/bin/bash
# Nothing to build: checks import /repo's working tree directly. Verify the toolchain is usable offline.
set -e
cd "$(dirname "$0")"
mkdir -p evidence replays
PYTHONPATH="$PWD/shim:$PWD:/repo" /venv/bin/python -c "import jax, numpy, scipy, netCDF4, sksparse.cholmod, optimism; import mc.core, mc.runner; print('setup ok')"
