"""Stand-in for sksparse.cholmod (absent from this sandbox, cannot be fetched).

Dense scipy Cholesky behind the handful of names optimism/SparseCholesky.py uses.
It is also the explorer's one *environment seam* for the solvers: FAIL_PLAN is a list the
harness may fill with booleans; each factorisation pops one entry and raises
CholmodNotPositiveDefiniteError when it is True ("the factorisation failed"), which reaches
the shifted-diagonal retry path and the identity fallback of SparseCholesky.factorize.
"""
import numpy as onp
import scipy.linalg
import scipy.sparse


class CholmodError(Exception):
    pass


class CholmodNotPositiveDefiniteError(CholmodError):
    pass


FAIL_PLAN = []          # harness-controlled: True entries make the next factorisation fail
FAIL_ALWAYS = [False]   # harness-controlled: every non-identity factorisation fails
CALLS = [0]


def _dense(A):
    if scipy.sparse.issparse(A):
        return onp.asarray(A.toarray(), dtype=float)
    return onp.asarray(A, dtype=float)


class Factor:
    def __init__(self):
        self._c = None

    def _factor(self, A):
        CALLS[0] += 1
        Ad = _dense(A)
        isIdentity = Ad.shape[0] == Ad.shape[1] and onp.array_equal(Ad, onp.eye(Ad.shape[0]))
        if not isIdentity:
            if FAIL_ALWAYS[0]:
                raise CholmodNotPositiveDefiniteError("shim: forced failure (always)")
            if FAIL_PLAN and FAIL_PLAN.pop(0):
                raise CholmodNotPositiveDefiniteError("shim: forced failure (plan)")
        try:
            return scipy.linalg.cho_factor(Ad, lower=True, check_finite=True)
        except (scipy.linalg.LinAlgError, ValueError) as e:
            raise CholmodNotPositiveDefiniteError(str(e))

    def cholesky_inplace(self, A, beta=0):
        self._c = self._factor(A)

    def cholesky(self, A, beta=0):
        f = Factor()
        f._c = self._factor(A)
        return f

    def __call__(self, b):
        return scipy.linalg.cho_solve(self._c, onp.asarray(b, dtype=float), check_finite=False)  # NaN in -> NaN out, like cholmod

    solve_A = __call__


def analyze(A, mode="auto", ordering_method="default", use_long=None):
    return Factor()


def cholesky(A, beta=0, mode="auto", ordering_method="default", use_long=None):
    f = Factor()
    f.cholesky_inplace(A)
    return f
